# sourced by every script: offline Go environment
export GOFLAGS=-mod=mod GOPROXY=off GOSUMDB=off GOTOOLCHAIN=local
export VERIF_DIR="${VERIF_DIR:-$(cd "$(dirname "${BASH_SOURCE[0]}")/.." && pwd)}"
export VERIF_BUILD="$VERIF_DIR/.build"
mkdir -p "$VERIF_BUILD"
