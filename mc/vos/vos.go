// Package vos is an OS shim used only through a generated build overlay of /repo/fs_local.go
// (see cmd/overlaygen): every os.* call of LocalFileSystem goes through it, so that a checker can
// make exactly one chosen call fail with a chosen errno, wrapped the way package os wraps it
// (with the real absolute path inside). Without an active plan every function is a pass-through.
package vos

import (
	"io/fs"
	"os"
	"strings"
	"sync"
	"syscall"
)

// Plan makes call number FailAt (0-based, counted per root) below Root fail with Errno.
type Plan struct {
	Root    string
	FailAt  int // -1: count only
	FailAt2 int // second fault (-1: none)
	Errno   syscall.Errno
	calls   int
	Ops     []string // the operations performed, in order
	Failed  []string
}

var (
	mu    sync.Mutex
	plans = map[string]*Plan{}
	// Hits counts shim invocations process-wide: proves that the overlay is active.
	Hits int64
)

// Install activates a plan for its root; Remove deactivates it and returns it.
func Install(p *Plan) {
	mu.Lock()
	p.calls = 0
	plans[p.Root] = p
	mu.Unlock()
}

func Remove(root string) *Plan {
	mu.Lock()
	defer mu.Unlock()
	p := plans[root]
	delete(plans, root)
	return p
}

// Calls reports how many shim calls the plan has seen.
func (p *Plan) Calls() int { mu.Lock(); defer mu.Unlock(); return p.calls }

// fault decides whether this call fails.
func fault(op string, paths ...string) (syscall.Errno, bool) {
	mu.Lock()
	defer mu.Unlock()
	Hits++
	for _, p := range plans {
		for _, path := range paths {
			if path == p.Root || strings.HasPrefix(path, p.Root+"/") {
				i := p.calls
				p.calls++
				p.Ops = append(p.Ops, op)
				if i == p.FailAt || (p.FailAt2 >= 0 && i == p.FailAt2) {
					p.Failed = append(p.Failed, op)
					return p.Errno, true
				}
				return 0, false
			}
		}
	}
	return 0, false
}

func pathErr(op, path string, e syscall.Errno) error { return &fs.PathError{Op: op, Path: path, Err: e} }

func Stat(name string) (os.FileInfo, error) {
	if e, ok := fault("stat", name); ok {
		return nil, pathErr("stat", name, e)
	}
	return os.Stat(name)
}

func Remove_(name string) error {
	if e, ok := fault("remove", name); ok {
		return pathErr("remove", name, e)
	}
	return os.Remove(name)
}

func RemoveAll(name string) error {
	if e, ok := fault("removeall", name); ok {
		// os.RemoveAll reports the failing syscall as unlinkat/openfdat
		return pathErr("unlinkat", name, e)
	}
	return os.RemoveAll(name)
}

func Mkdir(name string, perm os.FileMode) error {
	if e, ok := fault("mkdir", name); ok {
		return pathErr("mkdir", name, e)
	}
	return os.Mkdir(name, perm)
}

func Rename(oldpath, newpath string) error {
	if e, ok := fault("rename", oldpath, newpath); ok {
		return &os.LinkError{Op: "rename", Old: oldpath, New: newpath, Err: e}
	}
	return os.Rename(oldpath, newpath)
}

// File wraps *os.File so that reads, writes and close are fault points as well.
type File struct {
	f *os.File
}

func wrap(f *os.File, err error) (*File, error) {
	if err != nil {
		return nil, err
	}
	return &File{f}, nil
}

func Open(name string) (*File, error) {
	if e, ok := fault("open", name); ok {
		return nil, pathErr("open", name, e)
	}
	return wrap(os.Open(name))
}

func Create(name string) (*File, error) {
	if e, ok := fault("create", name); ok {
		return nil, pathErr("open", name, e)
	}
	return wrap(os.Create(name))
}

func OpenFile(name string, flag int, perm os.FileMode) (*File, error) {
	if e, ok := fault("openfile", name); ok {
		return nil, pathErr("open", name, e)
	}
	return wrap(os.OpenFile(name, flag, perm))
}

func (f *File) Name() string { return f.f.Name() }

func (f *File) Read(p []byte) (int, error) {
	if e, ok := fault("read", f.f.Name()); ok {
		return 0, pathErr("read", f.f.Name(), e)
	}
	return f.f.Read(p)
}

func (f *File) Write(p []byte) (int, error) {
	if e, ok := fault("write", f.f.Name()); ok {
		return 0, pathErr("write", f.f.Name(), e)
	}
	return f.f.Write(p)
}

func (f *File) Seek(off int64, whence int) (int64, error) { return f.f.Seek(off, whence) }

func (f *File) Close() error {
	if e, ok := fault("close", f.f.Name()); ok {
		f.f.Close()
		return pathErr("close", f.f.Name(), e)
	}
	return f.f.Close()
}

func (f *File) Stat() (os.FileInfo, error) { return f.f.Stat() }
