// Package harness: directory-tree states, wire-faithful transport, request helpers.
package harness

import (
	"fmt"
	"hash/fnv"
	"os"
	"path/filepath"
	"sort"
	"strings"
	"sync/atomic"
	"time"
)

// Node of an abstract resource tree.
type Node struct {
	Dir     bool   `json:"dir,omitempty"`
	Content string `json:"content,omitempty"`
	// Link: the entry is a symbolic link with this (relative) target
	Link string `json:"link,omitempty"`
}

// Tree maps clean absolute slash paths to nodes. "/" is the served root.
type Tree map[string]Node

func (t Tree) Clone() Tree {
	o := make(Tree, len(t))
	for k, v := range t {
		o[k] = v
	}
	return o
}

// Canon renders the tree canonically: sorted (path, kind, bytes).
func (t Tree) Canon() string {
	keys := make([]string, 0, len(t))
	for k := range t {
		keys = append(keys, k)
	}
	sort.Strings(keys)
	var sb strings.Builder
	for _, k := range keys {
		n := t[k]
		if n.Link != "" {
			fmt.Fprintf(&sb, "%s->%s ", k, n.Link)
		} else if n.Dir {
			fmt.Fprintf(&sb, "%s/ ", k)
		} else {
			fmt.Fprintf(&sb, "%s=%q ", k, n.Content)
		}
	}
	return sb.String()
}

var scratchBase string
var scratchSeq int64

// ScratchRoot returns the per-process scratch directory (tmpfs when available).
func ScratchRoot() string {
	if scratchBase != "" {
		return scratchBase
	}
	base := "/dev/shm"
	if st, err := os.Stat(base); err != nil || !st.IsDir() {
		base = os.TempDir()
	}
	d, err := os.MkdirTemp(base, fmt.Sprintf("verif-%d-", os.Getpid()))
	if err != nil {
		panic(err)
	}
	scratchBase = d
	return d
}

// Cleanup removes the scratch directory.
func Cleanup() {
	if scratchBase != "" {
		os.RemoveAll(scratchBase)
		scratchBase = ""
	}
}

// NewDir returns a fresh empty directory under the scratch root.
func NewDir(prefix string) string {
	n := atomic.AddInt64(&scratchSeq, 1)
	// five guard levels: a server under test that climbs out of its directory (a seeded change, or a defect)
	// stays within this process's own scratch space for as many dot-dot steps as the alphabets can produce
	d := filepath.Join(ScratchRoot(), "g", "u", "a", "r", "d", fmt.Sprintf("%s%d", prefix, n))
	if err := os.MkdirAll(d, 0o755); err != nil {
		panic(err)
	}
	return d
}

// FixedMtime is the deterministic modification time given to a materialised entry.
func FixedMtime(p string, content string) time.Time {
	h := fnv.New32a()
	h.Write([]byte(p))
	h.Write([]byte{0})
	h.Write([]byte(content))
	return time.Unix(1577836800+int64(h.Sum32()%100000), 0)
}

// Materialise creates the tree under root (root itself must not exist or be empty).
func Materialise(root string, t Tree) {
	keys := make([]string, 0, len(t))
	for k := range t {
		keys = append(keys, k)
	}
	sort.Strings(keys)
	for _, k := range keys {
		n := t[k]
		p := filepath.Join(root, filepath.FromSlash(k))
		if n.Link != "" {
			if err := os.Symlink(n.Link, p); err != nil {
				panic(err)
			}
		} else if n.Dir {
			if err := os.MkdirAll(p, 0o755); err != nil {
				panic(err)
			}
		} else {
			if err := os.WriteFile(p, []byte(n.Content), 0o644); err != nil {
				panic(err)
			}
		}
	}
	// set mtimes bottom-up so directory mtimes stick
	for i := len(keys) - 1; i >= 0; i-- {
		k := keys[i]
		p := filepath.Join(root, filepath.FromSlash(k))
		if t[k].Link != "" {
			continue // a link has no time of its own to set (Chtimes follows it)
		}
		mt := FixedMtime(k, t[k].Content)
		os.Chtimes(p, mt, mt)
	}
}

// Snapshot reads the directory back as a Tree. If root is missing the tree is empty;
// if root is a file the tree has "/" as a file. stamp additionally fingerprints mtimes.
func Snapshot(root string) (t Tree, stamp string) {
	t = Tree{}
	var sb strings.Builder
	st, err := os.Lstat(root)
	if err != nil {
		return t, "missing"
	}
	if !st.IsDir() {
		b, _ := os.ReadFile(root)
		t["/"] = Node{Content: string(b)}
		return t, fmt.Sprintf("rootfile %d", st.ModTime().UnixNano())
	}
	filepath.Walk(root, func(p string, fi os.FileInfo, err error) error {
		if err != nil {
			return nil
		}
		rel, _ := filepath.Rel(root, p)
		k := "/" + filepath.ToSlash(rel)
		if rel == "." {
			k = "/"
		}
		if fi.Mode()&os.ModeSymlink != 0 {
			target, _ := os.Readlink(p)
			t[k] = Node{Link: target}
			fmt.Fprintf(&sb, "%s -> %s;", k, target)
			return nil
		}
		if fi.IsDir() {
			t[k] = Node{Dir: true}
		} else {
			b, _ := os.ReadFile(p)
			t[k] = Node{Content: string(b)}
		}
		fmt.Fprintf(&sb, "%s %d %v;", k, fi.ModTime().UnixNano(), fi.Mode())
		return nil
	})
	return t, sb.String()
}
