package harness

import (
	"bytes"
	"context"
	"fmt"
	"io"
	"net/http"
	"net/http/httptest"
	"net/url"
	"runtime/debug"
	"sort"
	"strings"
)

// Req is a replayable description of one HTTP request.
type Req struct {
	Method string            `json:"method"`
	Path   string            `json:"path"`             // request path (decoded form)
	Raw    bool              `json:"raw,omitempty"`    // assign Path to r.URL.Path verbatim instead of going through a request line
	Header map[string]string `json:"header,omitempty"` // single-valued headers
	Body   string            `json:"body,omitempty"`
	Fault  *BodyFault        `json:"fault,omitempty"`
	// Chunked: the body arrives without an announced length (Transfer-Encoding: chunked; ContentLength -1)
	Chunked bool `json:"chunked,omitempty"`
}

// BodyFault makes the request body fail after N bytes, delivered in the given chunks.
type BodyFault struct {
	Chunks []int  `json:"chunks"`
	FailAt int    `json:"fail_at"`
	Err    string `json:"err"` // "unexpected-eof" | "canceled"
}

func (r Req) String() string {
	var hs []string
	for k, v := range r.Header {
		hs = append(hs, k+": "+v)
	}
	sort.Strings(hs)
	s := r.Method + " " + r.Path
	if len(hs) > 0 {
		s += " [" + strings.Join(hs, "; ") + "]"
	}
	if r.Body != "" {
		s += fmt.Sprintf(" body=%q", trunc(r.Body, 80))
	}
	if r.Fault != nil {
		s += fmt.Sprintf(" fault=%v@%d/%s", r.Fault.Chunks, r.Fault.FailAt, r.Fault.Err)
	}
	if r.Chunked {
		s += " chunked"
	}
	return s
}

func trunc(s string, n int) string {
	if len(s) > n {
		return s[:n] + "…"
	}
	return s
}

// Resp is what the handler produced.
type Resp struct {
	Status   int
	Header   http.Header
	Body     []byte
	Panic    string
	WroteHdr int
}

type faultReader struct {
	data   []byte
	chunks []int
	failAt int
	err    error
	pos    int
	ci     int
}

func (f *faultReader) Read(p []byte) (int, error) {
	if f.pos >= f.failAt {
		return 0, f.err
	}
	if f.pos >= len(f.data) {
		return 0, io.EOF
	}
	n := len(f.data) - f.pos
	if f.ci < len(f.chunks) && f.chunks[f.ci] < n {
		n = f.chunks[f.ci]
	}
	if f.pos+n > f.failAt {
		n = f.failAt - f.pos
	}
	if n > len(p) {
		n = len(p)
	}
	copy(p, f.data[f.pos:f.pos+n])
	f.pos += n
	f.ci++
	return n, nil
}
func (f *faultReader) Close() error { return nil }

// EscapePath percent-encodes a decoded path for use in a request line.
func EscapePath(p string) string {
	u := url.URL{Path: p}
	return u.EscapedPath()
}

// Build turns a Req into an *http.Request the way a server would see it.
func (q Req) Build() (*http.Request, context.CancelFunc) {
	var body io.Reader
	if q.Body != "" {
		body = strings.NewReader(q.Body)
	}
	var r *http.Request
	if q.Raw {
		r = httptest.NewRequest(q.Method, "http://h/", body)
		r.URL.Path = q.Path
		r.URL.RawPath = ""
		r.RequestURI = q.Path
	} else {
		target := EscapePath(q.Path)
		if target == "" {
			target = "/"
		}
		r = httptest.NewRequest(q.Method, "http://h"+target, body)
	}
	for k, v := range q.Header {
		r.Header.Set(k, v)
	}
	cancel := context.CancelFunc(func() {})
	if q.Fault != nil {
		fr := &faultReader{data: []byte(q.Body), chunks: q.Fault.Chunks, failAt: q.Fault.FailAt}
		switch q.Fault.Err {
		case "canceled":
			ctx, c := context.WithCancel(r.Context())
			cancel = c
			fr.err = context.Canceled
			r = r.WithContext(ctx)
			// the context is cancelled at the moment the reader fails
			fr2 := &cancelOnFail{fr, c}
			r.Body = fr2
		case "cancelled-before":
			// the request context is already cancelled when the handler starts (the client went away while the
			// request was queued); the body, if any, reads fine
			ctx, c := context.WithCancel(r.Context())
			c()
			r = r.WithContext(ctx)
			fr.failAt = len(fr.data) + 1
			r.Body = fr
		case "cancel-only":
			// the request context is cancelled once FailAt bytes were delivered, but the body
			// itself keeps reading without error up to EOF
			ctx, c := context.WithCancel(r.Context())
			cancel = c
			r = r.WithContext(ctx)
			fr.failAt = len(fr.data) + 1
			r.Body = &cancelAt{faultReader: fr, at: q.Fault.FailAt, cancel: c}
		default:
			fr.err = io.ErrUnexpectedEOF
			r.Body = fr
		}
		r.ContentLength = -1
	} else if q.Chunked {
		// hide the length from net/http, as a chunked upload does (also for a body that turns out empty:
		// a chunked request consisting of the terminating chunk only)
		r.Body = io.NopCloser(struct{ io.Reader }{strings.NewReader(q.Body)})
		r.ContentLength = -1
		r.TransferEncoding = []string{"chunked"}
	}
	return r, cancel
}

type cancelOnFail struct {
	*faultReader
	cancel context.CancelFunc
}

func (c *cancelOnFail) Read(p []byte) (int, error) {
	n, err := c.faultReader.Read(p)
	if err != nil && err != io.EOF {
		c.cancel()
	}
	return n, err
}

type cancelAt struct {
	*faultReader
	at     int
	cancel context.CancelFunc
}

func (c *cancelAt) Read(p []byte) (int, error) {
	if c.faultReader.pos >= c.at {
		c.cancel()
	}
	n, err := c.faultReader.Read(p)
	if c.faultReader.pos >= c.at {
		c.cancel()
	}
	return n, err
}

type countingRecorder struct {
	*httptest.ResponseRecorder
	n int
}

func (c *countingRecorder) WriteHeader(code int) {
	c.n++
	c.ResponseRecorder.WriteHeader(code)
}

// Serve runs the handler on the request and records the response; panics are caught.
func Serve(h http.Handler, q Req) Resp {
	r, cancel := q.Build()
	defer cancel()
	return ServeRequest(h, r)
}

// ServeRequest runs the handler on a prepared request.
func ServeRequest(h http.Handler, r *http.Request) Resp {
	rec := &countingRecorder{ResponseRecorder: httptest.NewRecorder()}
	var out Resp
	func() {
		defer func() {
			if p := recover(); p != nil {
				out.Panic = fmt.Sprint(p) + " [at " + PanicOrigin() + "]"
			}
		}()
		h.ServeHTTP(rec, r)
	}()
	res := rec.Result()
	out.Status = res.StatusCode
	out.Header = res.Header
	out.Body, _ = io.ReadAll(res.Body)
	out.WroteHdr = rec.n
	return out
}

var _ = bytes.NewReader

// PanicOrigin, called from a deferred function that has just recovered a panic, names the function in which the
// panic was raised (the first frame below the runtime's own), so that two different panics do not share a
// signature.
func PanicOrigin() string {
	lines := strings.Split(string(debug.Stack()), "\n")
	seenPanic := false
	for _, l := range lines {
		if strings.HasPrefix(l, "panic(") {
			seenPanic = true
			continue
		}
		if !seenPanic || strings.HasPrefix(l, "\t") || strings.HasPrefix(l, "runtime.") || strings.HasPrefix(l, "runtime/") {
			continue
		}
		if i := strings.LastIndex(l, "("); i > 0 {
			l = l[:i]
		}
		if j := strings.LastIndex(l, "/"); j >= 0 {
			l = l[j+1:]
		}
		return l
	}
	return "unknown"
}
