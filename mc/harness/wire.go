package harness

import (
	"bufio"
	"bytes"
	"context"
	"fmt"
	"io"
	"net/http"
	"net/http/httptest"
	"path"
	"sort"
	"strconv"
	"strings"
	"sync"
	"time"

	webdav "github.com/emersion/go-webdav"
)

// Wire is a wire-faithful in-process transport: the client's request is serialised with
// (*http.Request).Write, re-parsed with http.ReadRequest (what net/http's server does), the
// handler runs on a recorder, the response is serialised and re-parsed with http.ReadResponse.
// No sockets, timers or goroutines: deterministic.
type Wire struct {
	Handler http.Handler
	mu      sync.Mutex
	// LastRequest holds the bytes of the most recent request as sent.
	// Targets: scheme://host of every request the client sent (redirects must stay with the endpoint)
	Targets []string
	// Auths: the Authorization header of every request (credentials given in the endpoint URL must be sent)
	Auths []string
	// ShortBodies counts answers whose handler announced more bytes than it wrote
	ShortBodies int
	LastRequest []byte
	Requests    int
	// Hook, if set, is called at the entry of RoundTrip (scheduling point for C18).
	Hook func(ctx context.Context, method, path string)
	// BodyHook, if set, makes the handler receive the request body in pieces of BodyChunk bytes with a
	// call of BodyHook before every piece but the first (scheduling points INSIDE a handler that streams
	// its body, e.g. two uploads overlapping in the file system).
	BodyHook  func(ctx context.Context, method, path string)
	BodyChunk int
}

type hookedBody struct {
	r     io.ReadCloser
	n     int
	reads int
	hook  func()
}

func (b *hookedBody) Read(p []byte) (int, error) {
	if b.reads > 0 {
		b.hook()
	}
	b.reads++
	if len(p) > b.n {
		p = p[:b.n]
	}
	return b.r.Read(p)
}

func (b *hookedBody) Close() error { return b.r.Close() }

func (w *Wire) RoundTrip(req *http.Request) (*http.Response, error) {
	if w.Hook != nil {
		w.Hook(req.Context(), req.Method, req.URL.Path)
	}
	var buf bytes.Buffer
	if err := req.Write(&buf); err != nil {
		return nil, fmt.Errorf("wire: cannot serialise request: %w", err)
	}
	w.mu.Lock()
	w.LastRequest = append([]byte(nil), buf.Bytes()...)
	w.Requests++
	w.Targets = append(w.Targets, req.URL.Scheme+"://"+req.URL.Host)
	w.Auths = append(w.Auths, req.Header.Get("Authorization"))
	w.mu.Unlock()
	sreq, err := http.ReadRequest(bufio.NewReader(&buf))
	if err != nil {
		// what a real server answers to an unparsable request
		resp := &http.Response{StatusCode: 400, Status: "400 Bad Request", Proto: "HTTP/1.1", ProtoMajor: 1, ProtoMinor: 1, Header: http.Header{}, Body: io.NopCloser(strings.NewReader("")), Request: req}
		return resp, nil
	}
	sreq = sreq.WithContext(req.Context())
	sreq.RemoteAddr = "192.0.2.1:1234"
	if w.BodyHook != nil && sreq.Body != nil && sreq.Body != http.NoBody {
		ctx, m, pth := req.Context(), req.Method, req.URL.Path
		n := w.BodyChunk
		if n <= 0 {
			n = 8
		}
		sreq.Body = &hookedBody{r: sreq.Body, n: n, hook: func() { w.BodyHook(ctx, m+"-body", pth) }}
	}
	rec := httptest.NewRecorder()
	w.Handler.ServeHTTP(rec, sreq)
	res := rec.Result()
	var rbuf bytes.Buffer
	body, _ := io.ReadAll(res.Body)
	// What net/http's server does with a handler that announces a Content-Length and then writes another
	// number of bytes: the excess is not sent (Write fails with ErrContentLength); after too few bytes the
	// connection is closed, and the client's read of the body ends in an unexpected EOF.
	short := -1
	if d := rec.Header().Get("Content-Length"); d != "" && sreq.Method != http.MethodHead && res.StatusCode != http.StatusNoContent && res.StatusCode != http.StatusNotModified && res.StatusCode >= 200 {
		if n, perr := strconv.ParseInt(d, 10, 64); perr == nil && n >= 0 {
			if int64(len(body)) > n {
				body = body[:n]
			} else if int64(len(body)) < n {
				short = len(body)
			}
		}
	}
	res.Body = io.NopCloser(bytes.NewReader(body))
	res.ContentLength = int64(len(body))
	if err := res.Write(&rbuf); err != nil {
		return nil, fmt.Errorf("wire: cannot serialise response: %w", err)
	}
	cres, err := http.ReadResponse(bufio.NewReader(&rbuf), req)
	if err != nil {
		return nil, fmt.Errorf("wire: cannot parse response: %w", err)
	}
	b, _ := io.ReadAll(cres.Body)
	cres.Body = io.NopCloser(bytes.NewReader(b))
	if short >= 0 {
		w.mu.Lock()
		w.ShortBodies++
		w.mu.Unlock()
		cres.Body = io.NopCloser(io.MultiReader(bytes.NewReader(b), errReader{io.ErrUnexpectedEOF}))
	}
	return cres, nil
}

type errReader struct{ err error }

func (e errReader) Read([]byte) (int, error) { return 0, e.err }

// Client returns a stock http.Client over the wire (redirects followed by net/http's own logic).
func (w *Wire) Client() *http.Client { return &http.Client{Transport: w} }

// Capture is an HTTPClient that records the request and answers with a canned response.
type Capture struct {
	Method string
	URL    string
	Header http.Header
	Body   []byte
	Status int
	RespCT string
	Resp   string
}

func (c *Capture) Do(req *http.Request) (*http.Response, error) {
	c.Method, c.URL, c.Header = req.Method, req.URL.String(), req.Header.Clone()
	c.Body = nil
	if req.Body != nil {
		c.Body, _ = io.ReadAll(req.Body)
		req.Body.Close()
	}
	st := c.Status
	if st == 0 {
		st = 207
	}
	body := c.Resp
	if body == "" && st == 207 {
		body = `<?xml version="1.0"?><multistatus xmlns="DAV:"></multistatus>`
	}
	ct := c.RespCT
	if ct == "" {
		ct = "application/xml"
	}
	return &http.Response{StatusCode: st, Status: fmt.Sprintf("%d %s", st, http.StatusText(st)), Proto: "HTTP/1.1", ProtoMajor: 1, ProtoMinor: 1,
		Header: http.Header{"Content-Type": {ct}}, Body: io.NopCloser(strings.NewReader(body)), Request: req}, nil
}

// MemFS is an in-memory recording webdav.FileSystem that can hold arbitrary metadata.
type MemFS struct {
	mu       sync.Mutex
	Files    map[string]*MemFile // by path as given
	Calls    []Call
	Hook     func(ctx context.Context, method, path string)
	NextETag *string // when set: the entity tag Create gives to what it stores
	// EchoStat: Stat reports the resource under the name it was asked for (as LocalFileSystem does), while
	// ReadDir lists the collection under its stored name
	EchoStat bool
}

type MemFile struct {
	Info webdav.FileInfo
	Data []byte
}

func NewMemFS() *MemFS { return &MemFS{Files: map[string]*MemFile{}} }

func (m *MemFS) rec(ctx context.Context, method, p string, arg interface{}) {
	if m.Hook != nil {
		m.Hook(ctx, method, p)
	}
	m.mu.Lock()
	m.Calls = append(m.Calls, Call{method, p, arg})
	m.mu.Unlock()
}

func (m *MemFS) Add(fi webdav.FileInfo, data string) {
	m.mu.Lock()
	m.Files[fi.Path] = &MemFile{Info: fi, Data: []byte(data)}
	m.mu.Unlock()
}

func (m *MemFS) Snapshot() []Call {
	m.mu.Lock()
	defer m.mu.Unlock()
	return append([]Call(nil), m.Calls...)
}

func (m *MemFS) Reset() { m.mu.Lock(); m.Calls = nil; m.mu.Unlock() }

func (m *MemFS) lookup(name string) *MemFile {
	if f, ok := m.Files[name]; ok {
		return f
	}
	// collections may be addressed with or without the trailing slash
	if f, ok := m.Files[strings.TrimSuffix(name, "/")]; ok && name != "/" {
		return f
	}
	if f, ok := m.Files[name+"/"]; ok {
		return f
	}
	return nil
}

func (m *MemFS) Open(ctx context.Context, name string) (io.ReadCloser, error) {
	m.rec(ctx, "Open", name, nil)
	m.mu.Lock()
	defer m.mu.Unlock()
	f := m.lookup(name)
	if f == nil {
		return nil, webdav.NewHTTPError(404, fmt.Errorf("not found"))
	}
	// deliberately not an io.ReadSeeker, so the handler streams it itself
	return io.NopCloser(bytes.NewReader(f.Data)), nil
}

func (m *MemFS) Stat(ctx context.Context, name string) (*webdav.FileInfo, error) {
	m.rec(ctx, "Stat", name, nil)
	m.mu.Lock()
	defer m.mu.Unlock()
	f := m.lookup(name)
	if f == nil {
		return nil, webdav.NewHTTPError(404, fmt.Errorf("not found"))
	}
	fi := f.Info
	if m.EchoStat {
		fi.Path = name
	}
	return &fi, nil
}

func (m *MemFS) ReadDir(ctx context.Context, name string, recursive bool) ([]webdav.FileInfo, error) {
	m.rec(ctx, "ReadDir", name, recursive)
	m.mu.Lock()
	defer m.mu.Unlock()
	f := m.lookup(name)
	if f == nil {
		return nil, webdav.NewHTTPError(404, fmt.Errorf("not found"))
	}
	base := strings.TrimSuffix(f.Info.Path, "/")
	var keys []string
	for k := range m.Files {
		keys = append(keys, k)
	}
	sort.Strings(keys)
	out := []webdav.FileInfo{f.Info}
	for _, k := range keys {
		g := m.Files[k]
		if g == f {
			continue
		}
		kp := strings.TrimSuffix(k, "/")
		if !strings.HasPrefix(kp, base+"/") {
			continue
		}
		if !recursive && path.Dir(kp) != base && !(base == "" && path.Dir(kp) == "/") {
			continue
		}
		out = append(out, g.Info)
	}
	return out, nil
}

func (m *MemFS) Create(ctx context.Context, name string, body io.ReadCloser, opts *webdav.CreateOptions) (*webdav.FileInfo, bool, error) {
	b, err := io.ReadAll(body)
	m.rec(ctx, "Create", name, map[string]interface{}{"data": string(b), "if_match": string(opts.IfMatch), "if_none_match": string(opts.IfNoneMatch)})
	if err != nil {
		return nil, false, err
	}
	m.mu.Lock()
	defer m.mu.Unlock()
	_, existed := m.Files[name]
	fi := webdav.FileInfo{Path: name, Size: int64(len(b)), ModTime: time.Unix(1600000000, 0).UTC(), ETag: fmt.Sprintf("mem-%d", len(b)), MIMEType: "application/octet-stream"}
	if m.NextETag != nil {
		fi.ETag = *m.NextETag
	}
	m.Files[name] = &MemFile{Info: fi, Data: b}
	return &fi, !existed, nil
}

func (m *MemFS) RemoveAll(ctx context.Context, name string, opts *webdav.RemoveAllOptions) error {
	m.rec(ctx, "RemoveAll", name, map[string]interface{}{"if_match": string(opts.IfMatch), "if_none_match": string(opts.IfNoneMatch)})
	m.mu.Lock()
	defer m.mu.Unlock()
	f := m.lookup(name)
	if f == nil {
		return webdav.NewHTTPError(404, fmt.Errorf("not found"))
	}
	base := strings.TrimSuffix(f.Info.Path, "/")
	for k := range m.Files {
		kp := strings.TrimSuffix(k, "/")
		if kp == base || strings.HasPrefix(kp, base+"/") {
			delete(m.Files, k)
		}
	}
	return nil
}

func (m *MemFS) Mkdir(ctx context.Context, name string) error {
	m.rec(ctx, "Mkdir", name, nil)
	m.mu.Lock()
	defer m.mu.Unlock()
	if m.lookup(name) != nil {
		return webdav.NewHTTPError(405, fmt.Errorf("exists"))
	}
	m.Files[name] = &MemFile{Info: webdav.FileInfo{Path: name, IsDir: true}}
	return nil
}

func (m *MemFS) Copy(ctx context.Context, name, dest string, options *webdav.CopyOptions) (bool, error) {
	m.rec(ctx, "Copy", name, map[string]interface{}{"dest": dest, "options": *options})
	m.mu.Lock()
	defer m.mu.Unlock()
	f := m.lookup(name)
	if f == nil {
		return false, webdav.NewHTTPError(404, fmt.Errorf("not found"))
	}
	_, existed := m.Files[dest]
	if existed && options.NoOverwrite {
		return false, webdav.NewHTTPError(412, fmt.Errorf("exists"))
	}
	g := *f
	g.Info.Path = dest
	m.Files[dest] = &g
	return !existed, nil
}

func (m *MemFS) Move(ctx context.Context, name, dest string, options *webdav.MoveOptions) (bool, error) {
	m.rec(ctx, "Move", name, map[string]interface{}{"dest": dest, "options": *options})
	m.mu.Lock()
	defer m.mu.Unlock()
	f := m.lookup(name)
	if f == nil {
		return false, webdav.NewHTTPError(404, fmt.Errorf("not found"))
	}
	_, existed := m.Files[dest]
	if existed && options.NoOverwrite {
		return false, webdav.NewHTTPError(412, fmt.Errorf("exists"))
	}
	g := *f
	g.Info.Path = dest
	delete(m.Files, f.Info.Path)
	m.Files[dest] = &g
	return !existed, nil
}

var _ webdav.FileSystem = (*MemFS)(nil)

// HookFS wraps a FileSystem so that every method entry is a hook point (C18 scheduling point).
type HookFS struct {
	Inner webdav.FileSystem
	Hook  func(ctx context.Context, method, path string)
}

func (h *HookFS) hook(ctx context.Context, m, p string) {
	if h.Hook != nil {
		h.Hook(ctx, m, p)
	}
}

func (h *HookFS) Open(ctx context.Context, name string) (io.ReadCloser, error) {
	h.hook(ctx, "Open", name)
	return h.Inner.Open(ctx, name)
}
func (h *HookFS) Stat(ctx context.Context, name string) (*webdav.FileInfo, error) {
	h.hook(ctx, "Stat", name)
	return h.Inner.Stat(ctx, name)
}
func (h *HookFS) ReadDir(ctx context.Context, name string, recursive bool) ([]webdav.FileInfo, error) {
	h.hook(ctx, "ReadDir", name)
	return h.Inner.ReadDir(ctx, name, recursive)
}
func (h *HookFS) Create(ctx context.Context, name string, body io.ReadCloser, opts *webdav.CreateOptions) (*webdav.FileInfo, bool, error) {
	h.hook(ctx, "Create", name)
	return h.Inner.Create(ctx, name, body, opts)
}
func (h *HookFS) RemoveAll(ctx context.Context, name string, opts *webdav.RemoveAllOptions) error {
	h.hook(ctx, "RemoveAll", name)
	return h.Inner.RemoveAll(ctx, name, opts)
}
func (h *HookFS) Mkdir(ctx context.Context, name string) error {
	h.hook(ctx, "Mkdir", name)
	return h.Inner.Mkdir(ctx, name)
}
func (h *HookFS) Copy(ctx context.Context, name, dest string, options *webdav.CopyOptions) (bool, error) {
	h.hook(ctx, "Copy", name)
	return h.Inner.Copy(ctx, name, dest, options)
}
func (h *HookFS) Move(ctx context.Context, name, dest string, options *webdav.MoveOptions) (bool, error) {
	h.hook(ctx, "Move", name)
	return h.Inner.Move(ctx, name, dest, options)
}

var _ webdav.FileSystem = (*HookFS)(nil)
