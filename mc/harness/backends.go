package harness

import (
	"context"
	"fmt"
	"net/http"
	"strings"
	"sync"

	"github.com/emersion/go-ical"
	"github.com/emersion/go-vcard"
	webdav "github.com/emersion/go-webdav"
	"github.com/emersion/go-webdav/caldav"
	"github.com/emersion/go-webdav/carddav"
)

// Call is one recorded backend invocation.
type Call struct {
	Method string      `json:"method"`
	Path   string      `json:"path,omitempty"`
	Arg    interface{} `json:"arg,omitempty"`
}

func (c Call) String() string { return c.Method + "(" + c.Path + ")" }

// Mutating reports whether the call creates, updates or deletes something.
func (c Call) Mutating() bool {
	return strings.HasPrefix(c.Method, "Create") || strings.HasPrefix(c.Method, "Put") || strings.HasPrefix(c.Method, "Delete")
}

type recorder struct {
	mu    sync.Mutex
	Calls []Call
	// Hook, if set, is invoked at the entry of every backend method (scheduling point for C18).
	Hook func(ctx context.Context, method, path string)
}

func (r *recorder) rec(ctx context.Context, m, p string, arg interface{}) {
	if r.Hook != nil {
		r.Hook(ctx, m, p)
	}
	r.mu.Lock()
	r.Calls = append(r.Calls, Call{m, p, arg})
	r.mu.Unlock()
}

func (r *recorder) Reset() { r.mu.Lock(); r.Calls = nil; r.mu.Unlock() }

func (r *recorder) Snapshot() []Call {
	r.mu.Lock()
	defer r.mu.Unlock()
	return append([]Call(nil), r.Calls...)
}

func (r *recorder) MutatingCalls() []Call {
	var out []Call
	for _, c := range r.Snapshot() {
		if c.Mutating() {
			out = append(out, c)
		}
	}
	return out
}

// CalBackend is an in-memory recording caldav.Backend.
type CalBackend struct {
	recorder
	Principal string
	HomeSet   string
	Calendars []caldav.Calendar
	Objects   []caldav.CalendarObject
	// Errs injects an error for GetCalendarObject / GetCalendar of a path.
	Errs map[string]error
	// PutResult overrides what PutCalendarObject returns.
	PutResult *caldav.CalendarObject
	PutErr    error
	// QueryResult overrides what QueryCalendarObjects returns (default: all objects under the path).
	QueryResult []caldav.CalendarObject
	// Users: other authenticated users (by context) and their principal / home-set paths.
	Users map[string]UserPaths
}

// Several users on one handler: the request context may name the authenticated user (WithUser, or the
// X-User header through UserFromHeader); a double whose Users map knows that name answers
// CurrentUserPrincipal and the home-set path with that user's paths.
type userKey struct{}

type UserPaths struct{ Principal, HomeSet string }

func WithUser(ctx context.Context, u string) context.Context {
	return context.WithValue(ctx, userKey{}, u)
}

func userOf(ctx context.Context) string { u, _ := ctx.Value(userKey{}).(string); return u }

// UserFromHeader wraps a handler: the X-User request header becomes the authenticated user of the context.
func UserFromHeader(h http.Handler) http.Handler {
	return http.HandlerFunc(func(w http.ResponseWriter, r *http.Request) {
		if u := r.Header.Get("X-User"); u != "" {
			r = r.WithContext(WithUser(r.Context(), u))
		}
		h.ServeHTTP(w, r)
	})
}

// HeaderClient adds one header to every request it passes on.
type HeaderClient struct {
	Inner interface {
		Do(*http.Request) (*http.Response, error)
	}
	Key, Value string
}

func (c *HeaderClient) Do(r *http.Request) (*http.Response, error) {
	r = r.Clone(r.Context())
	r.Header.Set(c.Key, c.Value)
	return c.Inner.Do(r)
}

func notFound(what string) error { return webdav.NewHTTPError(404, fmt.Errorf("%s not found", what)) }

func (b *CalBackend) CurrentUserPrincipal(ctx context.Context) (string, error) {
	b.rec(ctx, "CurrentUserPrincipal", "", nil)
	if up, ok := b.Users[userOf(ctx)]; ok {
		return up.Principal, nil
	}
	return b.Principal, nil
}
func (b *CalBackend) CalendarHomeSetPath(ctx context.Context) (string, error) {
	b.rec(ctx, "CalendarHomeSetPath", "", nil)
	if up, ok := b.Users[userOf(ctx)]; ok {
		return up.HomeSet, nil
	}
	return b.HomeSet, nil
}
func (b *CalBackend) CreateCalendar(ctx context.Context, c *caldav.Calendar) error {
	b.rec(ctx, "CreateCalendar", c.Path, *c)
	b.mu.Lock()
	b.Calendars = append(b.Calendars, *c)
	b.mu.Unlock()
	return nil
}
func (b *CalBackend) ListCalendars(ctx context.Context) ([]caldav.Calendar, error) {
	b.rec(ctx, "ListCalendars", "", nil)
	return append([]caldav.Calendar(nil), b.Calendars...), nil
}
func (b *CalBackend) GetCalendar(ctx context.Context, p string) (*caldav.Calendar, error) {
	b.rec(ctx, "GetCalendar", p, nil)
	if e := b.Errs[p]; e != nil {
		return nil, e
	}
	for i := range b.Calendars {
		if b.Calendars[i].Path == p {
			c := b.Calendars[i]
			return &c, nil
		}
	}
	return nil, notFound("calendar")
}
func (b *CalBackend) GetCalendarObject(ctx context.Context, p string, req *caldav.CalendarCompRequest) (*caldav.CalendarObject, error) {
	var r interface{}
	if req != nil {
		r = *req
	}
	b.rec(ctx, "GetCalendarObject", p, r)
	if e := b.Errs[p]; e != nil {
		return nil, e
	}
	b.mu.Lock()
	defer b.mu.Unlock()
	for i := range b.Objects {
		if b.Objects[i].Path == p {
			o := b.Objects[i]
			return &o, nil
		}
	}
	return nil, notFound("calendar object")
}
func (b *CalBackend) ListCalendarObjects(ctx context.Context, p string, req *caldav.CalendarCompRequest) ([]caldav.CalendarObject, error) {
	b.rec(ctx, "ListCalendarObjects", p, nil)
	b.mu.Lock()
	defer b.mu.Unlock()
	var out []caldav.CalendarObject
	for _, o := range b.Objects {
		if strings.HasPrefix(o.Path, strings.TrimSuffix(p, "/")+"/") {
			out = append(out, o)
		}
	}
	return out, nil
}
func (b *CalBackend) QueryCalendarObjects(ctx context.Context, p string, q *caldav.CalendarQuery) ([]caldav.CalendarObject, error) {
	var arg interface{}
	if q != nil {
		arg = *q
	}
	b.rec(ctx, "QueryCalendarObjects", p, arg)
	if b.QueryResult != nil {
		return b.QueryResult, nil
	}
	b.mu.Lock()
	defer b.mu.Unlock()
	var out []caldav.CalendarObject
	for _, o := range b.Objects {
		if strings.HasPrefix(o.Path, strings.TrimSuffix(p, "/")+"/") {
			out = append(out, o)
		}
	}
	return out, nil
}

// PutArg is what a Put call received.
type PutArg struct {
	Cal         *ical.Calendar
	Card        vcard.Card
	IfMatch     string
	IfNoneMatch string
}

func (b *CalBackend) PutCalendarObject(ctx context.Context, p string, cal *ical.Calendar, opts *caldav.PutCalendarObjectOptions) (*caldav.CalendarObject, error) {
	arg := PutArg{Cal: cal}
	if opts != nil {
		arg.IfMatch, arg.IfNoneMatch = string(opts.IfMatch), string(opts.IfNoneMatch)
	}
	b.rec(ctx, "PutCalendarObject", p, arg)
	if b.PutErr != nil {
		return nil, b.PutErr
	}
	if b.PutResult != nil {
		o := *b.PutResult
		return &o, nil
	}
	o := caldav.CalendarObject{Path: p, Data: cal, ETag: "put-etag"}
	b.mu.Lock()
	replaced := false
	for i := range b.Objects {
		if b.Objects[i].Path == p {
			b.Objects[i] = o
			replaced = true
		}
	}
	if !replaced {
		b.Objects = append(b.Objects, o)
	}
	b.mu.Unlock()
	return &o, nil
}
func (b *CalBackend) DeleteCalendarObject(ctx context.Context, p string) error {
	b.rec(ctx, "DeleteCalendarObject", p, nil)
	b.mu.Lock()
	defer b.mu.Unlock()
	for i := range b.Objects {
		if b.Objects[i].Path == p {
			b.Objects = append(b.Objects[:i:i], b.Objects[i+1:]...)
			return nil
		}
	}
	return notFound("calendar object")
}

var _ caldav.Backend = (*CalBackend)(nil)

// CardBackend is an in-memory recording carddav.Backend.
type CardBackend struct {
	recorder
	Principal   string
	HomeSet     string
	Books       []carddav.AddressBook
	Objects     []carddav.AddressObject
	Errs        map[string]error
	PutResult   *carddav.AddressObject
	PutErr      error
	QueryResult []carddav.AddressObject
	Users       map[string]UserPaths
}

func (b *CardBackend) CurrentUserPrincipal(ctx context.Context) (string, error) {
	b.rec(ctx, "CurrentUserPrincipal", "", nil)
	if up, ok := b.Users[userOf(ctx)]; ok {
		return up.Principal, nil
	}
	return b.Principal, nil
}
func (b *CardBackend) AddressBookHomeSetPath(ctx context.Context) (string, error) {
	b.rec(ctx, "AddressBookHomeSetPath", "", nil)
	if up, ok := b.Users[userOf(ctx)]; ok {
		return up.HomeSet, nil
	}
	return b.HomeSet, nil
}
func (b *CardBackend) ListAddressBooks(ctx context.Context) ([]carddav.AddressBook, error) {
	b.rec(ctx, "ListAddressBooks", "", nil)
	return append([]carddav.AddressBook(nil), b.Books...), nil
}
func (b *CardBackend) GetAddressBook(ctx context.Context, p string) (*carddav.AddressBook, error) {
	b.rec(ctx, "GetAddressBook", p, nil)
	if e := b.Errs[p]; e != nil {
		return nil, e
	}
	for i := range b.Books {
		if b.Books[i].Path == p {
			c := b.Books[i]
			return &c, nil
		}
	}
	return nil, notFound("address book")
}
func (b *CardBackend) CreateAddressBook(ctx context.Context, ab *carddav.AddressBook) error {
	b.rec(ctx, "CreateAddressBook", ab.Path, *ab)
	b.mu.Lock()
	b.Books = append(b.Books, *ab)
	b.mu.Unlock()
	return nil
}
func (b *CardBackend) DeleteAddressBook(ctx context.Context, p string) error {
	b.rec(ctx, "DeleteAddressBook", p, nil)
	b.mu.Lock()
	defer b.mu.Unlock()
	for i := range b.Books {
		if b.Books[i].Path == p {
			b.Books = append(b.Books[:i:i], b.Books[i+1:]...)
			return nil
		}
	}
	return notFound("address book")
}
func (b *CardBackend) GetAddressObject(ctx context.Context, p string, req *carddav.AddressDataRequest) (*carddav.AddressObject, error) {
	var r interface{}
	if req != nil {
		r = *req
	}
	b.rec(ctx, "GetAddressObject", p, r)
	if e := b.Errs[p]; e != nil {
		return nil, e
	}
	b.mu.Lock()
	defer b.mu.Unlock()
	for i := range b.Objects {
		if b.Objects[i].Path == p {
			o := b.Objects[i]
			return &o, nil
		}
	}
	return nil, notFound("address object")
}
func (b *CardBackend) ListAddressObjects(ctx context.Context, p string, req *carddav.AddressDataRequest) ([]carddav.AddressObject, error) {
	b.rec(ctx, "ListAddressObjects", p, nil)
	b.mu.Lock()
	defer b.mu.Unlock()
	var out []carddav.AddressObject
	for _, o := range b.Objects {
		if strings.HasPrefix(o.Path, strings.TrimSuffix(p, "/")+"/") {
			out = append(out, o)
		}
	}
	return out, nil
}
func (b *CardBackend) QueryAddressObjects(ctx context.Context, p string, q *carddav.AddressBookQuery) ([]carddav.AddressObject, error) {
	var arg interface{}
	if q != nil {
		arg = *q
	}
	b.rec(ctx, "QueryAddressObjects", p, arg)
	if b.QueryResult != nil {
		return b.QueryResult, nil
	}
	b.mu.Lock()
	defer b.mu.Unlock()
	var out []carddav.AddressObject
	for _, o := range b.Objects {
		if strings.HasPrefix(o.Path, strings.TrimSuffix(p, "/")+"/") {
			out = append(out, o)
		}
	}
	return out, nil
}
func (b *CardBackend) PutAddressObject(ctx context.Context, p string, card vcard.Card, opts *carddav.PutAddressObjectOptions) (*carddav.AddressObject, error) {
	arg := PutArg{Card: card}
	if opts != nil {
		arg.IfMatch, arg.IfNoneMatch = string(opts.IfMatch), string(opts.IfNoneMatch)
	}
	b.rec(ctx, "PutAddressObject", p, arg)
	if b.PutErr != nil {
		return nil, b.PutErr
	}
	if b.PutResult != nil {
		o := *b.PutResult
		return &o, nil
	}
	o := carddav.AddressObject{Path: p, Card: card, ETag: "put-etag"}
	b.mu.Lock()
	replaced := false
	for i := range b.Objects {
		if b.Objects[i].Path == p {
			b.Objects[i] = o
			replaced = true
		}
	}
	if !replaced {
		b.Objects = append(b.Objects, o)
	}
	b.mu.Unlock()
	return &o, nil
}
func (b *CardBackend) DeleteAddressObject(ctx context.Context, p string) error {
	b.rec(ctx, "DeleteAddressObject", p, nil)
	b.mu.Lock()
	defer b.mu.Unlock()
	for i := range b.Objects {
		if b.Objects[i].Path == p {
			b.Objects = append(b.Objects[:i:i], b.Objects[i+1:]...)
			return nil
		}
	}
	return notFound("address object")
}

var _ carddav.Backend = (*CardBackend)(nil)

// SampleCalendar returns a small valid calendar.
func SampleCalendar(uid, summary string) *ical.Calendar {
	cal := ical.NewCalendar()
	cal.Props.SetText(ical.PropVersion, "2.0")
	cal.Props.SetText(ical.PropProductID, "-//verif//EN")
	ev := ical.NewComponent(ical.CompEvent)
	ev.Props.SetText(ical.PropUID, uid)
	ev.Props.SetText(ical.PropSummary, summary)
	p := ical.NewProp(ical.PropDateTimeStamp)
	p.Value = "20200101T000000Z"
	ev.Props.Set(p)
	p = ical.NewProp(ical.PropDateTimeStart)
	p.Value = "20200102T100000Z"
	ev.Props.Set(p)
	cal.Children = append(cal.Children, ev)
	return cal
}

// SampleCard returns a small valid vCard.
func SampleCard(fn string) vcard.Card {
	c := vcard.Card{}
	c.SetValue(vcard.FieldVersion, "4.0")
	c.SetValue(vcard.FieldFormattedName, fn)
	return c
}
