package indep

import (
	"fmt"
	"strings"
	"time"
)

const (
	NSCal  = "urn:ietf:params:xml:ns:caldav"
	NSCard = "urn:ietf:params:xml:ns:carddav"
)

// Reference request structures (plain data; RFC 4791 §9).

type RTextMatch struct {
	Text      string `json:"text"`
	Negate    bool   `json:"negate,omitempty"`
	MatchType string `json:"match_type,omitempty"` // CardDAV only; "" = absent on the wire
}

type RParamFilter struct {
	Name         string      `json:"name"`
	IsNotDefined bool        `json:"is_not_defined,omitempty"`
	TextMatch    *RTextMatch `json:"text_match,omitempty"`
}

// RRange: unix seconds; Has* false = bound absent.
type RRange struct {
	HasStart bool  `json:"has_start,omitempty"`
	Start    int64 `json:"start,omitempty"`
	HasEnd   bool  `json:"has_end,omitempty"`
	End      int64 `json:"end,omitempty"`
}

type RPropFilter struct {
	Name         string         `json:"name"`
	Test         string         `json:"test,omitempty"` // CardDAV only
	IsNotDefined bool           `json:"is_not_defined,omitempty"`
	Range        *RRange        `json:"range,omitempty"`
	TextMatches  []RTextMatch   `json:"text_matches,omitempty"`
	Params       []RParamFilter `json:"params,omitempty"`
}

type RCompFilter struct {
	Name         string        `json:"name"`
	IsNotDefined bool          `json:"is_not_defined,omitempty"`
	Range        *RRange       `json:"range,omitempty"`
	Props        []RPropFilter `json:"props,omitempty"`
	Comps        []RCompFilter `json:"comps,omitempty"`
}

type RComp struct {
	Name    string   `json:"name"`
	AllProp bool     `json:"allprop,omitempty"`
	Props   []string `json:"props,omitempty"`
	AllComp bool     `json:"allcomp,omitempty"`
	Comps   []RComp  `json:"comps,omitempty"`
}

type RCalData struct {
	Comp   *RComp  `json:"comp,omitempty"`
	Expand *RRange `json:"expand,omitempty"`
}

// RCalReport is a calendar-query (Filter != nil) or a calendar-multiget (Hrefs).
type RCalReport struct {
	Root     string       `json:"root"`                // calendar-query | calendar-multiget
	PropForm string       `json:"prop_form,omitempty"` // prop | allprop | propname | ""
	Other    []string     `json:"other_props,omitempty"`
	CalData  *RCalData    `json:"calendar_data,omitempty"` // nil = no calendar-data element in DAV:prop
	Filter   *RCompFilter `json:"filter,omitempty"`
	Hrefs    []string     `json:"hrefs,omitempty"`
}

func parseCalDate(s string) (int64, error) {
	if len(s) != 16 || s[8] != 'T' || s[15] != 'Z' {
		return 0, fmt.Errorf("indep: %q is not a UTC date-time (YYYYMMDDTHHMMSSZ)", s)
	}
	t, err := time.Parse("20060102T150405Z", s)
	if err != nil {
		return 0, fmt.Errorf("indep: %q is not a UTC date-time: %v", s, err)
	}
	return t.Unix(), nil
}

func onlyAttrs(n *Node, allowed ...string) error {
	for _, a := range n.Attrs {
		ok := false
		for _, al := range allowed {
			if a.Space == "" && a.Local == al {
				ok = true
			}
		}
		if a.Space == XMLNS {
			ok = true
		}
		if !ok {
			return fmt.Errorf("indep: unexpected attribute %q on %s", a.Local, n.Local)
		}
	}
	return nil
}

func noText(n *Node) error {
	if strings.TrimSpace(n.Text) != "" {
		return fmt.Errorf("indep: unexpected text %q in %s", n.Text, n.Local)
	}
	return nil
}

func readRange(n *Node, needBoth bool) (*RRange, error) {
	if err := onlyAttrs(n, "start", "end"); err != nil {
		return nil, err
	}
	if len(n.Children) != 0 {
		return nil, fmt.Errorf("indep: %s must be empty", n.Local)
	}
	r := &RRange{}
	if v, ok := n.Attr("", "start"); ok {
		u, err := parseCalDate(v)
		if err != nil {
			return nil, err
		}
		r.HasStart, r.Start = true, u
	}
	if v, ok := n.Attr("", "end"); ok {
		u, err := parseCalDate(v)
		if err != nil {
			return nil, err
		}
		r.HasEnd, r.End = true, u
	}
	if needBoth && !(r.HasStart && r.HasEnd) {
		return nil, fmt.Errorf("indep: %s needs start and end", n.Local)
	}
	if !r.HasStart && !r.HasEnd {
		return nil, fmt.Errorf("indep: %s needs start or end", n.Local)
	}
	return r, nil
}

func readTextMatch(n *Node, ns string) (*RTextMatch, error) {
	allowed := []string{"collation", "negate-condition"}
	if ns == NSCard {
		allowed = append(allowed, "match-type")
	}
	if err := onlyAttrs(n, allowed...); err != nil {
		return nil, err
	}
	if len(n.Children) != 0 {
		return nil, fmt.Errorf("indep: text-match must not have element children")
	}
	tm := &RTextMatch{Text: n.Text}
	if v, ok := n.Attr("", "negate-condition"); ok {
		switch v {
		case "yes":
			tm.Negate = true
		case "no":
		default:
			return nil, fmt.Errorf("indep: negate-condition=%q", v)
		}
	}
	if v, ok := n.Attr("", "match-type"); ok {
		switch v {
		case "equals", "contains", "starts-with", "ends-with":
			tm.MatchType = v
		default:
			return nil, fmt.Errorf("indep: match-type=%q", v)
		}
	}
	return tm, nil
}

// order checks that children appear in DTD order given as a list of local names (groups).
func childOrder(n *Node, ns string, seq ...string) error {
	pos := 0
	for _, c := range n.Children {
		if c.Space != ns {
			return fmt.Errorf("indep: unexpected element {%s}%s in %s", c.Space, c.Local, n.Local)
		}
		found := -1
		for i := pos; i < len(seq); i++ {
			if seq[i] == c.Local {
				found = i
				break
			}
		}
		if found < 0 {
			known := false
			for _, s := range seq {
				if s == c.Local {
					known = true
				}
			}
			if known {
				return fmt.Errorf("indep: element %s out of DTD order in %s", c.Local, n.Local)
			}
			return fmt.Errorf("indep: unexpected element %s in %s", c.Local, n.Local)
		}
		pos = found
	}
	return nil
}

func readParamFilter(n *Node, ns string) (RParamFilter, error) {
	pf := RParamFilter{}
	if err := onlyAttrs(n, "name"); err != nil {
		return pf, err
	}
	name, ok := n.Attr("", "name")
	if !ok {
		return pf, fmt.Errorf("indep: param-filter without name")
	}
	pf.Name = name
	if err := noText(n); err != nil {
		return pf, err
	}
	if len(n.Children) > 1 {
		return pf, fmt.Errorf("indep: param-filter with %d children", len(n.Children))
	}
	for _, c := range n.Children {
		switch {
		case c.Is(ns, "is-not-defined"):
			pf.IsNotDefined = true
		case c.Is(ns, "text-match"):
			tm, err := readTextMatch(c, ns)
			if err != nil {
				return pf, err
			}
			pf.TextMatch = tm
		default:
			return pf, fmt.Errorf("indep: unexpected %s in param-filter", c.Local)
		}
	}
	return pf, nil
}

func readCalPropFilter(n *Node) (RPropFilter, error) {
	pf := RPropFilter{}
	if err := onlyAttrs(n, "name"); err != nil {
		return pf, err
	}
	name, ok := n.Attr("", "name")
	if !ok {
		return pf, fmt.Errorf("indep: prop-filter without name")
	}
	pf.Name = name
	if err := noText(n); err != nil {
		return pf, err
	}
	if err := childOrder(n, NSCal, "is-not-defined", "time-range", "text-match", "param-filter"); err != nil {
		return pf, err
	}
	for _, c := range n.Children {
		switch c.Local {
		case "is-not-defined":
			if len(n.Children) != 1 {
				return pf, fmt.Errorf("indep: is-not-defined beside other children in prop-filter")
			}
			pf.IsNotDefined = true
		case "time-range":
			if pf.Range != nil || len(pf.TextMatches) > 0 {
				return pf, fmt.Errorf("indep: (time-range | text-match)? violated")
			}
			r, err := readRange(c, false)
			if err != nil {
				return pf, err
			}
			pf.Range = r
		case "text-match":
			if pf.Range != nil || len(pf.TextMatches) > 0 {
				return pf, fmt.Errorf("indep: (time-range | text-match)? violated")
			}
			tm, err := readTextMatch(c, NSCal)
			if err != nil {
				return pf, err
			}
			pf.TextMatches = append(pf.TextMatches, *tm)
		case "param-filter":
			p, err := readParamFilter(c, NSCal)
			if err != nil {
				return pf, err
			}
			pf.Params = append(pf.Params, p)
		}
	}
	return pf, nil
}

func readCompFilter(n *Node) (RCompFilter, error) {
	cf := RCompFilter{}
	if err := onlyAttrs(n, "name"); err != nil {
		return cf, err
	}
	name, ok := n.Attr("", "name")
	if !ok {
		return cf, fmt.Errorf("indep: comp-filter without name")
	}
	cf.Name = name
	if err := noText(n); err != nil {
		return cf, err
	}
	if err := childOrder(n, NSCal, "is-not-defined", "time-range", "prop-filter", "comp-filter"); err != nil {
		return cf, err
	}
	for _, c := range n.Children {
		switch c.Local {
		case "is-not-defined":
			if len(n.Children) != 1 {
				return cf, fmt.Errorf("indep: is-not-defined beside other children in comp-filter")
			}
			cf.IsNotDefined = true
		case "time-range":
			if cf.Range != nil {
				return cf, fmt.Errorf("indep: two time-range elements")
			}
			r, err := readRange(c, false)
			if err != nil {
				return cf, err
			}
			cf.Range = r
		case "prop-filter":
			p, err := readCalPropFilter(c)
			if err != nil {
				return cf, err
			}
			cf.Props = append(cf.Props, p)
		case "comp-filter":
			s, err := readCompFilter(c)
			if err != nil {
				return cf, err
			}
			cf.Comps = append(cf.Comps, s)
		}
	}
	return cf, nil
}

func readComp(n *Node) (*RComp, error) {
	c := &RComp{}
	if err := onlyAttrs(n, "name"); err != nil {
		return nil, err
	}
	name, ok := n.Attr("", "name")
	if !ok {
		return nil, fmt.Errorf("indep: comp without name")
	}
	c.Name = name
	if err := childOrder(n, NSCal, "allprop", "prop", "allcomp", "comp"); err != nil {
		return nil, err
	}
	for _, ch := range n.Children {
		switch ch.Local {
		case "allprop":
			c.AllProp = true
		case "prop":
			if err := onlyAttrs(ch, "name", "novalue"); err != nil {
				return nil, err
			}
			v, ok := ch.Attr("", "name")
			if !ok {
				return nil, fmt.Errorf("indep: prop without name")
			}
			c.Props = append(c.Props, v)
		case "allcomp":
			c.AllComp = true
		case "comp":
			s, err := readComp(ch)
			if err != nil {
				return nil, err
			}
			c.Comps = append(c.Comps, *s)
		}
	}
	if c.AllProp && len(c.Props) > 0 {
		return nil, fmt.Errorf("indep: allprop beside prop")
	}
	if c.AllComp && len(c.Comps) > 0 {
		return nil, fmt.Errorf("indep: allcomp beside comp")
	}
	return c, nil
}

// ReadCalReport parses a calendar-query or calendar-multiget strictly.
func ReadCalReport(b []byte) (*RCalReport, error) {
	root, err := Parse(b)
	if err != nil {
		return nil, err
	}
	if root.Space != NSCal || (root.Local != "calendar-query" && root.Local != "calendar-multiget") {
		return nil, fmt.Errorf("indep: root {%s}%s", root.Space, root.Local)
	}
	r := &RCalReport{Root: root.Local}
	stage := 0 // 0: before prop, 1: after prop form, 2: after filter/hrefs started
	for _, c := range root.Children {
		switch {
		case c.Is(DAV, "prop") || c.Is(DAV, "allprop") || c.Is(DAV, "propname"):
			if stage != 0 {
				return nil, fmt.Errorf("indep: DAV:%s out of DTD order in %s (it must come first)", c.Local, root.Local)
			}
			stage = 1
			r.PropForm = c.Local
			for _, p := range c.Children {
				if p.Is(NSCal, "calendar-data") {
					if r.CalData != nil {
						return nil, fmt.Errorf("indep: two calendar-data elements")
					}
					cd := &RCalData{}
					if err := childOrder(p, NSCal, "comp", "expand", "limit-recurrence-set", "limit-freebusy-set"); err != nil {
						return nil, err
					}
					for _, x := range p.Children {
						switch x.Local {
						case "comp":
							if cd.Comp != nil {
								return nil, fmt.Errorf("indep: two comp elements in calendar-data")
							}
							cc, err := readComp(x)
							if err != nil {
								return nil, err
							}
							cd.Comp = cc
						case "expand":
							rg, err := readRange(x, true)
							if err != nil {
								return nil, err
							}
							cd.Expand = rg
						}
					}
					r.CalData = cd
				} else {
					r.Other = append(r.Other, "{"+p.Space+"}"+p.Local)
				}
			}
		case c.Is(NSCal, "filter") && root.Local == "calendar-query":
			if r.Filter != nil {
				return nil, fmt.Errorf("indep: two filter elements")
			}
			stage = 2
			if len(c.Children) != 1 || !c.Children[0].Is(NSCal, "comp-filter") {
				return nil, fmt.Errorf("indep: filter must hold exactly one comp-filter")
			}
			cf, err := readCompFilter(c.Children[0])
			if err != nil {
				return nil, err
			}
			r.Filter = &cf
		case c.Is(NSCal, "timezone") && root.Local == "calendar-query":
		case c.Is(DAV, "href") && root.Local == "calendar-multiget":
			stage = 2
			p, err := HrefPath(c.Text)
			if err != nil {
				return nil, err
			}
			r.Hrefs = append(r.Hrefs, p)
		default:
			return nil, fmt.Errorf("indep: unexpected element {%s}%s in %s", c.Space, c.Local, root.Local)
		}
	}
	if root.Local == "calendar-query" && r.Filter == nil {
		return nil, fmt.Errorf("indep: calendar-query without filter")
	}
	if root.Local == "calendar-multiget" && len(r.Hrefs) == 0 {
		return nil, fmt.Errorf("indep: calendar-multiget without href")
	}
	return r, nil
}

// ---------- writer ----------

func fmtCalDate(u int64) string { return time.Unix(u, 0).UTC().Format("20060102T150405Z") }

func rangeEl(local string, r *RRange) *El {
	e := E(NSCal, local)
	if r.HasStart {
		e.A("start", fmtCalDate(r.Start))
	}
	if r.HasEnd {
		e.A("end", fmtCalDate(r.End))
	}
	return e
}

func textMatchEl(ns string, tm RTextMatch, explicitNo bool) *El {
	e := E(ns, "text-match").T(tm.Text)
	if tm.Negate {
		e.A("negate-condition", "yes")
	} else if explicitNo {
		e.A("negate-condition", "no")
	}
	if tm.MatchType != "" {
		e.A("match-type", tm.MatchType)
	}
	return e
}

func paramFilterEl(ns string, p RParamFilter, explicitNo bool) *El {
	e := E(ns, "param-filter").A("name", p.Name)
	if p.IsNotDefined {
		e.Add(E(ns, "is-not-defined"))
	}
	if p.TextMatch != nil {
		e.Add(textMatchEl(ns, *p.TextMatch, explicitNo))
	}
	return e
}

func compFilterEl(f RCompFilter, explicitNo bool) *El {
	e := E(NSCal, "comp-filter").A("name", f.Name)
	if f.IsNotDefined {
		e.Add(E(NSCal, "is-not-defined"))
	}
	if f.Range != nil {
		e.Add(rangeEl("time-range", f.Range))
	}
	for _, p := range f.Props {
		pe := E(NSCal, "prop-filter").A("name", p.Name)
		if p.IsNotDefined {
			pe.Add(E(NSCal, "is-not-defined"))
		}
		if p.Range != nil {
			pe.Add(rangeEl("time-range", p.Range))
		}
		for _, tm := range p.TextMatches {
			pe.Add(textMatchEl(NSCal, tm, explicitNo))
		}
		for _, pa := range p.Params {
			pe.Add(paramFilterEl(NSCal, pa, explicitNo))
		}
		e.Add(pe)
	}
	for _, c := range f.Comps {
		e.Add(compFilterEl(c, explicitNo))
	}
	return e
}

func compEl(c RComp) *El {
	e := E(NSCal, "comp").A("name", c.Name)
	if c.AllProp {
		e.Add(E(NSCal, "allprop"))
	}
	for _, p := range c.Props {
		e.Add(E(NSCal, "prop").A("name", p))
	}
	if c.AllComp {
		e.Add(E(NSCal, "allcomp"))
	}
	for _, s := range c.Comps {
		e.Add(compEl(s))
	}
	return e
}

// CalReportEl builds the RFC 4791 document for a reference report.
func CalReportEl(r *RCalReport, explicitNo bool) *El {
	root := E(NSCal, r.Root)
	if r.PropForm != "" {
		p := E(DAV, r.PropForm)
		if r.PropForm == "prop" {
			p.Add(E(DAV, "getetag"))
			if r.CalData != nil {
				cd := E(NSCal, "calendar-data")
				if r.CalData.Comp != nil {
					cd.Add(compEl(*r.CalData.Comp))
				}
				if r.CalData.Expand != nil {
					cd.Add(rangeEl("expand", r.CalData.Expand))
				}
				p.Add(cd)
			}
		}
		root.Add(p)
	}
	if r.Filter != nil {
		root.Add(E(NSCal, "filter", compFilterEl(*r.Filter, explicitNo)))
	}
	for _, h := range r.Hrefs {
		root.Add(E(DAV, "href").T(EscapeHref(h)))
	}
	return root
}

// EscapeHref percent-encodes a path per RFC 3986 (unreserved and sub-delims and ':' '@' '/' kept).
func EscapeHref(p string) string {
	const keep = "-._~!$&'()*+,;=:@/"
	var sb strings.Builder
	for i := 0; i < len(p); i++ {
		c := p[i]
		if c >= 'a' && c <= 'z' || c >= 'A' && c <= 'Z' || c >= '0' && c <= '9' || strings.IndexByte(keep, c) >= 0 {
			sb.WriteByte(c)
		} else {
			fmt.Fprintf(&sb, "%%%02X", c)
		}
	}
	return sb.String()
}
