package indep

import (
	"fmt"
	"strings"
)

// El is an element to be written; attributes are ordered.
type El struct {
	Space, Local string
	Attrs        [][2]string // no-namespace attributes: name, value
	Text         string      // text content (only when no children)
	HasText      bool
	Kids         []*El
}

func E(space, local string, kids ...*El) *El { return &El{Space: space, Local: local, Kids: kids} }

func (e *El) A(name, value string) *El { e.Attrs = append(e.Attrs, [2]string{name, value}); return e }
func (e *El) T(text string) *El        { e.Text, e.HasText = text, true; return e }
func (e *El) Add(kids ...*El) *El {
	for _, k := range kids {
		if k != nil {
			e.Kids = append(e.Kids, k)
		}
	}
	return e
}

// Style is one lexical form of a document.
type Style struct {
	NS        int  // 0: prefixes declared on the root; 1: first namespace as default + prefixes; 2: every element redeclares its namespace as default
	Indent    bool // whitespace/indentation between elements
	RevAttrs  bool // attributes written in reverse order
	EmptyPair bool // <x></x> instead of <x/>
	Decl      bool // XML declaration present
	BOM       bool // the document starts with a UTF-8 byte order mark
}

func (s Style) String() string {
	if s.BOM {
		return fmt.Sprintf("ns%d.indent=%v.revattrs=%v.emptypair=%v.decl=%v.bom", s.NS, s.Indent, s.RevAttrs, s.EmptyPair, s.Decl)
	}
	return fmt.Sprintf("ns%d.indent=%v.revattrs=%v.emptypair=%v.decl=%v", s.NS, s.Indent, s.RevAttrs, s.EmptyPair, s.Decl)
}

// AllStyles enumerates every lexical style.
func AllStyles() []Style {
	var out []Style
	for ns := 0; ns < 3; ns++ {
		for _, in := range []bool{false, true} {
			for _, ra := range []bool{false, true} {
				for _, ep := range []bool{false, true} {
					out = append(out, Style{NS: ns, Indent: in, RevAttrs: ra, EmptyPair: ep, Decl: ns != 1})
				}
			}
		}
	}
	// a byte order mark in front of the prefixed styles
	n := len(out)
	for i := 0; i < n; i++ {
		if out[i].NS == 0 {
			s := out[i]
			s.BOM = true
			out = append(out, s)
		}
	}
	return out
}

func esc(s string, attr bool) string {
	r := strings.NewReplacer("&", "&amp;", "<", "&lt;", ">", "&gt;")
	s = r.Replace(s)
	// XML 1.0 2.11: a literal CR is normalised to LF by every parser; only a character reference carries it
	s = strings.ReplaceAll(s, "\r", "&#13;")
	if attr {
		s = strings.ReplaceAll(s, `"`, "&quot;")
		s = strings.ReplaceAll(s, "\n", "&#10;")
		s = strings.ReplaceAll(s, "\t", "&#9;")
	}
	return s
}

// Render writes the tree in the given style.
func Render(root *El, st Style) []byte {
	var sb strings.Builder
	if st.BOM {
		sb.WriteString("\xef\xbb\xbf")
	}
	if st.Decl {
		sb.WriteString(`<?xml version="1.0" encoding="utf-8" ?>`)
		if st.Indent {
			sb.WriteString("\n")
		}
	}
	prefixes := map[string]string{}
	var order []string
	var collect func(e *El)
	collect = func(e *El) {
		if _, ok := prefixes[e.Space]; !ok && e.Space != "" {
			p := fmt.Sprintf("ns%d", len(prefixes))
			switch e.Space {
			case DAV:
				p = "D"
			case "urn:ietf:params:xml:ns:caldav", "urn:ietf:params:xml:ns:carddav":
				p = "C"
			}
			prefixes[e.Space] = p
			order = append(order, e.Space)
		}
		for _, k := range e.Kids {
			collect(k)
		}
	}
	collect(root)
	def := ""
	if st.NS == 1 {
		def = root.Space
	}
	var write func(e *El, depth int, curDef string, isRoot bool)
	write = func(e *El, depth int, curDef string, isRoot bool) {
		if st.Indent && depth > 0 {
			sb.WriteString("\n" + strings.Repeat("  ", depth))
		}
		name := e.Local
		var decls []string
		switch st.NS {
		case 0:
			if e.Space != "" {
				name = prefixes[e.Space] + ":" + e.Local
			}
			if isRoot {
				for _, sp := range order {
					decls = append(decls, fmt.Sprintf(`xmlns:%s="%s"`, prefixes[sp], sp))
				}
			}
		case 1:
			if isRoot {
				decls = append(decls, fmt.Sprintf(`xmlns="%s"`, def))
				for _, sp := range order {
					if sp != def {
						decls = append(decls, fmt.Sprintf(`xmlns:%s="%s"`, prefixes[sp], sp))
					}
				}
			}
			if e.Space != def && e.Space != "" {
				name = prefixes[e.Space] + ":" + e.Local
			}
		case 2:
			if e.Space != curDef {
				decls = append(decls, fmt.Sprintf(`xmlns="%s"`, e.Space))
				curDef = e.Space
			}
		}
		sb.WriteString("<" + name)
		attrs := append([][2]string(nil), e.Attrs...)
		if st.RevAttrs {
			for i, j := 0, len(attrs)-1; i < j; i, j = i+1, j-1 {
				attrs[i], attrs[j] = attrs[j], attrs[i]
			}
		}
		var parts []string
		for _, a := range attrs {
			parts = append(parts, fmt.Sprintf(`%s="%s"`, a[0], esc(a[1], true)))
		}
		if st.RevAttrs {
			parts = append(parts, decls...)
		} else {
			parts = append(decls, parts...)
		}
		for _, p := range parts {
			if st.Indent && len(parts) > 2 {
				sb.WriteString("\n" + strings.Repeat("  ", depth+2) + p)
			} else {
				sb.WriteString(" " + p)
			}
		}
		if len(e.Kids) == 0 && !e.HasText {
			if st.EmptyPair {
				sb.WriteString("></" + name + ">")
			} else {
				sb.WriteString("/>")
			}
			return
		}
		sb.WriteString(">")
		if e.HasText {
			sb.WriteString(esc(e.Text, false))
		}
		for _, k := range e.Kids {
			write(k, depth+1, curDef, false)
		}
		if st.Indent && len(e.Kids) > 0 {
			sb.WriteString("\n" + strings.Repeat("  ", depth))
		}
		sb.WriteString("</" + name + ">")
	}
	write(root, 0, "", true)
	if st.Indent {
		sb.WriteString("\n")
	}
	return []byte(sb.String())
}
