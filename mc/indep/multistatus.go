package indep

import (
	"fmt"
	"net/url"
	"strconv"
	"strings"
)

const DAV = "DAV:"

type MSProp struct {
	Node   *Node
	Status int
}

type MSResponse struct {
	Hrefs     []string // raw text of each DAV:href
	Status    int      // response-level status (0 if absent)
	Props     []MSProp // every property element of every propstat, with the propstat's status
	PropStats int
	Error     *Node
	Desc      string
}

type MultiStatus struct {
	Responses []MSResponse
	SyncToken string
}

// ParseStatusLine reads "HTTP/1.1 207 Multi-Status" strictly (RFC 4918 §14.28 / RFC 7230 status-line).
func ParseStatusLine(s string) (int, error) {
	// status-line = HTTP-version SP status-code SP reason-phrase: the second SP is required even when the
	// reason phrase is empty, so only line breaks and tabs around the text are layout
	s = strings.TrimLeft(strings.Trim(s, "\r\n\t"), " ")
	parts := strings.SplitN(s, " ", 3)
	if len(parts) < 3 || !strings.HasPrefix(parts[0], "HTTP/") {
		return 0, fmt.Errorf("indep: bad status line %q", s)
	}
	if len(parts[1]) != 3 {
		return 0, fmt.Errorf("indep: bad status code in %q", s)
	}
	code, err := strconv.Atoi(parts[1])
	if err != nil || code < 100 {
		return 0, fmt.Errorf("indep: bad status code in %q", s)
	}
	return code, nil
}

// ReadMultiStatus parses an RFC 4918 §14.16 multistatus document strictly.
func ReadMultiStatus(b []byte) (*MultiStatus, error) {
	root, err := Parse(b)
	if err != nil {
		return nil, err
	}
	if !root.Is(DAV, "multistatus") {
		return nil, fmt.Errorf("indep: root is {%s}%s, want DAV:multistatus", root.Space, root.Local)
	}
	ms := &MultiStatus{}
	for _, c := range root.Children {
		switch {
		case c.Is(DAV, "response"):
			r := MSResponse{}
			for _, rc := range c.Children {
				switch {
				case rc.Is(DAV, "href"):
					r.Hrefs = append(r.Hrefs, rc.Text)
				case rc.Is(DAV, "status"):
					code, err := ParseStatusLine(rc.Text)
					if err != nil {
						return nil, err
					}
					r.Status = code
				case rc.Is(DAV, "propstat"):
					r.PropStats++
					st := rc.First(DAV, "status")
					if st == nil {
						return nil, fmt.Errorf("indep: propstat without status")
					}
					code, err := ParseStatusLine(st.Text)
					if err != nil {
						return nil, err
					}
					if len(rc.All(DAV, "prop")) != 1 {
						return nil, fmt.Errorf("indep: propstat must have exactly one prop")
					}
					for _, p := range rc.First(DAV, "prop").Children {
						r.Props = append(r.Props, MSProp{p, code})
					}
				case rc.Is(DAV, "error"):
					r.Error = rc
				case rc.Is(DAV, "responsedescription"):
					r.Desc = rc.Text
				case rc.Is(DAV, "location"):
				default:
					return nil, fmt.Errorf("indep: unexpected element {%s}%s in response", rc.Space, rc.Local)
				}
			}
			if len(r.Hrefs) == 0 {
				return nil, fmt.Errorf("indep: response without href")
			}
			if r.PropStats > 0 && r.Status != 0 {
				return nil, fmt.Errorf("indep: response with both status and propstat")
			}
			if r.PropStats > 0 && len(r.Hrefs) != 1 {
				return nil, fmt.Errorf("indep: propstat response with %d hrefs", len(r.Hrefs))
			}
			ms.Responses = append(ms.Responses, r)
		case c.Is(DAV, "responsedescription"):
		case c.Is(DAV, "sync-token"):
			ms.SyncToken = c.Text
		default:
			return nil, fmt.Errorf("indep: unexpected element {%s}%s in multistatus", c.Space, c.Local)
		}
	}
	return ms, nil
}

// HrefPath decodes an href (absolute URI or absolute path, RFC 4918 §8.3) to its path.
func HrefPath(h string) (string, error) {
	h = strings.TrimSpace(h)
	if strings.HasPrefix(h, "//") {
		// RFC 3986 4.2: a reference beginning with two slashes is a network-path reference - what follows is an
		// authority, not a path segment (RFC 4918 8.3 allows only absolute URIs and path-absolute references,
		// whose first segment is not empty)
		rest := h[2:]
		j := strings.IndexAny(rest, "/?#")
		if j < 0 {
			return "", nil
		}
		h = rest[j:]
	} else if i := strings.Index(h, "://"); i > 0 && !strings.Contains(h[:i], "/") {
		rest := h[i+3:]
		j := strings.IndexByte(rest, '/')
		if j < 0 {
			return "/", nil
		}
		h = rest[j:]
	}
	if i := strings.IndexAny(h, "?#"); i >= 0 {
		h = h[:i]
	}
	return url.PathUnescape(h)
}

// Prop finds a property of a response by expanded name.
func (r *MSResponse) Prop(space, local string) []MSProp {
	var out []MSProp
	for _, p := range r.Props {
		if p.Node.Is(space, local) {
			out = append(out, p)
		}
	}
	return out
}
