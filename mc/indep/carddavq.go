package indep

import (
	"fmt"
	"strconv"
	"strings"
)

// RCardReport: addressbook-query (Filter != nil) or addressbook-multiget (RFC 6352 §8.6, §8.7, §10).
type RCardReport struct {
	Root      string        `json:"root"`
	PropForm  string        `json:"prop_form,omitempty"`
	Other     []string      `json:"other_props,omitempty"`
	AddrData  *RAddrData    `json:"address_data,omitempty"`
	HasFilter bool          `json:"has_filter,omitempty"`
	Test      string        `json:"test,omitempty"` // "" = attribute absent (means anyof)
	Filters   []RPropFilter `json:"filters,omitempty"`
	HasLimit  bool          `json:"has_limit,omitempty"`
	NResults  uint64        `json:"nresults,omitempty"`
	Hrefs     []string      `json:"hrefs,omitempty"`
}

type RAddrData struct {
	AllProp bool     `json:"allprop,omitempty"`
	Props   []string `json:"props,omitempty"`
}

func readTest(n *Node) (string, error) {
	v, ok := n.Attr("", "test")
	if !ok {
		return "", nil
	}
	if v != "anyof" && v != "allof" {
		return "", fmt.Errorf("indep: test=%q", v)
	}
	return v, nil
}

func readCardPropFilter(n *Node) (RPropFilter, error) {
	pf := RPropFilter{}
	if err := onlyAttrs(n, "name", "test"); err != nil {
		return pf, err
	}
	name, ok := n.Attr("", "name")
	if !ok {
		return pf, fmt.Errorf("indep: prop-filter without name")
	}
	pf.Name = name
	t, err := readTest(n)
	if err != nil {
		return pf, err
	}
	pf.Test = t
	if err := noText(n); err != nil {
		return pf, err
	}
	if err := childOrder(n, NSCard, "is-not-defined", "text-match", "param-filter"); err != nil {
		return pf, err
	}
	for _, c := range n.Children {
		switch c.Local {
		case "is-not-defined":
			if len(n.Children) != 1 {
				return pf, fmt.Errorf("indep: is-not-defined beside other children in prop-filter")
			}
			pf.IsNotDefined = true
		case "text-match":
			tm, err := readTextMatch(c, NSCard)
			if err != nil {
				return pf, err
			}
			pf.TextMatches = append(pf.TextMatches, *tm)
		case "param-filter":
			p, err := readParamFilter(c, NSCard)
			if err != nil {
				return pf, err
			}
			pf.Params = append(pf.Params, p)
		}
	}
	return pf, nil
}

// ReadCardReport parses an addressbook-query or addressbook-multiget strictly.
func ReadCardReport(b []byte) (*RCardReport, error) {
	root, err := Parse(b)
	if err != nil {
		return nil, err
	}
	if root.Space != NSCard || (root.Local != "addressbook-query" && root.Local != "addressbook-multiget") {
		return nil, fmt.Errorf("indep: root {%s}%s", root.Space, root.Local)
	}
	r := &RCardReport{Root: root.Local}
	stage := 0
	for _, c := range root.Children {
		switch {
		case c.Is(DAV, "prop") || c.Is(DAV, "allprop") || c.Is(DAV, "propname"):
			if stage != 0 {
				return nil, fmt.Errorf("indep: DAV:%s out of DTD order in %s (it must come first)", c.Local, root.Local)
			}
			stage = 1
			r.PropForm = c.Local
			for _, p := range c.Children {
				if p.Is(NSCard, "address-data") {
					if r.AddrData != nil {
						return nil, fmt.Errorf("indep: two address-data elements")
					}
					if err := onlyAttrs(p, "content-type", "version"); err != nil {
						return nil, err
					}
					ad := &RAddrData{}
					for _, x := range p.Children {
						switch {
						case x.Is(NSCard, "allprop"):
							ad.AllProp = true
						case x.Is(NSCard, "prop"):
							if err := onlyAttrs(x, "name", "novalue"); err != nil {
								return nil, err
							}
							v, ok := x.Attr("", "name")
							if !ok {
								return nil, fmt.Errorf("indep: address-data prop without name")
							}
							ad.Props = append(ad.Props, v)
						default:
							return nil, fmt.Errorf("indep: unexpected %s in address-data", x.Local)
						}
					}
					if ad.AllProp && len(ad.Props) > 0 {
						return nil, fmt.Errorf("indep: allprop beside prop in address-data")
					}
					r.AddrData = ad
				} else {
					r.Other = append(r.Other, "{"+p.Space+"}"+p.Local)
				}
			}
		case c.Is(NSCard, "filter") && root.Local == "addressbook-query":
			if r.HasFilter || stage > 1 {
				return nil, fmt.Errorf("indep: filter out of DTD order")
			}
			stage = 2
			r.HasFilter = true
			if err := onlyAttrs(c, "test"); err != nil {
				return nil, err
			}
			t, err := readTest(c)
			if err != nil {
				return nil, err
			}
			r.Test = t
			for _, f := range c.Children {
				if !f.Is(NSCard, "prop-filter") {
					return nil, fmt.Errorf("indep: unexpected %s in filter", f.Local)
				}
				pf, err := readCardPropFilter(f)
				if err != nil {
					return nil, err
				}
				r.Filters = append(r.Filters, pf)
			}
		case c.Is(NSCard, "limit") && root.Local == "addressbook-query":
			if r.HasLimit || !r.HasFilter {
				return nil, fmt.Errorf("indep: limit out of DTD order (after filter, once)")
			}
			stage = 3
			if len(c.Children) != 1 || !c.Children[0].Is(NSCard, "nresults") {
				return nil, fmt.Errorf("indep: limit must hold exactly one nresults")
			}
			txt := c.Children[0].Text
			v, err := strconv.ParseUint(txt, 10, 64)
			if err != nil || strings.TrimSpace(txt) != txt {
				return nil, fmt.Errorf("indep: nresults %q", txt)
			}
			r.HasLimit, r.NResults = true, v
		case c.Is(DAV, "href") && root.Local == "addressbook-multiget":
			stage = 2
			p, err := HrefPath(c.Text)
			if err != nil {
				return nil, err
			}
			r.Hrefs = append(r.Hrefs, p)
		default:
			return nil, fmt.Errorf("indep: unexpected element {%s}%s in %s", c.Space, c.Local, root.Local)
		}
	}
	if root.Local == "addressbook-query" && !r.HasFilter {
		return nil, fmt.Errorf("indep: addressbook-query without filter")
	}
	if root.Local == "addressbook-multiget" && len(r.Hrefs) == 0 {
		return nil, fmt.Errorf("indep: addressbook-multiget without href")
	}
	return r, nil
}

// CardReportEl builds the RFC 6352 document.
func CardReportEl(r *RCardReport, explicitNo bool) *El {
	root := E(NSCard, r.Root)
	if r.PropForm != "" {
		p := E(DAV, r.PropForm)
		if r.PropForm == "prop" {
			p.Add(E(DAV, "getetag"))
			if r.AddrData != nil {
				ad := E(NSCard, "address-data")
				if r.AddrData.AllProp {
					ad.Add(E(NSCard, "allprop"))
				}
				for i, n := range r.AddrData.Props {
					pe := E(NSCard, "prop").A("name", n)
					// the optional novalue attribute (RFC 6352 10.4.2), in both of its values
					switch i {
					case 0:
						pe.A("novalue", "no")
					case 1:
						pe.A("novalue", "yes")
					}
					ad.Add(pe)
				}
				p.Add(ad)
			}
		}
		root.Add(p)
	}
	if r.HasFilter {
		f := E(NSCard, "filter")
		if r.Test != "" {
			f.A("test", r.Test)
		}
		for _, pf := range r.Filters {
			pe := E(NSCard, "prop-filter").A("name", pf.Name)
			if pf.Test != "" {
				pe.A("test", pf.Test)
			}
			if pf.IsNotDefined {
				pe.Add(E(NSCard, "is-not-defined"))
			}
			for _, tm := range pf.TextMatches {
				pe.Add(textMatchEl(NSCard, tm, explicitNo))
			}
			for _, pa := range pf.Params {
				pe.Add(paramFilterEl(NSCard, pa, explicitNo))
			}
			f.Add(pe)
		}
		root.Add(f)
	}
	if r.HasLimit {
		root.Add(E(NSCard, "limit", E(NSCard, "nresults").T(strconv.FormatUint(r.NResults, 10))))
	}
	for _, h := range r.Hrefs {
		root.Add(E(DAV, "href").T(EscapeHref(h)))
	}
	return root
}
