// Package indep is an XML reader/writer that shares no code with go-webdav: a small
// namespace-expanding DOM on top of encoding/xml's tokeniser (RawToken only), with its
// own namespace scoping and a strict well-formedness pass.
package indep

import (
	"bytes"
	"encoding/xml"
	"fmt"
	"io"
	"sort"
	"strings"
)

type Attr struct {
	Space, Local, Value string
}

type Node struct {
	Space, Local string
	Attrs        []Attr  // namespace declarations removed, names expanded
	Children     []*Node // element children only
	Text         string  // concatenated character data directly inside this element
	Comments     []string
	// Mixed records the interleaving of text/comment/element for exact tree comparison
	Items []Item
}

type Item struct {
	Kind string // "text" | "comment" | "elem" | "pi"
	Text string
	Elem *Node
}

const XMLNS = "http://www.w3.org/XML/1998/namespace"

// Parse reads one document strictly: well-formed per encoding/xml, every prefix
// declared, no duplicate attributes (by raw name and by expanded name), a single root.
func Parse(b []byte) (*Node, error) {
	// a UTF-8 byte order mark may precede the document (XML 1.0 4.3.3)
	b = bytes.TrimPrefix(b, []byte("\xef\xbb\xbf"))
	d := xml.NewDecoder(bytes.NewReader(b))
	d.Strict = true
	type scope map[string]string
	scopes := []scope{{"xml": XMLNS, "": ""}}
	lookup := func(p string) (string, bool) {
		for i := len(scopes) - 1; i >= 0; i-- {
			if v, ok := scopes[i][p]; ok {
				return v, true
			}
		}
		return "", false
	}
	var root *Node
	var stack []*Node
	var rawNames []xml.Name
	for {
		tok, err := d.RawToken()
		if err == io.EOF {
			break
		}
		if err != nil {
			return nil, err
		}
		switch t := tok.(type) {
		case xml.StartElement:
			sc := scope{}
			seenRaw := map[string]bool{}
			for _, a := range t.Attr {
				raw := a.Name.Space + ":" + a.Name.Local
				if seenRaw[raw] {
					return nil, fmt.Errorf("indep: duplicate attribute %q on <%s>", strings.TrimPrefix(raw, ":"), t.Name.Local)
				}
				seenRaw[raw] = true
				if a.Name.Space == "" && a.Name.Local == "xmlns" {
					sc[""] = a.Value
				} else if a.Name.Space == "xmlns" {
					if a.Value == "" {
						return nil, fmt.Errorf("indep: prefix %q undeclared with empty value", a.Name.Local)
					}
					sc[a.Name.Local] = a.Value
				}
			}
			scopes = append(scopes, sc)
			n := &Node{Local: t.Name.Local}
			sp, ok := lookup(t.Name.Space)
			if !ok {
				return nil, fmt.Errorf("indep: undeclared element prefix %q", t.Name.Space)
			}
			n.Space = sp
			seenExp := map[string]bool{}
			for _, a := range t.Attr {
				if (a.Name.Space == "" && a.Name.Local == "xmlns") || a.Name.Space == "xmlns" {
					continue
				}
				asp := ""
				if a.Name.Space != "" {
					v, ok := lookup(a.Name.Space)
					if !ok {
						return nil, fmt.Errorf("indep: undeclared attribute prefix %q", a.Name.Space)
					}
					asp = v
				}
				k := asp + " " + a.Name.Local
				if seenExp[k] {
					return nil, fmt.Errorf("indep: duplicate expanded attribute %q", k)
				}
				seenExp[k] = true
				n.Attrs = append(n.Attrs, Attr{asp, a.Name.Local, a.Value})
			}
			sort.Slice(n.Attrs, func(i, j int) bool {
				if n.Attrs[i].Space != n.Attrs[j].Space {
					return n.Attrs[i].Space < n.Attrs[j].Space
				}
				return n.Attrs[i].Local < n.Attrs[j].Local
			})
			if len(stack) == 0 {
				if root != nil {
					return nil, fmt.Errorf("indep: more than one root element")
				}
				root = n
			} else {
				p := stack[len(stack)-1]
				p.Children = append(p.Children, n)
				p.Items = append(p.Items, Item{Kind: "elem", Elem: n})
			}
			stack = append(stack, n)
			rawNames = append(rawNames, t.Name)
		case xml.EndElement:
			if len(stack) == 0 {
				return nil, fmt.Errorf("indep: unbalanced end element")
			}
			if rawNames[len(rawNames)-1] != t.Name {
				return nil, fmt.Errorf("indep: mismatched end element </%s>", t.Name.Local)
			}
			stack = stack[:len(stack)-1]
			rawNames = rawNames[:len(rawNames)-1]
			scopes = scopes[:len(scopes)-1]
		case xml.CharData:
			if len(stack) == 0 {
				if strings.TrimSpace(string(t)) != "" {
					return nil, fmt.Errorf("indep: character data outside the root element")
				}
				continue
			}
			p := stack[len(stack)-1]
			p.Text += string(t)
			if k := len(p.Items); k > 0 && p.Items[k-1].Kind == "text" {
				p.Items[k-1].Text += string(t)
			} else {
				p.Items = append(p.Items, Item{Kind: "text", Text: string(t)})
			}
		case xml.Comment:
			if len(stack) > 0 {
				p := stack[len(stack)-1]
				p.Comments = append(p.Comments, string(t))
				p.Items = append(p.Items, Item{Kind: "comment", Text: string(t)})
			}
		case xml.ProcInst:
			if len(stack) > 0 {
				p := stack[len(stack)-1]
				p.Items = append(p.Items, Item{Kind: "pi", Text: t.Target + " " + string(t.Inst)})
			}
		case xml.Directive:
		}
	}
	if len(stack) != 0 {
		return nil, fmt.Errorf("indep: unexpected EOF inside <%s>", stack[len(stack)-1].Local)
	}
	if root == nil {
		return nil, fmt.Errorf("indep: no root element")
	}
	return root, nil
}

func (n *Node) Is(space, local string) bool { return n != nil && n.Space == space && n.Local == local }

func (n *Node) All(space, local string) []*Node {
	var out []*Node
	for _, c := range n.Children {
		if c.Is(space, local) {
			out = append(out, c)
		}
	}
	return out
}

func (n *Node) First(space, local string) *Node {
	for _, c := range n.Children {
		if c.Is(space, local) {
			return c
		}
	}
	return nil
}

func (n *Node) Attr(space, local string) (string, bool) {
	for _, a := range n.Attrs {
		if a.Space == space && a.Local == local {
			return a.Value, true
		}
	}
	return "", false
}

// Canon renders the namespace-expanded tree canonically (for tree equality).
func (n *Node) Canon() string {
	var sb strings.Builder
	n.canon(&sb)
	return sb.String()
}

func (n *Node) canon(sb *strings.Builder) {
	fmt.Fprintf(sb, "<{%s}%s", n.Space, n.Local)
	for _, a := range n.Attrs {
		fmt.Fprintf(sb, " {%s}%s=%q", a.Space, a.Local, a.Value)
	}
	sb.WriteString(">")
	for _, it := range n.Items {
		switch it.Kind {
		case "text":
			fmt.Fprintf(sb, "T%q", it.Text)
		case "comment":
			fmt.Fprintf(sb, "C%q", it.Text)
		case "pi":
			fmt.Fprintf(sb, "P%q", it.Text)
		case "elem":
			it.Elem.canon(sb)
		}
	}
	sb.WriteString("</>")
}
