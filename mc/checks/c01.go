package checks

import (
	"encoding/json"
	"fmt"
	"net/http"
	"path"
	"regexp"
	"sort"
	"strconv"
	"strings"

	webdav "github.com/emersion/go-webdav"
	"github.com/emersion/go-webdav/verifmc/engine"
	"github.com/emersion/go-webdav/verifmc/harness"
	"github.com/emersion/go-webdav/verifmc/indep"
)

// C01 — the file server behaves like the RFC 4918 resource-tree model.

func isQuoted(s string) bool {
	return len(s) >= 2 && s[0] == '"' && s[len(s)-1] == '"' && !strings.Contains(s[1:len(s)-1], `"`)
}

// c01Judge compares one transition with the model. Returns "" if it agrees, else (clause, detail).
func c01Judge(v *fsVisit) (e *davExpect, clause, detail string) {
	tagOf := func(p string) string {
		pr, ok := v.Probe[p]
		if !ok || !isQuoted(pr.ETag) {
			return ""
		}
		return pr.ETag[1 : len(pr.ETag)-1]
	}
	e = davModel(v.State, v.Req, tagOf)
	if v.Resp.Panic != "" {
		return e, "panic", v.Resp.Panic
	}
	if !e.accepts(v.Resp.Status) {
		return e, "status", fmt.Sprintf("got=%d-want=%s", v.Resp.Status, e.want())
	}
	if got, want := v.After.Canon(), e.Next.Canon(); got != want {
		if e.Refused {
			return e, "tree-changed-by-refused-request", fmt.Sprintf("status=%d", v.Resp.Status)
		}
		return e, "tree", fmt.Sprintf("status=%d tree after = %s; model = %s", v.Resp.Status, got, want)
	}
	if v.Resp.Status >= 400 {
		return e, "", ""
	}
	p := cleanP(v.Req.Path)
	switch e.Reads {
	case "get", "head":
		n := v.State[p]
		h := v.Resp.Header
		if e.Reads == "get" && string(v.Resp.Body) != n.Content {
			return e, "get-body", fmt.Sprintf("body %q want %q", v.Resp.Body, n.Content)
		}
		if e.Reads == "head" && len(v.Resp.Body) != 0 {
			return e, "head-body", "HEAD returned a body"
		}
		if cl := h.Get("Content-Length"); cl != strconv.Itoa(len(n.Content)) {
			return e, "content-length", fmt.Sprintf("Content-Length %q want %d", cl, len(n.Content))
		}
		if !isQuoted(h.Get("ETag")) {
			return e, "etag-not-quoted", h.Get("ETag")
		}
		lm, err := http.ParseTime(h.Get("Last-Modified"))
		if err != nil || lm.Unix() != harness.FixedMtime(p, n.Content).Unix() {
			return e, "last-modified", fmt.Sprintf("%q want %v", h.Get("Last-Modified"), harness.FixedMtime(p, n.Content).UTC())
		}
		// (a file addressed with a trailing slash is served, but which type it is given is not judged)
		if v.Req.Path == p && strings.HasSuffix(p, ".html") && !strings.HasPrefix(h.Get("Content-Type"), "text/html") {
			return e, "content-type", h.Get("Content-Type")
		}
		if pr := v.Probe[p]; pr.Status == 200 && (pr.ETag != h.Get("ETag") || pr.LastMod != h.Get("Last-Modified")) {
			return e, "unstable-entity-headers", fmt.Sprintf("ETag %s vs %s", pr.ETag, h.Get("ETag"))
		}
		if d := c01HeadVsGet(v); d != "" {
			return e, "head-differs-from-get", d
		}
	case "cond-read":
		if d := c01HeadVsGet(v); d != "" {
			return e, "head-differs-from-get", d
		}
	case "options":
		k := kindOf(v.State, p)
		if !commaSet(v.Resp.Header.Values("DAV"))["1"] {
			return e, "options-dav", strings.Join(v.Resp.Header.Values("DAV"), ",")
		}
		allow := commaSet(v.Resp.Header.Values("Allow"))
		var must, mustNot []string
		switch k {
		case "file":
			must = []string{"OPTIONS", "GET", "HEAD", "PUT", "DELETE", "PROPFIND", "COPY", "MOVE"}
			mustNot = []string{"MKCOL"}
		case "unmapped":
			must = []string{"OPTIONS", "PUT", "MKCOL"}
			mustNot = []string{"GET", "HEAD", "DELETE", "PROPFIND", "COPY", "MOVE"}
		default:
			must = []string{"OPTIONS", "DELETE", "PROPFIND", "COPY", "MOVE"}
			mustNot = []string{"GET", "HEAD", "PUT", "MKCOL"}
		}
		for _, m := range must {
			if !allow[m] {
				return e, "options-allow", fmt.Sprintf("target=%s Allow=%v lacks %s", k, sortedKeys(allow), m)
			}
		}
		for _, m := range mustNot {
			if allow[m] {
				return e, "options-allow", fmt.Sprintf("target=%s Allow=%v must not list %s", k, sortedKeys(allow), m)
			}
		}
	case "propfind":
		if cl, d := c01Propfind(v, e); cl != "" {
			return e, cl, d
		}
	}
	return e, "", ""
}

// c01HeadVsGet: a HEAD is answered like the GET with the same headers in the same state, minus the body
// (status and every entity header), also when the request is conditional or asks for a range.
func c01HeadVsGet(v *fsVisit) string {
	if v.Req.Method != "HEAD" || v.Serve == nil {
		return ""
	}
	q := v.Req
	q.Method = "GET"
	g := v.Serve(q)
	if g.Status != v.Resp.Status {
		return fmt.Sprintf("HEAD %d, GET %d", v.Resp.Status, g.Status)
	}
	for _, k := range []string{"Etag", "Last-Modified", "Content-Type", "Content-Length", "Accept-Ranges", "Content-Range"} {
		if a, b := v.Resp.Header.Get(k), g.Header.Get(k); a != b {
			return fmt.Sprintf("%s: HEAD %q, GET %q", k, a, b)
		}
	}
	return ""
}

var c01LiveProps = []string{"resourcetype", "getcontentlength", "getlastmodified", "getcontenttype", "getetag"}

func c01Propfind(v *fsVisit, e *davExpect) (string, string) {
	ms, err := indep.ReadMultiStatus(v.Resp.Body)
	if err != nil {
		return "propfind-unreadable", err.Error()
	}
	seen := map[string]int{}
	unclean := map[string]bool{}
	byPath := map[string]*indep.MSResponse{}
	for i := range ms.Responses {
		r := &ms.Responses[i]
		if len(r.Hrefs) != 1 {
			return "propfind-href-count", fmt.Sprint(len(r.Hrefs))
		}
		hp, err := indep.HrefPath(r.Hrefs[0])
		if err != nil || !strings.HasPrefix(hp, "/") {
			return "propfind-href", r.Hrefs[0]
		}
		cp := path.Clean(hp)
		seen[cp]++
		byPath[cp] = r
		if hp != cp {
			unclean[cp] = true
		}
	}
	var got []string
	for k, n := range seen {
		if n != 1 {
			return "propfind-duplicate-response", k
		}
		got = append(got, k)
	}
	sort.Strings(got)
	want := append([]string(nil), e.Scope...)
	sort.Strings(want)
	if strings.Join(got, " ") != strings.Join(want, " ") {
		return "propfind-scope", fmt.Sprintf("responses for %v want %v", got, want)
	}
	for _, p := range want {
		r := byPath[p]
		n := v.State[p]
		one := func(local string) (*indep.MSProp, string) {
			l := r.Prop(indep.DAV, local)
			if len(l) > 1 {
				return nil, "propfind-prop-duplicated"
			}
			if len(l) == 0 {
				return nil, ""
			}
			return &l[0], ""
		}
		rt, bad := one("resourcetype")
		if bad != "" {
			return bad, "resourcetype"
		}
		if rt == nil || rt.Status != 200 {
			return "propfind-resourcetype-missing", p
		}
		if e.Form != "propname" {
			isCol := rt.Node.First(indep.DAV, "collection") != nil
			if isCol != n.Dir {
				return "propfind-resourcetype", fmt.Sprintf("%s collection=%v want %v", p, isCol, n.Dir)
			}
		}
		// a resource answers with the same properties and values whatever scope it is listed in: compare
		// with its own Depth-0 answer taken in the same state (model-free; catches values carried over
		// from another listed member)
		if own := v.Probe[p].Props; own != nil && !unclean[p] && v.Req.Path != "" {
			listed := map[string]bool{}
			for _, mp := range r.Props {
				if mp.Status != 200 {
					continue
				}
				k := "{" + mp.Node.Space + "}" + mp.Node.Local
				listed[k] = true
				ov, ok := own[k]
				if !ok {
					return "propfind-member-differs-from-own-answer", fmt.Sprintf("%s reports %s, its own Depth-0 answer has no such property", p, k)
				}
				if e.Form != "propname" && ov != mp.Node.Canon() {
					return "propfind-member-differs-from-own-answer", fmt.Sprintf("%s %s = %s, own Depth-0 answer %s", p, k, mp.Node.Canon(), ov)
				}
			}
			if e.Form == "allprop" || e.Form == "propname" {
				for k := range own {
					if !listed[k] {
						return "propfind-member-differs-from-own-answer", fmt.Sprintf("%s lacks %s which its own Depth-0 answer has", p, k)
					}
				}
			}
		}
		if n.Dir {
			continue // a collection's own properties other than resourcetype are judged relationally only (above)
		}
		pr := v.Probe[p]
		for _, local := range c01LiveProps[1:] {
			mp, bad := one(local)
			if bad != "" {
				return bad, local
			}
			if local == "getcontenttype" && (!strings.HasSuffix(p, ".html") || unclean[p]) {
				if mp != nil && mp.Status != 200 && mp.Status != 404 {
					return "propfind-live-prop-status", fmt.Sprintf("%s %s %d", p, local, mp.Status)
				}
				continue // no registered type for this spelling: not judged
			}
			if false {
				continue // no registered type for this name: whether the property exists is not judged
			}
			if mp == nil || mp.Status != 200 {
				return "propfind-live-prop-missing", fmt.Sprintf("%s %s", p, local)
			}
			if e.Form == "propname" {
				if strings.TrimSpace(mp.Node.Text) != "" || len(mp.Node.Children) > 0 {
					return "propfind-propname-has-value", local
				}
				continue
			}
			val := strings.TrimSpace(mp.Node.Text)
			switch local {
			case "getcontentlength":
				if val != strconv.Itoa(len(n.Content)) {
					return "propfind-getcontentlength", fmt.Sprintf("%s: %q want %d", p, val, len(n.Content))
				}
			case "getetag":
				if !isQuoted(val) || (pr.Status == 200 && val != pr.ETag) {
					return "propfind-getetag", fmt.Sprintf("%s: %q GET says %q", p, val, pr.ETag)
				}
			case "getlastmodified":
				lm, err := http.ParseTime(val)
				if err != nil || lm.Unix() != harness.FixedMtime(p, n.Content).Unix() {
					return "propfind-getlastmodified", fmt.Sprintf("%s: %q", p, val)
				}
			case "getcontenttype":
				if strings.HasSuffix(p, ".html") && !strings.HasPrefix(val, "text/html") {
					return "propfind-getcontenttype", fmt.Sprintf("%s: %q", p, val)
				}
				if strings.HasSuffix(p, ".html") && pr.Status == 200 && val != pr.CType {
					return "propfind-getcontenttype", fmt.Sprintf("%s: %q GET says %q", p, val, pr.CType)
				}
			}
		}
		if e.Form == "prop" {
			un, _ := one("nonexistent-7")
			if un == nil || un.Status != 404 {
				return "propfind-unknown-prop-not-404", p
			}
		}
	}
	return "", ""
}

func c01Visit(v *fsVisit) {
	e, clause, detail := c01Judge(v)
	s := v.S
	s.Outcome(fmt.Sprintf("%s/%d", v.Req.Method, v.Resp.Status))
	if e.Refused {
		s.Clause("refusal: status in the model's 4xx set and tree unchanged")
	} else {
		s.Clause("success: status, effect on tree, reported content (" + v.Req.Method + ")")
	}
	p := cleanP(v.Req.Path)
	if _, ok := v.State[p]; ok || v.After.Canon() != v.State.Canon() {
		s.Nontrivial(v.State.Canon() + "|" + v.Req.String())
	}
	if clause == "" {
		return
	}
	obs := detail
	short := detail
	if clause != "status" {
		short = fmt.Sprintf("status=%d", v.Resp.Status)
	}
	s.Violate(engine.Violation{Sig: "C01/" + clause + "/" + c01Coarse(e.Class) + "/want=" + e.want() + "/" + short, Clause: clause, Index: v.Index, Kind: "C01",
		Case:     fsCase{State: v.State, Req: v.Req, Spell: v.Spell},
		Expected: fmt.Sprintf("status %s (%s); tree %s", e.want(), strings.Join(e.Reasons, "; "), e.Next.Canon()),
		Observed: fmt.Sprintf("status %d; tree %s; %s; body=%q", v.Resp.Status, v.After.Canon(), obs, trunc(string(v.Resp.Body), 200))})
}

var c01HdrClass = regexp.MustCompile(`\.(depth|ow)=[A-Za-z0-9]+`)

// c01Coarse drops the Depth/Overwrite header classes from the input class: their effect is
// already reflected in the acceptable status set.
func c01Coarse(class string) string { return c01HdrClass.ReplaceAllString(class, "") }

func trunc(s string, n int) string {
	if len(s) > n {
		return s[:n] + "…"
	}
	return s
}

func init() {
	register("C01", func(r *engine.Run) {
		quick := !thorough(r)
		contents := []string{"x", "yy"}
		if quick {
			contents = []string{"x"}
		}
		states := fsUniverse(contents)
		states = append(states, fsProbeStates()...)
		reqs := fsRequests(quick)
		r.Rule = fmt.Sprintf("states: every tree over names {a,b.html}, depth<=2, contents %v (%d) + %d probe states (deeper nesting, zero-length files, names needing escaping, prefix-named siblings, typed-before-untyped members, names beginning/ending with two dots); requests: every method x path spelling x Depth x Overwrite x Destination form x body variant (%d per state); every (state, request) pair executed on the real handler over a real directory; non-trivial = the request addresses a mapped resource or changes the tree; distinct by (canonical tree, request)", contents, len(states)-len(fsProbeStates()), len(fsProbeStates()), len(reqs))
		r.Explanation = "explicit-state search: each canonical tree is materialised on tmpfs, each request is served by webdav.Handler{LocalFileSystem}, and (status, headers, body, multistatus, tree afterwards) is compared with a reference RFC 4918 resource-tree model; by induction over history length agreement on every (state, request) pair of the universe covers every history that stays inside it"
		r.Assumptions = []string{"mtimes are fixed by the materialiser; entity tags are treated as opaque strings read from the server in the same state", "COPY/MOVE whose source is the root must be refused (every destination lies inside the source); DELETE of the root is refused and leaves the tree alone"}
		r.Extra["requests_per_state"] = len(reqs)
		// the served directory named "." (sequential: the working directory is process-wide)
		cwdStates := append(append([]harness.Tree(nil), fsProbeStates()...), fsSpellingStates(states, true)...)
		// names beginning with a dot directly below a directory named "."
		cwdStates = append([]harness.Tree{{"/": {Dir: true}, "/.profile": {Content: "x"}, "/profile": {Content: "yy"}, "/.config": {Dir: true}, "/.config/a.html": {Content: "x"}, "/..rc": {Content: ""}, "/a": {Dir: true}, "/a/.hidden": {Content: "x"}}}, cwdStates...)
		if len(cwdStates) > 15 {
			cwdStates = cwdStates[:15]
		}
		c01CwdRoot(r, cwdStates, reqs)
		first := true
		exploreFS(r, states, reqs, func(v *fsVisit) {
			c01Visit(v)
			if first && v.Index%50021 == 11 {
				v.S.Sample(map[string]interface{}{"state": v.State.Canon(), "request": v.Req.String(), "status": v.Resp.Status, "after": v.After.Canon()})
			}
		})
		// the same directory configured in other spellings (trailing slash, "/.", "//", "/./"): a subset of
		// the states x every request, same model
		sub := fsSpellingStates(states, quick)
		for sp := 1; sp < len(fsRootSpellings); sp++ {
			exploreFSspell(r, sub, reqs, nil, sp, c01Visit)
		}
		r.Extra["root_spellings"] = fsRootSpellings
		r.Extra["root_spelling_states"] = len(sub)
		// real histories from the empty directory (breadth-first, canonical-state hashing)
		c01Histories(r, quick)
		harness.Cleanup()
	})
	registerReplay("C01-history", func(raw json.RawMessage) (bool, string) {
		var c c01HistCase
		if err := json.Unmarshal(raw, &c); err != nil {
			return false, err.Error()
		}
		defer harness.Cleanup()
		tree, root, h, clause, detail, _ := c01ReplayHistory(c.History)
		if clause != "" {
			return false, clause + " " + detail
		}
		mroot := harness.NewDir("mat-")
		harness.Materialise(mroot, tree)
		a, b := c01Probe(h, tree), c01Probe(&webdav.Handler{FileSystem: webdav.LocalFileSystem(mroot)}, tree)
		_ = root
		return a == b, fmt.Sprintf("history instance vs materialised equal=%v; final tree %s", a == b, tree.Canon())
	})
	registerReplay("C01", func(raw json.RawMessage) (bool, string) {
		var c fsCase
		if err := json.Unmarshal(raw, &c); err != nil {
			return false, err.Error()
		}
		v := fsReplay(c)
		e, clause, detail := c01Judge(v)
		return clause == "", fmt.Sprintf("model: status %s tree %s | observed: status %d tree %s %s %s", e.want(), e.Next.Canon(), v.Resp.Status, v.After.Canon(), clause, detail)
	})
}
