package checks

import (
	"context"
	"encoding/json"
	"fmt"
	"net/http"
	"sort"
	"strings"

	"github.com/emersion/go-webdav/caldav"
	"github.com/emersion/go-webdav/carddav"
	"github.com/emersion/go-webdav/verifmc/engine"
	"github.com/emersion/go-webdav/verifmc/harness"
	"github.com/emersion/go-webdav/verifmc/indep"
)

// C12 — CalDAV/CardDAV routing and discovery work under any mount prefix.

var c12Segs = []string{"dav", "a b", "x.y", "é", "u"}

func c12Prefixes(maxSeg int) []string {
	var out []string
	level := []string{""}
	out = append(out, "", "/")
	for l := 1; l <= maxSeg; l++ {
		var next []string
		for _, p := range level {
			for _, s := range c12Segs {
				next = append(next, p+"/"+s)
			}
		}
		for _, p := range next {
			out = append(out, p, p+"/")
		}
		level = next
	}
	return out
}

type c12Layout struct {
	P         string // prefix without trailing slash
	Principal string
	HomeSet   string
	Coll1     string
	Coll2     string
	Obj       string
}

func c12LayoutFor(prefix string) c12Layout { return c12LayoutSeg(prefix, "") }

// c12LayoutSeg: with seg != "" every level of the hierarchy is named by that (special) segment.
func c12LayoutSeg(prefix, seg string) c12Layout {
	p := strings.TrimSuffix(prefix, "/")
	if seg == "" {
		return c12Layout{P: p, Principal: p + "/u/", HomeSet: p + "/u/c/", Coll1: p + "/u/c/k1/", Coll2: p + "/u/c/k2", Obj: p + "/u/c/k1/o1"}
	}
	s := "/" + seg
	return c12Layout{P: p, Principal: p + s + "/", HomeSet: p + s + s + "/", Coll1: p + s + s + s + "/", Coll2: p + s + s + "/k2", Obj: p + s + s + s + s}
}

type c12Case struct {
	Seg    string `json:"segment_name,omitempty"`
	Kind   string `json:"kind"` // caldav | carddav
	Prefix string `json:"prefix"`
	Method string `json:"method"`
	Var    string `json:"variant,omitempty"`
	Path   string `json:"path"`
	Level  int    `json:"level"`
}

const (
	calBody  = "BEGIN:VCALENDAR\r\nVERSION:2.0\r\nPRODID:-//x//EN\r\nBEGIN:VEVENT\r\nUID:1\r\nDTSTAMP:20200101T000000Z\r\nDTSTART:20200101T000000Z\r\nSUMMARY;LANGUAGE=en:hello\r\nATTENDEE;CN=\"Doe, J\";PARTSTAT=ACCEPTED:mailto:j@example.com\r\nEND:VEVENT\r\nEND:VCALENDAR\r\n"
	cardBody = "BEGIN:VCARD\r\nVERSION:4.0\r\nFN:x\r\nEMAIL;TYPE=work;PREF=1:a@example.com\r\nEND:VCARD\r\n"
)

func c12Backends(kind string, l c12Layout) (http.Handler, func() []harness.Call) {
	ext := ".ics"
	if kind == "carddav" {
		ext = ".vcf"
	}
	if kind == "caldav" {
		b := &harness.CalBackend{Principal: l.Principal, HomeSet: l.HomeSet,
			Calendars: []caldav.Calendar{{Path: l.Coll1, Name: "k1"}, {Path: l.Coll2, Name: "k2"}},
			Objects:   []caldav.CalendarObject{{Path: l.Obj + ext, ETag: "e1", Data: harness.SampleCalendar("1", "s")}}}
		return &caldav.Handler{Backend: b, Prefix: ""}, b.Snapshot
	}
	b := &harness.CardBackend{Principal: l.Principal, HomeSet: l.HomeSet,
		Books:   []carddav.AddressBook{{Path: l.Coll1, Name: "k1"}, {Path: l.Coll2, Name: "k2"}},
		Objects: []carddav.AddressObject{{Path: l.Obj + ext, ETag: "e1", Card: harness.SampleCard("s")}}}
	return &carddav.Handler{Backend: b, Prefix: ""}, b.Snapshot
}

func c12Handler(kind, prefix string, l c12Layout) (http.Handler, func() []harness.Call) {
	h, snap := c12Backends(kind, l)
	switch hh := h.(type) {
	case *caldav.Handler:
		hh.Prefix = prefix
	case *carddav.Handler:
		hh.Prefix = prefix
	}
	return h, snap
}

func c12Req(c c12Case) harness.Req {
	q := harness.Req{Method: c.Method, Path: c.Path, Header: map[string]string{}}
	ns, qroot, mroot, ctype, body := nsCal, "calendar-query", "calendar-multiget", "text/calendar", calBody
	filter := `<C:filter><C:comp-filter name="VCALENDAR"/></C:filter>`
	rtype := "calendar"
	if c.Kind == "carddav" {
		ns, qroot, mroot, ctype, body = nsCard, "addressbook-query", "addressbook-multiget", "text/vcard", cardBody
		filter = `<C:filter><C:prop-filter name="FN"/></C:filter>`
		rtype = "addressbook"
	}
	switch c.Method {
	case "PUT":
		q.Header["Content-Type"] = ctype
		q.Body = body
	case "PROPFIND":
		q.Header["Depth"] = c.Var
		q.Header["Content-Type"] = "application/xml"
		q.Body = `<?xml version="1.0"?><D:propfind xmlns:D="DAV:"><D:prop><D:resourcetype/><D:displayname/><D:current-user-principal/></D:prop></D:propfind>`
	case "MKCOL":
		if c.Var == "body" {
			q.Header["Content-Type"] = "application/xml"
			q.Body = `<?xml version="1.0"?><D:mkcol xmlns:D="DAV:" xmlns:C="` + ns + `"><D:set><D:prop><D:resourcetype><D:collection/><C:` + rtype + `/></D:resourcetype><D:displayname>n</D:displayname></D:prop></D:set></D:mkcol>`
		}
	case "REPORT":
		q.Header["Content-Type"] = "application/xml"
		q.Header["Depth"] = "1"
		if c.Var == "query" {
			q.Body = `<?xml version="1.0"?><C:` + qroot + ` xmlns:C="` + ns + `" xmlns:D="DAV:"><D:prop><D:getetag/></D:prop>` + filter + `</C:` + qroot + `>`
		} else {
			q.Body = `<?xml version="1.0"?><C:` + mroot + ` xmlns:C="` + ns + `" xmlns:D="DAV:"><D:prop><D:getetag/></D:prop><D:href>` + xmlEsc(harness.EscapePath(c.Path)) + `</D:href></C:` + mroot + `>`
		}
	case "PROPPATCH":
		q.Header["Content-Type"] = "application/xml"
		q.Body = `<?xml version="1.0"?><D:propertyupdate xmlns:D="DAV:"><D:set><D:prop><D:displayname>x</D:displayname></D:prop></D:set></D:propertyupdate>`
	case "COPY", "MOVE":
		q.Header["Destination"] = harness.EscapePath(c.Path + "-copy")
	}
	return q
}

func callsNamed(calls []harness.Call, prefix string) []harness.Call {
	var out []harness.Call
	for _, c := range calls {
		if strings.HasPrefix(c.Method, prefix) {
			out = append(out, c)
		}
	}
	return out
}

func c12Judge(c c12Case) (clause, detail string) {
	l := c12LayoutSeg(c.Prefix, c.Seg)
	h, snap := c12Handler(c.Kind, c.Prefix, l)
	resp := harness.Serve(h, c12Req(c))
	if resp.Panic != "" {
		return "panic", resp.Panic
	}
	calls := snap()
	obj, coll := "CalendarObject", "Calendar"
	if c.Kind == "carddav" {
		obj, coll = "AddressObject", "AddressBook"
	}
	// never a mutating call with a rewritten path
	var muts []harness.Call
	for _, cl := range calls {
		if cl.Mutating() {
			muts = append(muts, cl)
			if cl.Path != c.Path {
				return "mutation-with-rewritten-path", fmt.Sprintf("%s on request path %q", cl, c.Path)
			}
		}
	}
	pathArgOK := func(method string) (string, string) {
		cs := callsNamed(calls, method)
		if len(cs) == 0 {
			return "level-operation-not-invoked", fmt.Sprintf("%s not called (status %d, calls %v)", method, resp.Status, calls)
		}
		for _, cl := range cs {
			if cl.Method == method && cl.Path != c.Path {
				return "path-rewritten", fmt.Sprintf("%s on request path %q", cl, c.Path)
			}
		}
		return "", ""
	}
	switch c.Method {
	case "PROPFIND":
		switch c.Level {
		case 3:
			if cl, d := pathArgOK("Get" + coll); cl != "" {
				return cl, d
			}
		case 4:
			if cl, d := pathArgOK("Get" + obj); cl != "" {
				return cl, d
			}
		}
		if len(muts) > 0 {
			return "mutation-on-read", fmt.Sprint(muts)
		}
		if c.Level <= 4 && resp.Status == 207 {
			ms, err := indep.ReadMultiStatus(resp.Body)
			if err != nil {
				return "multistatus", err.Error()
			}
			// "with or without a trailing slash": both spellings of the own principal / home set address it
			twin := func(a, b string) bool { return strings.TrimSuffix(a, "/") == strings.TrimSuffix(b, "/") }
			exact := (c.Level == 1 && twin(c.Path, l.Principal)) || (c.Level == 2 && twin(c.Path, l.HomeSet)) || c.Level == 0
			if exact && len(ms.Responses) == 0 {
				return "own-resource-not-found", fmt.Sprintf("PROPFIND %q (level %d) returned no response", c.Path, c.Level)
			}
		}
	case "GET", "HEAD":
		if c.Level == 4 {
			if cl, d := pathArgOK("Get" + obj); cl != "" {
				return cl, d
			}
		}
		if len(muts) > 0 {
			return "mutation-on-read", fmt.Sprint(muts)
		}
	case "PUT":
		if c.Level == 4 {
			if cl, d := pathArgOK("Put" + obj); cl != "" {
				return cl, d
			}
		}
	case "DELETE":
		switch {
		case c.Level == 4:
			if cl, d := pathArgOK("Delete" + obj); cl != "" {
				return cl, d
			}
		case c.Level == 3 && c.Kind == "carddav":
			if cl, d := pathArgOK("DeleteAddressBook"); cl != "" {
				return cl, d
			}
		case c.Kind == "carddav":
			if len(muts) > 0 || resp.Status != 403 {
				return "delete-elsewhere-not-403", fmt.Sprintf("status %d calls %v", resp.Status, muts)
			}
		}
	case "MKCOL":
		if c.Level == 3 {
			cs := callsNamed(calls, "Create"+coll)
			if len(cs) != 1 || resp.Status != 201 {
				return "mkcol-at-collection-depth-refused", fmt.Sprintf("status %d calls %v", resp.Status, calls)
			}
		} else if len(muts) > 0 || resp.Status != 403 {
			return "mkcol-elsewhere-not-403", fmt.Sprintf("level %d status %d calls %v", c.Level, resp.Status, muts)
		}
	case "OPTIONS":
		allow := commaSet(resp.Header.Values("Allow"))
		var want []string
		switch {
		case c.Level != 4:
			want = []string{"OPTIONS", "PROPFIND", "REPORT", "DELETE", "MKCOL"}
		case strings.HasSuffix(c.Path, "/"):
			want = []string{"OPTIONS", "PUT"} // the double holds the object without trailing slash
		default:
			want = []string{"OPTIONS", "HEAD", "GET", "PUT", "DELETE", "PROPFIND"}
		}
		sort.Strings(want)
		if strings.Join(sortedKeys(allow), ",") != strings.Join(want, ",") {
			return "options-allow-by-level", fmt.Sprintf("level %d Allow=%v want %v", c.Level, sortedKeys(allow), want)
		}
		if len(muts) > 0 {
			return "mutation-on-read", fmt.Sprint(muts)
		}
	case "REPORT":
		if c.Var == "query" {
			if cl, d := pathArgOK("Query" + obj + "s"); cl != "" {
				return cl, d
			}
		} else {
			if cl, d := pathArgOK("Get" + obj); cl != "" {
				return cl, d
			}
		}
		if len(muts) > 0 {
			return "mutation-on-read", fmt.Sprint(muts)
		}
	default: // PROPPATCH, COPY, MOVE, FOO
		if len(muts) > 0 {
			return "mutation-by-unsupported-method", fmt.Sprint(muts)
		}
	}
	return "", ""
}

// foreign principal / home set: a PROPFIND must expose none of the current user's resources
func c12Foreign(kind, prefix, target, depth string) (clause, detail string) {
	l := c12LayoutFor(prefix)
	h, _ := c12Handler(kind, prefix, l)
	resp := harness.Serve(h, harness.Req{Method: "PROPFIND", Path: target, Header: map[string]string{"Depth": depth}})
	if resp.Panic != "" {
		return "panic", resp.Panic
	}
	own := []string{l.Principal, l.HomeSet, l.Coll1, l.Coll2, l.Obj}
	for _, o := range own {
		if strings.Contains(string(resp.Body), harness.EscapePath(o)) || strings.Contains(string(resp.Body), o) {
			return "foreign-path-exposes-own-resource", fmt.Sprintf("PROPFIND %q depth %s mentions %q", target, depth, o)
		}
	}
	if depth == "1" {
		// the client's collection listing on that path: nothing of the current user's, and no panic
		clause, detail = c12ForeignClient(kind, h, target, own)
	}
	return clause, detail
}

func c12ForeignClient(kind string, h http.Handler, target string, own []string) (clause, detail string) {
	defer func() {
		if p := recover(); p != nil {
			clause, detail = "foreign-client-panic", fmt.Sprint(p)
		}
	}()
	w := &harness.Wire{Handler: h}
	var paths []string
	var err error
	if kind == "caldav" {
		cl, _ := caldav.NewClient(w.Client(), "http://h/")
		var l []caldav.Calendar
		l, err = cl.FindCalendars(context.Background(), target)
		for _, c := range l {
			paths = append(paths, c.Path)
		}
	} else {
		cl, _ := carddav.NewClient(w.Client(), "http://h/")
		var l []carddav.AddressBook
		l, err = cl.FindAddressBooks(context.Background(), target)
		for _, c := range l {
			paths = append(paths, c.Path)
		}
	}
	_ = err // an error is as good as an empty list
	for _, p := range paths {
		for _, o := range own {
			if p == o {
				return "foreign-path-exposes-own-resource", fmt.Sprintf("client listing of %q returns %q", target, p)
			}
		}
	}
	return "", ""
}

// discovery chain through the wire-faithful transport and a stock http.Client
func c12Discovery(kind, prefix string) (clause, detail string) {
	return c12DiscoverySeg(kind, prefix, "")
}

// c12DiscoverySeg: the discovery chain over a layout whose every level is named by seg (special characters).
func c12DiscoverySeg(kind, prefix, seg string) (clause, detail string) {
	defer func() {
		if p := recover(); p != nil {
			clause, detail = "panic", fmt.Sprint(p)
		}
	}()
	l := c12LayoutSeg(prefix, seg)
	if seg == "\x00beside" {
		// the home set (depth 2) is not spelled below the principal (depth 1): levels are depths, not nesting
		p := strings.TrimSuffix(prefix, "/")
		l = c12Layout{P: p, Principal: p + "/u/", HomeSet: p + "/homes/u/", Coll1: p + "/homes/u/k1/", Coll2: p + "/homes/u/k2", Obj: p + "/homes/u/k1/o1"}
	}
	h, _ := c12Handler(kind, prefix, l)
	w := &harness.Wire{Handler: h}
	ctx := context.Background()
	// the endpoint: plain, or reached over TLS on another port (every request of the chain, redirects included,
	// must go to that very scheme and authority)
	ep := "http://h"
	if (len(prefix)+len(seg))%2 == 1 {
		ep = "https://secure.example:8443"
	}
	defer func() {
		if clause == "" {
			for _, t := range w.Targets {
				if t != ep {
					clause, detail = "discovery-left-the-endpoint", fmt.Sprintf("a request of the chain went to %s, the endpoint is %s", t, ep)
				}
			}
		}
	}()
	if kind == "caldav" {
		cl, err := caldav.NewClient(w.Client(), ep+"/.well-known/caldav")
		if err != nil {
			return "client", err.Error()
		}
		pr, err := cl.FindCurrentUserPrincipal(ctx)
		if err != nil || pr != l.Principal {
			return "discovery-principal", fmt.Sprintf("%q, %v want %q", pr, err, l.Principal)
		}
		hs, err := cl.FindCalendarHomeSet(ctx, pr)
		if err != nil || hs != l.HomeSet {
			return "discovery-home-set", fmt.Sprintf("%q, %v want %q", hs, err, l.HomeSet)
		}
		cals, err := cl.FindCalendars(ctx, hs)
		if err != nil || len(cals) != 2 || cals[0].Path != l.Coll1 || cals[1].Path != l.Coll2 {
			return "discovery-collections", fmt.Sprintf("%v, %v want [%q %q]", cals, err, l.Coll1, l.Coll2)
		}
		o, err := cl.GetCalendarObject(ctx, l.Obj+".ics")
		if err != nil || o.Path != l.Obj+".ics" {
			return "discovery-object", fmt.Sprintf("%v, %v", o, err)
		}
		objs, err := cl.QueryCalendar(ctx, l.Coll1, &caldav.CalendarQuery{CompFilter: caldav.CompFilter{Name: "VCALENDAR"}})
		if err != nil || len(objs) != 1 || objs[0].Path != l.Obj+".ics" {
			return "discovery-query", fmt.Sprintf("%v, %v", objs, err)
		}
		return "", ""
	}
	cl, err := carddav.NewClient(w.Client(), ep+"/.well-known/carddav")
	if err != nil {
		return "client", err.Error()
	}
	pr, err := cl.FindCurrentUserPrincipal(ctx)
	if err != nil || pr != l.Principal {
		return "discovery-principal", fmt.Sprintf("%q, %v want %q", pr, err, l.Principal)
	}
	hs, err := cl.FindAddressBookHomeSet(ctx, pr)
	if err != nil || hs != l.HomeSet {
		return "discovery-home-set", fmt.Sprintf("%q, %v want %q", hs, err, l.HomeSet)
	}
	abs, err := cl.FindAddressBooks(ctx, hs)
	if err != nil || len(abs) != 2 || abs[0].Path != l.Coll1 || abs[1].Path != l.Coll2 {
		return "discovery-collections", fmt.Sprintf("%v, %v want [%q %q]", abs, err, l.Coll1, l.Coll2)
	}
	o, err := cl.GetAddressObject(ctx, l.Obj+".vcf")
	if err != nil || o.Path != l.Obj+".vcf" {
		return "discovery-object", fmt.Sprintf("%v, %v", o, err)
	}
	objs, err := cl.QueryAddressBook(ctx, l.Coll1, &carddav.AddressBookQuery{PropFilters: []carddav.PropFilter{{Name: "FN"}}})
	if err != nil || len(objs) != 1 || objs[0].Path != l.Obj+".vcf" {
		return "discovery-query", fmt.Sprintf("%v, %v", objs, err)
	}
	return "", ""
}

// c12TwoUsers: ONE handler instance serves two authenticated users in turn (u, v, u again); each one's
// discovery (well-known redirect, current-user-principal, home set) returns that user's own backend paths.
func c12TwoUsers(kind, prefix string) (clause, detail string) {
	defer func() {
		if p := recover(); p != nil {
			clause, detail = "panic", fmt.Sprint(p)
		}
	}()
	l := c12LayoutFor(prefix)
	h, _ := c12Handler(kind, prefix, l)
	p := strings.TrimSuffix(prefix, "/")
	other := harness.UserPaths{Principal: p + "/v/", HomeSet: p + "/v/c/"}
	switch hh := h.(type) {
	case *caldav.Handler:
		hh.Backend.(*harness.CalBackend).Users = map[string]harness.UserPaths{"v": other}
	case *carddav.Handler:
		hh.Backend.(*harness.CardBackend).Users = map[string]harness.UserPaths{"v": other}
	}
	w := &harness.Wire{Handler: harness.UserFromHeader(h)}
	ctx := context.Background()
	for step, user := range []string{"u", "v", "u", "v"} {
		wantP, wantH := l.Principal, l.HomeSet
		if user == "v" {
			wantP, wantH = other.Principal, other.HomeSet
		}
		hc := &harness.HeaderClient{Inner: w.Client(), Key: "X-User", Value: user}
		var pr, hs string
		var err error
		if kind == "caldav" {
			cl, _ := caldav.NewClient(hc, "http://h/.well-known/caldav")
			if pr, err = cl.FindCurrentUserPrincipal(ctx); err == nil {
				hs, err = cl.FindCalendarHomeSet(ctx, pr)
			}
		} else {
			cl, _ := carddav.NewClient(hc, "http://h/.well-known/carddav")
			if pr, err = cl.FindCurrentUserPrincipal(ctx); err == nil {
				hs, err = cl.FindAddressBookHomeSet(ctx, pr)
			}
		}
		if err != nil || pr != wantP || hs != wantH {
			return "discovery-second-user", fmt.Sprintf("step %d user %s: principal %q home set %q (%v), want %q %q", step, user, pr, hs, err, wantP, wantH)
		}
	}
	return "", ""
}

func c12PrefixClass(p string) string {
	n := strings.Count(strings.Trim(p, "/"), "/")
	if strings.Trim(p, "/") != "" {
		n++
	}
	var f []string
	f = append(f, fmt.Sprintf("segments=%d", n))
	if strings.HasSuffix(p, "/") {
		f = append(f, "trailing-slash")
	}
	if strings.Contains(p, " ") {
		f = append(f, "space")
	}
	if strings.Contains(p, "é") {
		f = append(f, "non-ascii")
	}
	if strings.HasSuffix(strings.TrimSuffix(p, "/"), "/u") {
		f = append(f, "ends-like-principal")
	}
	return strings.Join(f, ".")
}

type c12Extra struct {
	Part   string `json:"part"`
	Kind   string `json:"kind"`
	Prefix string `json:"prefix"`
	Target string `json:"target,omitempty"`
	Depth  string `json:"depth,omitempty"`
}

func init() {
	register("C12", func(r *engine.Run) {
		maxSeg := 2
		if thorough(r) {
			maxSeg = 3
		}
		prefixes := c12Prefixes(maxSeg)
		type mv struct{ m, v string }
		methods := []mv{{"OPTIONS", ""}, {"GET", ""}, {"HEAD", ""}, {"PUT", ""}, {"DELETE", ""}, {"MKCOL", ""}, {"MKCOL", "body"}, {"PROPFIND", "0"}, {"PROPFIND", "1"},
			{"REPORT", "query"}, {"REPORT", "multiget"}, {"PROPPATCH", ""}, {"COPY", ""}, {"MOVE", ""}, {"FOO", ""}}
		var cases []c12Case
		for _, kind := range []string{"caldav", "carddav"} {
			ext := map[string]string{"caldav": ".ics", "carddav": ".vcf"}[kind]
			type pl struct{ pf, seg string }
			var pls []pl
			for _, pf := range prefixes {
				pls = append(pls, pl{pf, ""})
			}
			segs := []string{"j..doe", "a%41", "..a", "a.", "a#b?c"}
			if thorough(r) {
				segs = c05Names
			}
			{
				for _, seg := range segs {
					for _, pf := range c12Prefixes(1) {
						pls = append(pls, pl{pf, seg})
					}
				}
			}
			for _, x := range pls {
				pf := x.pf
				l := c12LayoutSeg(pf, x.seg)
				paths := []string{l.P + "/", l.P + "/u", l.P + "/u/c", l.P + "/u/c/k3", l.Obj + ext, l.Obj + ext + "/x"}
				if x.seg != "" {
					sg := "/" + x.seg
					paths = []string{l.P + "/", l.P + sg, l.P + sg + sg, l.P + sg + sg + "/k3", l.Obj + ext, l.Obj + ext + "/x"}
				}
				for lvl, base := range paths {
					for _, slash := range []bool{false, true} {
						p := strings.TrimSuffix(base, "/")
						if slash {
							p += "/"
						}
						if p == "" {
							continue
						}
						for _, m := range methods {
							cases = append(cases, c12Case{Kind: kind, Prefix: pf, Seg: x.seg, Method: m.m, Var: m.v, Path: p, Level: lvl})
						}
					}
				}
			}
		}
		r.Rule = fmt.Sprintf("prefix = 0..%d segments from {dav,'a b',x.y,é,u} x {no trailing slash, trailing slash} (%d prefixes) x {caldav,carddav} x path at depth 0..5 below the prefix x {with,without trailing slash} x 15 method variants; plus foreign principal/home-set PROPFINDs and the client discovery chain per prefix; non-trivial = every case (each distinct)", maxSeg, len(prefixes))
		r.Explanation = "each request is served by the real handler mounted with the prefix over a recording backend double whose layout lives under the prefix; the recorded (operation, path) calls are compared with the level table of the statement: the level's operation is invoked with the request path unchanged, MKCOL only at collection depth (403 and no mutation elsewhere), OPTIONS Allow by level, no mutating call ever carries a rewritten path; the discovery chain runs the real clients through the wire-faithful transport and a stock http.Client (redirect handling by net/http)"
		r.Assumptions = []string{"paths outside the prefix are not judged beyond no-panic/no-rewritten-mutation", "which call DELETE makes above object level in CalDAV is not judged (the Backend interface has only DeleteCalendarObject)"}
		r.Parallel(len(cases), func(i int, s *engine.Shard) {
			c := cases[i]
			s.Transition()
			clause, detail := c12Judge(c)
			s.Clause("level table: " + c.Method)
			s.Outcome(fmt.Sprintf("%s/%s/L%d/%s", c.Kind, c.Method, c.Level, clause))
			s.Nontrivial(js(c))
			if i%9973 == 99 {
				s.Sample(c)
			}
			if clause != "" {
				s.Violate(engine.Violation{Sig: fmt.Sprintf("C12/%s/%s.%s%s.level=%d/%s", clause, c.Kind, c.Method, c.Var, c.Level, c12PrefixClass(c.Prefix)), Clause: clause, Index: int64(i), Kind: "C12", Case: c,
					Expected: "level operation invoked with the request path unchanged", Observed: detail})
			}
		})
		base := int64(len(cases))
		type ex struct{ kind, pf, target, depth string }
		var exs []ex
		for _, kind := range []string{"caldav", "carddav"} {
			for _, pf := range prefixes {
				l := c12LayoutFor(pf)
				for _, t := range []string{l.P + "/v/", l.P + "/v", l.P + "/v/c/", l.P + "/u/d/", l.P + "/u/d",
					// (the no-slash spellings of the own principal and home set are NOT foreign: "with or without a
					// trailing slash" - the first session had listed them here, pinning what the code did)
					// foreign principals / home sets whose names extend or are extended by the current user's
					l.P + "/u2/", l.P + "/u-admin/", l.P + "/u.old", l.P + "/u/c2/", l.P + "/u/c.bak/", l.P + "/u2/c/",
					// names that differ from the current user's only in letter case or by a compatibility character
					l.P + "/U/", l.P + "/U", l.P + "/U/c/", l.P + "/u/C/", l.P + "/U/C/"} {
					for _, d := range []string{"0", "1", "infinity"} {
						exs = append(exs, ex{kind, pf, t, d})
					}
				}
				exs = append(exs, ex{kind, pf, "", "discovery"})
				exs = append(exs, ex{kind, pf, "", "two-users"})
				if strings.Count(pf, "/") <= 2 {
					// every level of the layout named with characters that mean something in a URL
					for _, seg := range []string{"a?b", "a#b", "a%41", "100%", "a b", "é", "a+b", "a;b=c", "a&b", "\x00beside"} {
						exs = append(exs, ex{kind, pf, seg, "discovery-seg"})
					}
				}
			}
		}
		r.Parallel(len(exs), func(i int, s *engine.Shard) {
			e := exs[i]
			var clause, detail string
			if e.depth == "discovery" {
				for k := 0; k < 6; k++ {
					s.Transition()
				}
				clause, detail = c12Discovery(e.kind, e.pf)
				s.Clause("discovery chain returns exactly the backend's paths")
			} else if e.depth == "discovery-seg" {
				for k := 0; k < 6; k++ {
					s.Transition()
				}
				clause, detail = c12DiscoverySeg(e.kind, e.pf, e.target)
				s.Clause("discovery chain returns exactly the backend's paths (special segment names)")
			} else if e.depth == "two-users" {
				for k := 0; k < 12; k++ {
					s.Transition()
				}
				clause, detail = c12TwoUsers(e.kind, e.pf)
				s.Clause("one handler, two authenticated users in turn: each discovers their own paths")
			} else {
				s.Transition()
				clause, detail = c12Foreign(e.kind, e.pf, e.target, e.depth)
				s.Clause("foreign principal/home set exposes none of the current user's resources")
			}
			s.Outcome(e.kind + "/" + e.depth + "/" + clause)
			s.Nontrivial(fmt.Sprintf("X/%d", i))
			if clause != "" {
				s.Violate(engine.Violation{Sig: fmt.Sprintf("C12/%s/%s/%s", clause, e.kind, c12PrefixClass(e.pf)), Clause: clause, Index: base + int64(i), Kind: "C12-extra",
					Case:     c12Extra{Part: map[string]string{"discovery": "discovery", "two-users": "two-users", "discovery-seg": "discovery-seg"}[e.depth], Kind: e.kind, Prefix: e.pf, Target: e.target, Depth: e.depth},
					Expected: "the backend's paths / nothing of the current user's", Observed: detail})
			}
		})
	})
	registerReplay("C12", func(raw json.RawMessage) (bool, string) {
		var c c12Case
		if err := json.Unmarshal(raw, &c); err != nil {
			return false, err.Error()
		}
		clause, detail := c12Judge(c)
		return clause == "", clause + " " + detail
	})
	registerReplay("C12-extra", func(raw json.RawMessage) (bool, string) {
		var c c12Extra
		if err := json.Unmarshal(raw, &c); err != nil {
			return false, err.Error()
		}
		var clause, detail string
		if c.Part == "discovery" {
			clause, detail = c12Discovery(c.Kind, c.Prefix)
		} else if c.Part == "two-users" {
			clause, detail = c12TwoUsers(c.Kind, c.Prefix)
		} else if c.Part == "discovery-seg" {
			clause, detail = c12DiscoverySeg(c.Kind, c.Prefix, c.Target)
		} else {
			clause, detail = c12Foreign(c.Kind, c.Prefix, c.Target, c.Depth)
		}
		return clause == "", clause + " " + detail
	})
}
