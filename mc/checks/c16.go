package checks

import (
	"context"
	"encoding/json"
	"encoding/xml"
	"fmt"
	"net/http"
	"regexp"
	"strings"
	"time"
	_ "time/tzdata"

	webdav "github.com/emersion/go-webdav"
	"github.com/emersion/go-webdav/caldav"
	"github.com/emersion/go-webdav/carddav"
	"github.com/emersion/go-webdav/internal"
	"github.com/emersion/go-webdav/verifmc/engine"
	"github.com/emersion/go-webdav/verifmc/harness"
	"github.com/emersion/go-webdav/verifmc/indep"
)

// C16 — wire primitives round-trip exactly and reject what they cannot represent.

type c16Case struct {
	Prim string `json:"primitive"`
	Dir  string `json:"direction"` // roundtrip | reject
	In   string `json:"input"`
	Aux  string `json:"aux,omitempty"`
}

// c16Eval returns ("", "") if the property holds for the case, else (class, detail).
func c16Eval(c c16Case) (class, detail string) {
	defer func() {
		if p := recover(); p != nil {
			class, detail = "panic", fmt.Sprint(p)
		}
	}()
	switch c.Prim + "/" + c.Dir {
	case "depth/roundtrip":
		d, err := internal.ParseDepth(c.In)
		if err != nil {
			return "refused-in-domain", err.Error()
		}
		if d.String() != c.In {
			return "altered", d.String()
		}
		d2, err := internal.ParseDepth(d.String())
		if err != nil || d2 != d {
			return "altered", fmt.Sprint(d2, err)
		}
	case "depth/reject":
		d, err := internal.ParseDepth(c.In)
		if err == nil {
			if strings.EqualFold(c.In, "infinity") && d == internal.DepthInfinity {
				return "", "" // a case variant read as the value it denotes is not a silently different value
			}
			return "accepted", fmt.Sprintf("ParseDepth(%q)=%d", c.In, d)
		}
	case "overwrite/roundtrip":
		b, err := internal.ParseOverwrite(c.In)
		if err != nil {
			return "refused-in-domain", err.Error()
		}
		if internal.FormatOverwrite(b) != c.In {
			return "altered", internal.FormatOverwrite(b)
		}
	case "overwrite/reject":
		b, err := internal.ParseOverwrite(c.In)
		if err == nil {
			if (c.In == "t" && b) || (c.In == "f" && !b) {
				return "", ""
			}
			return "accepted", fmt.Sprintf("ParseOverwrite(%q)=%v", c.In, b)
		}
	case "status/roundtrip":
		var code int
		fmt.Sscan(c.In, &code)
		s := internal.Status{Code: code, Text: c.Aux}
		b, err := s.MarshalText()
		if err != nil {
			return "encode-error", err.Error()
		}
		var got internal.Status
		if err := got.UnmarshalText(b); err != nil {
			return "refused-in-domain", fmt.Sprintf("%q: %v", b, err)
		}
		wantText := c.Aux
		if wantText == "" {
			wantText = http.StatusText(code)
		}
		if got.Code != code || got.Text != wantText {
			return "altered", fmt.Sprintf("%q -> code %d text %q", b, got.Code, got.Text)
		}
		// and through a multistatus document, read independently
		ms := internal.MultiStatus{Responses: []internal.Response{{Hrefs: []internal.Href{{Path: "/x"}}, Status: &s}}}
		xb, err := xml.Marshal(&ms)
		if err != nil {
			return "encode-error", err.Error()
		}
		if code >= 100 {
			ims, err := indep.ReadMultiStatus(xb)
			if err != nil || len(ims.Responses) != 1 || ims.Responses[0].Status != code {
				return "altered-in-xml", fmt.Sprintf("%s: %v", xb, err)
			}
		}
		var back internal.MultiStatus
		if err := xml.Unmarshal(xb, &back); err != nil || len(back.Responses) != 1 || back.Responses[0].Status == nil || back.Responses[0].Status.Code != code || back.Responses[0].Status.Text != wantText {
			return "altered-in-xml", fmt.Sprintf("%s", xb)
		}
	case "status/reject":
		var s internal.Status
		s.Code = -12345
		if err := s.UnmarshalText([]byte(c.In)); err == nil {
			return "accepted", fmt.Sprintf("UnmarshalText(%q) -> code %d text %q", c.In, s.Code, s.Text)
		}
	case "etag/roundtrip":
		e := internal.ETag(c.In)
		if e.String() != fmt.Sprintf("%q", c.In) && false {
			return "altered", e.String()
		}
		b, _ := e.MarshalText()
		if string(b) != e.String() {
			return "altered", "MarshalText != String"
		}
		var got internal.ETag
		if err := got.UnmarshalText(b); err != nil {
			return "refused-in-domain", fmt.Sprintf("%s: %v", b, err)
		}
		if string(got) != c.In {
			return "altered", fmt.Sprintf("%s -> %q", b, string(got))
		}
		if !isQuotedLoose(e.String()) {
			return "not-quoted", e.String()
		}
		// the same text in a conditional header: an entity tag, never the wildcard, equal to itself only
		cm := webdav.ConditionalMatch(e.String())
		if cm.IsWildcard() || !cm.IsSet() {
			return "header-form-read-as-wildcard", e.String()
		}
		if c.In != "" {
			if ok, err := cm.MatchETag(c.In); err != nil || !ok {
				return "header-form-does-not-match-itself", fmt.Sprintf("MatchETag(%q)=%v,%v", c.In, ok, err)
			}
			if ok, err := cm.MatchETag(c.In + "x"); err != nil || ok {
				return "header-form-matches-another-tag", fmt.Sprintf("%s MatchETag(%q)=%v,%v", e.String(), c.In+"x", ok, err)
			}
		}
		// through XML (getetag)
		xb, err := xml.Marshal(&internal.GetETag{ETag: e})
		if err != nil {
			if strings.ContainsAny(c.In, "\x01\x7f\xff") {
				return "", "" // not representable in XML 1.0 text at all; encoder refusal is correct
			}
			return "encode-error", err.Error()
		}
		var ge internal.GetETag
		if err := xml.Unmarshal(xb, &ge); err != nil || string(ge.ETag) != c.In {
			return "altered-in-xml", fmt.Sprintf("%s -> %q (%v)", xb, string(ge.ETag), err)
		}
	case "etag/reject":
		var got internal.ETag
		if err := got.UnmarshalText([]byte(c.In)); err == nil {
			return "accepted", fmt.Sprintf("UnmarshalText(%s) -> %q", c.In, string(got))
		}
		if _, err := webdav.ConditionalMatch(c.In).ETag(); err == nil {
			return "accepted-by-ConditionalMatch", c.In
		}
		if c.In != "*" && c.In != "" {
			// a value that denotes no entity tag cannot be compared: an error, not a silent "no match"
			if ok, err := webdav.ConditionalMatch(c.In).MatchETag("x"); ok || err == nil {
				return "compared-by-MatchETag", fmt.Sprintf("MatchETag(%q)=%v, %v", "x", ok, err)
			}
		}
	case "time/roundtrip":
		var unix int64
		var off int
		fmt.Sscan(c.In, &unix)
		fmt.Sscan(c.Aux, &off)
		t := time.Unix(unix, 987654321).In(c16Zone(c.Aux, off))
		it := internal.Time(t)
		b, err := it.MarshalText()
		if err != nil {
			return "encode-error", err.Error()
		}
		var got internal.Time
		if err := got.UnmarshalText(b); err != nil {
			return "refused-in-domain", fmt.Sprintf("%s: %v", b, err)
		}
		if time.Time(got).Unix() != unix {
			return "altered", fmt.Sprintf("%s -> %v want %v", b, time.Time(got).UTC(), time.Unix(unix, 0).UTC())
		}
		if !strings.HasSuffix(string(b), " GMT") {
			return "not-http-date", string(b)
		}
		// the same instant through every site at which a server writes a Last-Modified header from a value its
		// backend handed over (GET, HEAD and PUT of the three handlers): the header must be an HTTP date for it
		if cl, d := c16LastModifiedHeaders(t); cl != "" {
			return cl, d
		}
	case "time/accept":
		// the obsolete forms are part of the HTTP-date grammar: a recipient reads all three (RFC 7231 7.1.1.1)
		var want int64
		fmt.Sscan(c.Aux, &want)
		var got internal.Time
		if err := got.UnmarshalText([]byte(c.In)); err != nil {
			return "refused-in-grammar", fmt.Sprintf("UnmarshalText(%q): %v", c.In, err)
		}
		if time.Time(got).Unix() != want {
			return "altered", fmt.Sprintf("UnmarshalText(%q) -> %v want %v", c.In, time.Time(got).UTC(), time.Unix(want, 0).UTC())
		}
	case "time/reject":
		var got internal.Time
		if err := got.UnmarshalText([]byte(c.In)); err == nil {
			return "accepted", fmt.Sprintf("UnmarshalText(%q) -> %v", c.In, time.Time(got).UTC())
		}
	case "href/roundtrip":
		h := internal.Href{Path: c.In}
		b, _ := h.MarshalText()
		var got internal.Href
		if err := got.UnmarshalText(b); err != nil {
			return "refused-in-domain", fmt.Sprintf("%s: %v", b, err)
		}
		if got.Path != c.In {
			return "altered", fmt.Sprintf("%s -> %q", b, got.Path)
		}
		// independent decoding of what was written
		ip, err := indep.HrefPath(string(b))
		if err != nil || ip != c.In {
			return "not-rfc3986", fmt.Sprintf("%s decodes independently to %q (%v)", b, ip, err)
		}
		// through a multistatus
		ms := internal.MultiStatus{Responses: []internal.Response{*internal.NewOKResponse(c.In)}}
		xb, err := xml.Marshal(&ms)
		if err != nil {
			return "encode-error", err.Error()
		}
		var back internal.MultiStatus
		if err := xml.Unmarshal(xb, &back); err != nil || len(back.Responses) != 1 {
			return "altered-in-xml", fmt.Sprint(err)
		}
		if p, err := back.Responses[0].Path(); err != nil || p != c.In {
			return "altered-in-xml", fmt.Sprintf("%s -> %q (%v)", xb, p, err)
		}
	case "href/reject":
		var got internal.Href
		if err := got.UnmarshalText([]byte(c.In)); err == nil {
			return "accepted", fmt.Sprintf("UnmarshalText(%q) -> path %q", c.In, got.Path)
		}
	case "caldate/roundtrip":
		return c16CalDate(c)
	case "caldate/reject":
		b := &harness.CalBackend{Principal: "/u/", HomeSet: "/u/c/"}
		body := `<?xml version="1.0"?><C:calendar-query xmlns:C="urn:ietf:params:xml:ns:caldav" xmlns:D="DAV:"><D:prop><D:getetag/></D:prop><C:filter><C:comp-filter name="VCALENDAR"><C:comp-filter name="VEVENT"><C:time-range ` + c.Aux + `="` + c.In + `"/></C:comp-filter></C:comp-filter></C:filter></C:calendar-query>`
		resp := harness.Serve(&caldav.Handler{Backend: b}, harness.Req{Method: "REPORT", Path: "/u/c/k/", Header: map[string]string{"Content-Type": "application/xml"}, Body: body})
		if resp.Panic != "" {
			return "panic", resp.Panic
		}
		for _, call := range b.Snapshot() {
			if call.Method == "QueryCalendarObjects" {
				q := call.Arg.(caldav.CalendarQuery)
				return "accepted", fmt.Sprintf("%s=%q reached the backend as %v / %v", c.Aux, c.In, q.CompFilter.Comps[0].Start, q.CompFilter.Comps[0].End)
			}
		}
		if resp.Status < 400 || resp.Status > 499 {
			return "not-4xx", fmt.Sprint(resp.Status)
		}
	}
	return "", ""
}

// c16Zone: a fixed offset in seconds, or the name of a zone of the time-zone database (daylight saving rules:
// the offset depends on the instant), taken from the copy embedded in the Go distribution (time/tzdata), not
// from the host
func c16Zone(aux string, off int) *time.Location {
	if aux != "" && (aux[0] < '0' || aux[0] > '9') && aux[0] != '-' {
		loc, err := time.LoadLocation(aux)
		if err != nil {
			panic("c16: zone " + aux + ": " + err.Error())
		}
		return loc
	}
	return time.FixedZone("z", off)
}

func c16LastModifiedHeaders(t time.Time) (string, string) {
	if t.Unix() < 0 || t.Year() > 9999 || t.Unix() == 0 {
		return "", "" // the doubles treat the zero instant as "not set"
	}
	judge := func(site string, resp harness.Resp) (string, string) {
		if resp.Panic != "" {
			return "panic", site + ": " + resp.Panic
		}
		v := resp.Header.Get("Last-Modified")
		if resp.Status/100 != 2 || v == "" {
			return "", "" // no date announced: nothing to judge
		}
		got, err := time.Parse(http.TimeFormat, v)
		if err != nil || got.Unix() != t.Unix() {
			return "last-modified-header-altered", fmt.Sprintf("%s announces %q for the instant %v (%v)", site, v, t.UTC().Format(http.TimeFormat), t)
		}
		return "", ""
	}
	cb := &harness.CalBackend{Principal: "/u/", HomeSet: "/u/c/", Calendars: []caldav.Calendar{{Path: "/u/c/k/"}},
		Objects:   []caldav.CalendarObject{{Path: "/u/c/k/o.ics", ETag: "e", ModTime: t, Data: harness.SampleCalendar("u1", "s")}},
		PutResult: &caldav.CalendarObject{Path: "/u/c/k/o.ics", ETag: "e2", ModTime: t}}
	ch := &caldav.Handler{Backend: cb}
	ab := &harness.CardBackend{Principal: "/u/", HomeSet: "/u/c/", Books: []carddav.AddressBook{{Path: "/u/c/k/"}},
		Objects:   []carddav.AddressObject{{Path: "/u/c/k/o.vcf", ETag: "e", ModTime: t, Card: harness.SampleCard("n")}},
		PutResult: &carddav.AddressObject{Path: "/u/c/k/o.vcf", ETag: "e2", ModTime: t}}
	ah := &carddav.Handler{Backend: ab}
	fs := harness.NewMemFS()
	fs.Add(webdav.FileInfo{Path: "/", IsDir: true}, "")
	fs.Add(webdav.FileInfo{Path: "/f", Size: 4, ModTime: t, ETag: "e"}, "data")
	wh := &webdav.Handler{FileSystem: fs}
	for _, x := range []struct {
		site string
		h    http.Handler
		q    harness.Req
	}{
		{"caldav GET", ch, harness.Req{Method: "GET", Path: "/u/c/k/o.ics"}}, {"caldav HEAD", ch, harness.Req{Method: "HEAD", Path: "/u/c/k/o.ics"}},
		{"caldav PUT", ch, harness.Req{Method: "PUT", Path: "/u/c/k/o.ics", Body: calBody, Header: map[string]string{"Content-Type": "text/calendar"}}},
		{"carddav GET", ah, harness.Req{Method: "GET", Path: "/u/c/k/o.vcf"}}, {"carddav HEAD", ah, harness.Req{Method: "HEAD", Path: "/u/c/k/o.vcf"}},
		{"carddav PUT", ah, harness.Req{Method: "PUT", Path: "/u/c/k/o.vcf", Body: cardBody, Header: map[string]string{"Content-Type": "text/vcard"}}},
		{"webdav GET", wh, harness.Req{Method: "GET", Path: "/f"}}, {"webdav HEAD", wh, harness.Req{Method: "HEAD", Path: "/f"}},
	} {
		if cl, d := judge(x.site, harness.Serve(x.h, x.q)); cl != "" {
			return cl, d
		}
	}
	return "", ""
}

func isQuotedLoose(s string) bool { return len(s) >= 2 && s[0] == '"' && s[len(s)-1] == '"' }

// caldate roundtrip: caller's instant in any zone -> client XML (read independently) -> server -> backend
func c16CalDate(c c16Case) (string, string) {
	var unix int64
	var off int
	fmt.Sscan(c.In, &unix)
	fmt.Sscan(c.Aux, &off)
	t := time.Unix(unix, 0).In(c16Zone(c.Aux, off))
	t2 := t.Add(90 * time.Minute)
	cap := &harness.Capture{}
	cl, err := caldav.NewClient(cap, "http://h/")
	if err != nil {
		return "client", err.Error()
	}
	// every site at which the client writes an instant: component time-range, property time-range, expand
	q := &caldav.CalendarQuery{
		CompRequest: caldav.CalendarCompRequest{Name: "VCALENDAR", AllProps: true, AllComps: true, Expand: &caldav.CalendarExpandRequest{Start: t, End: t2}},
		CompFilter: caldav.CompFilter{Name: "VCALENDAR", Comps: []caldav.CompFilter{{Name: "VEVENT", Start: t, End: t2,
			Props: []caldav.PropFilter{{Name: "DTSTART", Start: t, End: t2}}}}}}
	if _, err := cl.QueryCalendar(context.Background(), "/u/c/k/", q); err != nil {
		return "client", err.Error()
	}
	queryBody := append([]byte(nil), cap.Body...)
	check := func(body []byte, wantRanges, wantExpands int) (string, string) {
		root, err := indep.Parse(body)
		if err != nil {
			return "client-xml", err.Error()
		}
		var found []*indep.Node
		var find func(n *indep.Node)
		find = func(n *indep.Node) {
			if n.Is("urn:ietf:params:xml:ns:caldav", "time-range") || n.Is("urn:ietf:params:xml:ns:caldav", "expand") {
				found = append(found, n)
			}
			for _, ch := range n.Children {
				find(ch)
			}
		}
		find(root)
		nr, ne := 0, 0
		for _, tr := range found {
			if tr.Local == "expand" {
				ne++
			} else {
				nr++
			}
			for _, a := range []struct {
				name string
				want time.Time
			}{{"start", t}, {"end", t2}} {
				v, _ := tr.Attr("", a.name)
				got, err := time.Parse("20060102T150405Z", v)
				if err != nil {
					return "encode-not-rfc5545-utc", fmt.Sprintf("%s %s=%q", tr.Local, a.name, v)
				}
				if got.Unix() != a.want.Unix() {
					return "encode-altered", fmt.Sprintf("%s %s=%q denotes %v, caller meant %v (%v)", tr.Local, a.name, v, got.UTC(), a.want.UTC(), a.want)
				}
			}
		}
		if nr != wantRanges || ne != wantExpands {
			return "client-xml", fmt.Sprintf("%d time-range and %d expand elements, want %d and %d", nr, ne, wantRanges, wantExpands)
		}
		return "", ""
	}
	if cl, d := check(queryBody, 2, 1); cl != "" {
		return cl, d
	}
	// the expansion range of a multiget
	cap.Body = nil
	if _, err := cl.MultiGetCalendar(context.Background(), "/u/c/k/", &caldav.CalendarMultiGet{Paths: []string{"/u/c/k/o.ics"}, CompRequest: q.CompRequest}); err != nil {
		return "client", err.Error()
	}
	if cl, d := check(cap.Body, 0, 1); cl != "" {
		return "multiget-" + cl, d
	}
	cap.Body = queryBody
	// the same bytes into the server
	b := &harness.CalBackend{Principal: "/u/", HomeSet: "/u/c/"}
	resp := harness.Serve(&caldav.Handler{Backend: b}, harness.Req{Method: "REPORT", Path: "/u/c/k/", Header: map[string]string{"Content-Type": "application/xml"}, Body: string(cap.Body)})
	for _, call := range b.Snapshot() {
		if call.Method == "QueryCalendarObjects" {
			cq := call.Arg.(caldav.CalendarQuery)
			if len(cq.CompFilter.Comps) != 1 {
				return "decode-altered", "comp filter lost"
			}
			f := cq.CompFilter.Comps[0]
			if f.Start.Unix() != t.Unix() || f.End.Unix() != t2.Unix() {
				return "decode-altered", fmt.Sprintf("backend got %v..%v want %v..%v", f.Start.UTC(), f.End.UTC(), t.UTC(), t2.UTC())
			}
			if len(f.Props) != 1 || f.Props[0].Start.Unix() != t.Unix() || f.Props[0].End.Unix() != t2.Unix() {
				return "decode-altered", fmt.Sprintf("backend got property ranges %+v want %v..%v", f.Props, t.UTC(), t2.UTC())
			}
			if e := cq.CompRequest.Expand; e == nil || e.Start.Unix() != t.Unix() || e.End.Unix() != t2.Unix() {
				return "decode-altered", fmt.Sprintf("backend got expand %+v want %v..%v", e, t.UTC(), t2.UTC())
			}
			return "", ""
		}
	}
	return "decode-refused", fmt.Sprintf("status %d", resp.Status)
}

// neighbours: every single deletion, insertion and substitution over an alphabet
func editNeighbours(s string, alphabet []string) []string {
	seen := map[string]bool{s: true}
	var out []string
	add := func(x string) {
		if !seen[x] {
			seen[x] = true
			out = append(out, x)
		}
	}
	for i := 0; i < len(s); i++ {
		add(s[:i] + s[i+1:])
		for _, a := range alphabet {
			add(s[:i] + a + s[i+1:])
		}
	}
	for i := 0; i <= len(s); i++ {
		for _, a := range alphabet {
			add(s[:i] + a + s[i:])
		}
	}
	return out
}

// independent grammars for the rejection side -------------------------------------------

func inStatusGrammar(s string) bool {
	// status-line = HTTP-version SP 3DIGIT SP reason-phrase
	parts := strings.SplitN(s, " ", 3)
	if len(parts) != 3 {
		return false
	}
	v := parts[0]
	if !strings.HasPrefix(v, "HTTP/") {
		return false
	}
	mm := strings.SplitN(v[5:], ".", 2)
	if len(mm) != 2 || mm[0] == "" || mm[1] == "" {
		return false
	}
	for _, c := range mm[0] + mm[1] {
		if c < '0' || c > '9' {
			return false
		}
	}
	if len(parts[1]) != 3 {
		return false
	}
	for _, c := range parts[1] {
		if c < '0' || c > '9' {
			return false
		}
	}
	for _, c := range []byte(parts[2]) {
		if c < 0x20 && c != '\t' || c == 0x7f {
			return false
		}
	}
	return true
}

func inCalDateGrammar(s string) bool {
	if len(s) != 16 || s[8] != 'T' || s[15] != 'Z' {
		return false
	}
	for i, c := range s {
		if i == 8 || i == 15 {
			continue
		}
		if c < '0' || c > '9' {
			return false
		}
	}
	_, err := time.Parse("20060102T150405Z", s)
	return err == nil
}

var fractionalSecond = regexp.MustCompile(`[0-9]{2}:[0-9]{2}:[0-9]{2}[.,]`)

// The three HTTP-date forms of RFC 7231 7.1.1.1, transcribed (day and month names are case-sensitive there: they
// are given as octet sequences). The standard library's parser is consulted only for the RANGE of the fields
// (a 32nd of November matches the shape but is no date); the shape is judged here, independently of time.Parse,
// which tolerates one-digit fields and any letter case.
var (
	httpMon     = `(Jan|Feb|Mar|Apr|May|Jun|Jul|Aug|Sep|Oct|Nov|Dec)`
	httpTOD     = `\d{2}:\d{2}:\d{2}`
	imfFixdate  = regexp.MustCompile(`^(Mon|Tue|Wed|Thu|Fri|Sat|Sun), \d{2} ` + httpMon + ` \d{4} ` + httpTOD + ` GMT$`)
	rfc850Date  = regexp.MustCompile(`^(Monday|Tuesday|Wednesday|Thursday|Friday|Saturday|Sunday), \d{2}-` + httpMon + `-\d{2} ` + httpTOD + ` GMT$`)
	asctimeDate = regexp.MustCompile(`^(Mon|Tue|Wed|Thu|Fri|Sat|Sun) ` + httpMon + ` (\d{2}| \d) ` + httpTOD + ` \d{4}$`)
)

func inHTTPDateGrammar(s string) bool {
	if !imfFixdate.MatchString(s) && !rfc850Date.MatchString(s) && !asctimeDate.MatchString(s) {
		return false
	}
	for _, f := range []string{http.TimeFormat, time.RFC850, time.ANSIC} {
		if _, err := time.Parse(f, s); err == nil {
			return true
		}
	}
	return false
}

func c16Cases(full bool) []c16Case {
	var out []c16Case
	add := func(p, d, in, aux string) { out = append(out, c16Case{p, d, in, aux}) }
	// Depth
	for _, d := range []string{"0", "1", "infinity"} {
		add("depth", "roundtrip", d, "")
	}
	rej := []string{"", "Infinity", "INFINITY", "infinity ", " infinity", "01", "1,0", "0, 1", "inf", "-1", "+1", "1.0", "infinit", "infinityy"}
	lv := []string{""}
	for l := 1; l <= 2; l++ {
		var nx []string
		for _, p := range lv {
			for _, a := range []string{"0", "1", "2", "-", " ", "i"} {
				nx = append(nx, p+a)
			}
		}
		rej = append(rej, nx...)
		lv = nx
	}
	for _, s := range rej {
		if s == "0" || s == "1" || s == "infinity" {
			continue
		}
		add("depth", "reject", s, "")
	}
	// Overwrite
	add("overwrite", "roundtrip", "T", "")
	add("overwrite", "roundtrip", "F", "")
	for _, s := range []string{"t", "f", "TT", " T", "T ", "", "true", "false", "1", "0", "TF", "Y", "N"} {
		add("overwrite", "reject", s, "")
	}
	// Status
	reasons := []string{"", "X", "Not Found At All", "é", "a  b", "OK "}
	for code := 100; code <= 999; code++ {
		for ri, rs := range reasons {
			if !full && code%7 != 0 && ri > 1 {
				continue
			}
			add("status", "roundtrip", fmt.Sprint(code), rs)
		}
	}
	for _, s := range editNeighbours("HTTP/1.1 200 OK", []string{" ", "H", "1", ".", "-", "x"}) {
		if !inStatusGrammar(s) {
			add("status", "reject", s, "")
		}
	}
	if full {
		seen := map[string]bool{}
		for _, s1 := range editNeighbours("HTTP/1.1 200 OK", []string{" ", "1", "x"}) {
			for _, s2 := range editNeighbours(s1, []string{" ", "1", "x"}) {
				if !seen[s2] && !inStatusGrammar(s2) {
					seen[s2] = true
					add("status", "reject", s2, "")
				}
			}
		}
	}
	for _, s := range []string{"", "HTTP/1.1 -5 X", "HTTP/1.1 99 X", "HTTP/1.1 1000 X", "HTTP/1.1 99999 X", "HTTP/1.1 2e2 X", "garbage 200 OK", "200 OK", "HTTP/1.1 200", "HTTP/1.1  200 OK", "ICY 200 OK", "HTTP/1.1 +200 OK", "HTTP/1.1 0200 OK", "HTTP/1.1 0x10 OK", "HTTP/1.1 ２００ OK",
		// digits of other scripts in the version
		"HTTP/１.１ 200 OK", "HTTP/1.١ 200 OK", "HTTP/\U0001D7CF.1 200 OK", "HTTP/१.1 200 OK"} {
		if !inStatusGrammar(s) {
			add("status", "reject", s, "")
		}
	}
	// ETag
	maxLen := 2
	if full {
		maxLen = 4
	}
	for _, t := range c04Tags(maxLen) {
		add("etag", "roundtrip", t, "")
	}
	for _, s := range []string{"", "abc", `"abc`, `abc"`, `W/"x"`, `'a'`, "`a`", "`abc`", `"a"b"`, `"\q"`, `"a", "b"`, `"a" `, ` "a"`, `"`, `'`, `''`, `'ab'`, `"\"`, `"a` + "\n" + `"`, `*`, `"\x"`, `"\u12"`} {
		add("etag", "reject", s, "")
	}
	// Time
	instants := []int64{0, 1, 1000000000, 1 << 31, -62135596800, 253402300799, 1582934400, 1583020799, 951782400}
	zones := []int{0, 14 * 3600, -12 * 3600, 5*3600 + 1800, -(3*3600 + 1800), 1}
	for _, u := range instants {
		for _, z := range zones {
			add("time", "roundtrip", fmt.Sprint(u), fmt.Sprint(z))
		}
	}
	// zones with daylight saving rules, at instants within a day of a change of offset (2024)
	for _, zn := range []string{"America/New_York", "Europe/Berlin", "Australia/Lord_Howe", "Asia/Kolkata"} {
		for _, u := range []int64{1710054000, 1710054000 - 3600, 1710054000 + 7200, 1711846800, 1711846800 - 1800, 1729990800, 1729990800 + 3599, 1730613600, 1712417400, 1728142200} {
			add("time", "roundtrip", fmt.Sprint(u), zn)
			add("caldate", "roundtrip", fmt.Sprint(u), zn)
		}
	}
	for _, tx := range []string{"Sun, 06 Nov 1994 08:49:37 GMT", "Sunday, 06-Nov-94 08:49:37 GMT", "Sun Nov  6 08:49:37 1994"} {
		add("time", "accept", tx, "784111777")
	}
	add("time", "accept", "Thu, 01 Jan 1970 00:00:00 GMT", "0")
	add("time", "accept", "Friday, 31-Dec-99 23:59:59 GMT", "946684799")
	add("time", "accept", "Fri Dec 31 23:59:59 1999", "946684799")
	valid := "Sun, 06 Nov 1994 08:49:37 GMT"
	for _, s := range editNeighbours(valid, []string{" ", "0", "9", ":", "G", "x"}) {
		if !inHTTPDateGrammar(s) {
			add("time", "reject", s, "")
		}
	}
	for _, s := range []string{"", "Sun, 06 Nov 1994 08:49:37 UTC", "Sun, 32 Nov 1994 08:49:37 GMT", "Sun, 06 Nov 1994 24:49:37 GMT", "Sun, 06 Nov 1994 08:60:37 GMT", "1994-11-06T08:49:37Z", "784111777", "Sun, 06 Foo 1994 08:49:37 GMT", "Sun, 06 Nov 1994 08:49:37 +0000", "Sun, 06 Nov 1994 08:49:37",
		// a fraction of a second is in neither grammar
		"Sun, 06 Nov 1994 08:49:37.5 GMT", "Sun, 06 Nov 1994 08:49:37,25 GMT", "Sun, 06 Nov 1994 08:49:37.000 GMT",
		// shapes time.Parse tolerates: one-digit fields, other letter case
		"Sun, 06 Nov 1994 8:49:37 GMT", "Sun, 6 Nov 1994 08:49:37 GMT", "Sun, 06 Nov 1994 08:9:37 GMT", "sun, 06 nov 1994 08:49:37 GMT", "SUN, 06 NOV 1994 08:49:37 GMT", "Sun, 06 Nov 1994 08:49:37 gmt",
		"Sunday, 06-Nov-94 8:49:37 GMT", "sunday, 06-nov-94 08:49:37 GMT", "Sun Nov 6 08:49:37 1994", "sun nov  6 08:49:37 1994",
		// the obsolete RFC 850 form with another zone than GMT (the layout of the standard library has a zone field there)
		"Sunday, 06-Nov-94 08:49:37 PST", "Sunday, 06-Nov-94 08:49:37 CEST", "Sunday, 06-Nov-94 08:49:37 GMT+3", "Sunday, 06-Nov-94 08:49:37 UTC", "Sunday, 06-Nov-94 08:49:37 MST"} {
		if !inHTTPDateGrammar(s) {
			add("time", "reject", s, "")
		}
	}
	// dateWithUTCTime end to end
	for _, u := range []int64{0, 1, 1000000000, 1 << 31, 1582934400, 1583020799, 951782400, 253402300799 - 86400} {
		for _, z := range zones {
			add("caldate", "roundtrip", fmt.Sprint(u), fmt.Sprint(z))
		}
	}
	cv := "20200102T030405Z"
	nb := editNeighbours(cv, []string{"0", "9", "T", "Z", "-", " "})
	nb = append(nb, "20200102T030405", "20200102t030405Z", "20201302T030405Z", "20200230T030405Z", "20200102T250405Z", "20200102T036005Z", "2020-01-02T03:04:05Z", "20200102", "", "20200102T030405z", "20200102T030405+0000",
		"20200102T030405.5Z", "20200102T030405,25Z", "20200102T030405.000Z")
	if full {
		seen := map[string]bool{}
		for _, s1 := range editNeighbours(cv, []string{"0", "T", "Z"}) {
			for _, s2 := range editNeighbours(s1, []string{"0", "T", "Z"}) {
				if !seen[s2] {
					seen[s2] = true
					nb = append(nb, s2)
				}
			}
		}
	}
	for _, s := range nb {
		if !inCalDateGrammar(s) {
			add("caldate", "reject", s, "start")
			if full {
				add("caldate", "reject", s, "end")
			}
		}
	}
	// Href
	names := c05Names
	for _, a := range names {
		if a == "" {
			continue
		}
		add("href", "roundtrip", "/"+a, "")
		add("href", "roundtrip", "/"+a+"/", "")
		for _, b := range names {
			add("href", "roundtrip", "/"+a+"/"+b, "")
			if full {
				for _, cc := range names {
					add("href", "roundtrip", "/"+a+"/"+b+"/"+cc, "")
				}
			}
		}
	}
	for _, s := range []string{"%", "/%", "/a%", "/%z", "/%zz", "/a%2", "/a\x01b", "/a\x7fb", "/\x00", "http://[::1", "http://[::1/x", "/a\nb", "http://h:port/x", "%zz://h/"} {
		add("href", "reject", s, "")
	}
	return out
}

// c05Names is the resource-name alphabet shared by C05/C10/C16.
var c05Names = []string{"a", "a b", " a", "a%20b", "100%", "a#b", "a?b", "a;b", "a+b", "a&b<c>", `a"b'c`, "a:b", "é", "日本", "~", ".h", `a\b`, "%2f", "a=b,c", "*", "a.", "..a", "A", "j..doe"}

func c16InputClass(c c16Case) string {
	switch c.Prim {
	case "etag":
		if c.Dir == "roundtrip" {
			return tagClass(c.In)
		}
		switch {
		case strings.HasPrefix(c.In, "'"):
			return "single-quoted"
		case strings.HasPrefix(c.In, "`"):
			return "back-quoted"
		case strings.HasPrefix(c.In, "W/"):
			return "weak"
		case c.In == "":
			return "empty"
		}
		return "other"
	case "status":
		if c.Dir == "roundtrip" {
			if c.Aux == "" {
				return "default-reason"
			}
			return "custom-reason"
		}
		parts := strings.SplitN(c.In, " ", 3)
		switch {
		case c.In == "":
			return "empty"
		case len(parts) != 3:
			return "field-count"
		case !inStatusGrammar(parts[0] + " 200 OK"):
			return "protocol-token-garbage"
		case len(parts[1]) != 3:
			return "code-not-3-digits"
		default:
			return "code-not-numeric"
		}
		return "field-count"
	case "href":
		if c.Dir == "roundtrip" {
			return c03PathClass(c.In) + ".segments=" + fmt.Sprint(strings.Count(strings.TrimSuffix(c.In, "/"), "/"))
		}
	case "time", "caldate":
		if c.Dir == "roundtrip" {
			if c.Aux == "0" {
				return "utc"
			}
			return "non-utc-zone"
		}
		if c.Prim == "time" {
			// what is wrong with the text, so that distinct leniencies get distinct signatures
			if c.In == "" {
				return "empty"
			}
			// apply the three repairs in turn; if the result is in the grammar the class names those that changed the text
			var feats []string
			cur := c.In
			for _, rp := range []struct {
				name string
				f    func(string) string
			}{{"repeated-blank", func(x string) string {
				if asctimeDate.MatchString(x) {
					return x // the blank-padded day of the asctime form is part of the grammar
				}
				return strings.Join(strings.Fields(x), " ")
			}}, {"one-digit-field", func(x string) string { return oneDigitField.ReplaceAllString(x, "${1}0${2}${3}") }}, {"letter-case", httpDateCase}} {
				if n := rp.f(cur); n != cur {
					feats = append(feats, rp.name)
					cur = n
				}
			}
			if len(feats) > 0 && inHTTPDateGrammar(cur) {
				// one root cause (time.Parse tolerates these spellings), one class
				return "in-grammar-after-repairing-blanks-digits-or-letter-case"
			}
		}
		return "near-miss"
	}
	return "any"
}

// a time or day-of-month field written with one digit where the grammar wants two
var oneDigitField = regexp.MustCompile(`(^|[ ,:-])(\d)([ :-]|$)`)

// httpDateCase re-spells day names, month names and the zone in the letter case of the grammar.
func httpDateCase(s string) string {
	words := strings.FieldsFunc(s, func(r rune) bool { return !(r >= 'a' && r <= 'z' || r >= 'A' && r <= 'Z') })
	for _, w := range words {
		c := strings.ToUpper(w[:1]) + strings.ToLower(w[1:])
		if strings.EqualFold(w, "GMT") {
			c = "GMT"
		}
		s = strings.Replace(s, w, c, 1)
	}
	return s
}

func init() {
	register("C16", func(r *engine.Run) {
		cases := c16Cases(thorough(r))
		r.Rule = "round-trip side: every Depth/Overwrite value, every status code 100..999 x 6 reason phrases (quick: all codes x 2 + every 7th x 6), every entity tag of length <=2 (quick) / <=3 (thorough) over 9 bytes incl. quotes, backslash, control and non-UTF-8 bytes, 9 instants x 6 zones for HTTP dates and for iCalendar UTC date-times (the latter end to end: client API -> XML read independently -> server -> backend), hrefs of 1..2 (thorough 3) segments over 20 special names; rejection side: every single-edit neighbour (deletion, insertion, substitution over a 6-symbol alphabet) of one valid text per primitive that an independent RFC grammar rejects, plus listed near-misses; non-trivial = every case (each is a distinct input); distinct by (primitive, direction, input)"
		r.Explanation = "decode(encode(x)) = x on the enumerated domain; on the rejection set the decoder must return an error: acceptance is a violation whatever value results (texts that an independent reading of the RFC grammar accepts are not in the rejection set)"
		r.Assumptions = []string{"case variants of 'infinity'/'T'/'F' read as the value they denote are tolerated (refusing an in-grammar text is what the sentence forbids, not this)", "a wrong weekday in an HTTP-date is syntactically in-grammar and not judged"}
		r.Parallel(len(cases), func(i int, s *engine.Shard) {
			c := cases[i]
			s.Transition()
			class, detail := c16Eval(c)
			s.Clause(c.Prim + "/" + c.Dir)
			s.Outcome(c.Prim + "/" + c.Dir + "/" + class)
			s.Nontrivial(js(c))
			if i%997 == 13 {
				s.Sample(c)
			}
			if class != "" {
				s.Violate(engine.Violation{Sig: fmt.Sprintf("C16/%s/%s/%s/%s", c.Dir, c.Prim, c16InputClass(c), class), Clause: c.Dir, Index: int64(i), Kind: "C16", Case: c,
					Expected: map[string]string{"roundtrip": "decode(encode(x)) == x", "reject": "decoder returns an error"}[c.Dir], Observed: detail})
			}
		})
		// history independence: the codecs are functions of their input alone. For every primitive and
		// direction, every ORDERED PAIR of up to 60 of its cases is evaluated back to back in one goroutine;
		// the second evaluation must still hold (a value remembered from an earlier call would show).
		groups := map[string][]c16Case{}
		var gorder []string
		for _, c := range cases {
			k := c.Prim + "/" + c.Dir
			if _, ok := groups[k]; !ok {
				gorder = append(gorder, k)
			}
			groups[k] = append(groups[k], c)
		}
		r.Parallel(len(gorder), func(gi int, s *engine.Shard) {
			g := groups[gorder[gi]]
			var sel []c16Case
			if len(g) <= 60 {
				sel = g
			} else {
				sel = append(sel, g[:30]...)
				for k := 0; k < 30; k++ {
					sel = append(sel, g[30+k*(len(g)-30)/30])
				}
			}
			// what each case yields on its own (a case that fails alone is the business of the main part - and of
			// KNOWN_FINDINGS.json - not a history effect)
			alone := make([]string, len(sel))
			for i, c := range sel {
				alone[i], _ = c16Eval(c)
			}
			for ai, a := range sel {
				for bi, b := range sel {
					c16Eval(a)
					class, detail := c16Eval(b)
					if class == alone[bi] {
						class = ""
					}
					s.Transition()
					s.Transition()
					s.Clause("history independence: " + gorder[gi])
					s.Nontrivial(fmt.Sprintf("H/%s/%d/%d", gorder[gi], ai, bi))
					if class != "" {
						s.Violate(engine.Violation{Sig: fmt.Sprintf("C16/history/%s/%s", gorder[gi], class), Clause: "history", Index: int64(1)<<40 + int64(gi)<<20 + int64(ai)<<10 + int64(bi), Kind: "C16-history",
							Case: map[string]interface{}{"First": a, "Second": b}, Expected: "the second evaluation holds like when it is the only one", Observed: detail})
					}
				}
			}
		})
	})
	registerReplay("C16-history", func(raw json.RawMessage) (bool, string) {
		var c struct{ First, Second c16Case }
		if err := json.Unmarshal(raw, &c); err != nil {
			return false, err.Error()
		}
		alone, _ := c16Eval(c.Second)
		c16Eval(c.First)
		class, detail := c16Eval(c.Second)
		return class == alone, class + " " + detail + " (alone: " + alone + ")"
	})
	registerReplay("C16", func(raw json.RawMessage) (bool, string) {
		var c c16Case
		if err := json.Unmarshal(raw, &c); err != nil {
			return false, err.Error()
		}
		class, detail := c16Eval(c)
		return class == "", class + " " + detail
	})
}
