package checks

import (
	"encoding/json"
	"fmt"
	"os"
	"strings"
	"syscall"

	"github.com/emersion/go-webdav/verifmc/engine"
	"github.com/emersion/go-webdav/verifmc/harness"
	"github.com/emersion/go-webdav/verifmc/vos"
)

// C17 part 3 — OS-failure enumeration. Only effective in the binary built with the overlay that
// routes fs_local.go's os.* calls through package vos (bin/check builds it for C17).

var c17Errnos = []syscall.Errno{syscall.ENOENT, syscall.EEXIST, syscall.EISDIR, syscall.ENOTDIR, syscall.EACCES, syscall.EXDEV, syscall.ENOSPC, syscall.EIO}

var errnoName = map[syscall.Errno]string{syscall.ENOENT: "ENOENT", syscall.EEXIST: "EEXIST", syscall.EISDIR: "EISDIR", syscall.ENOTDIR: "ENOTDIR", syscall.EACCES: "EACCES", syscall.EXDEV: "EXDEV", syscall.ENOSPC: "ENOSPC", syscall.EIO: "EIO"}

type c17FaultCase struct {
	State   harness.Tree `json:"state"`
	Req     harness.Req  `json:"request"`
	FailAt  int          `json:"fail_at"`
	FailAt2 int          `json:"fail_at_2"`
	Errno   int          `json:"errno"`
}

func c17FaultStates() []harness.Tree {
	return []harness.Tree{
		{"/": {Dir: true}},
		{"/": {Dir: true}, "/a": {Dir: true}, "/a/a": {Dir: true}, "/a/a/a": {Content: "x"}, "/a/b.html": {Content: "x"}, "/b.html": {Content: "yy"}},
		{"/": {Dir: true}, "/a": {Content: "x"}, "/b.html": {Dir: true}, "/b.html/a": {Content: "yy"}},
		{"/": {Dir: true}, "/a": {Dir: true}, "/b.html": {Content: "x"}},
	}
}

func c17FaultRequests() []harness.Req {
	var out []harness.Req
	paths := []string{"/a", "/b.html", "/a/b.html", "/a/a", "/missing", "/b.html/a"}
	for _, p := range paths {
		for _, m := range []string{"OPTIONS", "GET", "HEAD", "DELETE", "MKCOL"} {
			out = append(out, harness.Req{Method: m, Path: p})
		}
		out = append(out, harness.Req{Method: "PUT", Path: p, Body: "new-content"})
		out = append(out, harness.Req{Method: "PROPFIND", Path: p, Header: map[string]string{"Depth": "infinity"}})
		out = append(out, harness.Req{Method: "PROPFIND", Path: p, Header: map[string]string{"Depth": "0"}})
		for _, q := range paths {
			for _, m := range []string{"COPY", "MOVE"} {
				for _, ow := range []string{"T", "F"} {
					out = append(out, harness.Req{Method: m, Path: p, Header: map[string]string{"Destination": q, "Overwrite": ow}})
				}
			}
		}
	}
	return out
}

func overlayActive() bool {
	w := newFSWorker()
	defer w.close()
	before := vos.Hits
	w.load(harness.Tree{"/": {Dir: true}, "/f": {Content: "x"}})
	harness.Serve(w.handler, harness.Req{Method: "GET", Path: "/f"})
	return vos.Hits > before
}

// c17RunFault executes one (state, request, fault) and returns the response and what failed.
func c17RunFault(w *fsWorker, q harness.Req, failAt, failAt2 int, errno syscall.Errno) (harness.Resp, *vos.Plan) {
	p := &vos.Plan{Root: w.root, FailAt: failAt, FailAt2: failAt2, Errno: errno}
	vos.Install(p)
	resp, _, _ := w.step(q)
	vos.Remove(w.root)
	return resp, p
}

func c17FaultsRun(r *engine.Run, quick bool) {
	if !overlayActive() {
		if os.Getenv("VERIF_REQUIRE_OVERLAY") != "" {
			fmt.Fprintln(os.Stderr, "C17: the OS-fault overlay is not active in this binary (tool error)")
			os.Exit(2)
		}
		r.Extra["os_fault_part"] = "skipped: this binary was built without the vos overlay"
		return
	}
	states, reqs := c17FaultStates(), c17FaultRequests()
	r.Extra["os_fault_states"] = len(states)
	r.Extra["os_fault_requests"] = len(reqs)
	workers := make(chan *fsWorker, 64)
	r.Parallel(len(states)*len(reqs), func(i int, s *engine.Shard) {
		si, ri := i/len(reqs), i%len(reqs)
		var w *fsWorker
		select {
		case w = <-workers:
		default:
			w = newFSWorker()
		}
		defer func() { workers <- w }()
		w.load(states[si])
		q := reqs[ri]
		_, plan := c17RunFault(w, q, -1, -1, 0)
		n := plan.Calls()
		s.Add("os calls counted", int64(n))
		type fp struct{ k1, k2 int }
		var faults []fp
		for k := 0; k < n; k++ {
			faults = append(faults, fp{k, -1})
		}
		if !quick && (q.Method == "COPY" || q.Method == "MOVE") {
			for k1 := 0; k1 < n; k1++ {
				for k2 := k1 + 1; k2 < n+2; k2++ {
					faults = append(faults, fp{k1, k2})
				}
			}
		}
		for _, f := range faults {
			for _, e := range c17Errnos {
				resp, p := c17RunFault(w, q, f.k1, f.k2, e)
				s.Transition()
				s.Count("os-fault executions")
				s.Clause("injected OS failure: response must not contain the host path")
				failed := strings.Join(p.Failed, "+")
				s.Outcome(fmt.Sprintf("osfault/%s/%s/%d", q.Method, failed, resp.Status))
				s.Nontrivial(fmt.Sprintf("F/%d/%d/%d/%d/%d", si, ri, f.k1, f.k2, e))
				if i%97 == 5 && f.k1 == 1 && e == syscall.EXDEV {
					s.Sample(map[string]interface{}{"state": states[si].Canon(), "request": q.String(), "failed_os_call": failed, "errno": errnoName[e], "status": resp.Status, "body": trunc(string(resp.Body), 100)})
				}
				if resp.Panic != "" {
					s.Violate(engine.Violation{Sig: fmt.Sprintf("C17/panic-osfault/%s/%s.%s", q.Method, failed, errnoName[e]), Clause: "panic", Index: 1<<55 + int64(i)<<16 + int64(f.k1)<<8 + int64(e), Kind: "C17-fault",
						Case: c17FaultCase{states[si], q, f.k1, f.k2, int(e)}, Expected: "no panic", Observed: resp.Panic})
					continue
				}
				if l := leakIn(resp, w.root, w.rootReal); l != "" {
					s.Violate(engine.Violation{Sig: fmt.Sprintf("C17/leak-osfault/%s/%s.%s/status=%d", q.Method, failed, errnoName[e], resp.Status), Clause: "leak", Index: 1<<55 + int64(i)<<16 + int64(f.k1)<<8 + int64(e), Kind: "C17-fault",
						Case: c17FaultCase{states[si], q, f.k1, f.k2, int(e)}, Expected: "no host path in the response", Observed: fmt.Sprintf("status %d: %s; body=%q", resp.Status, l, trunc(string(resp.Body), 200))})
				}
			}
		}
	})
	close(workers)
	for w := range workers {
		w.close()
	}
}

func init() {
	c17FaultsImpl = c17FaultsRun
	registerReplay("C17-fault", func(raw json.RawMessage) (bool, string) {
		var c c17FaultCase
		if err := json.Unmarshal(raw, &c); err != nil {
			return false, err.Error()
		}
		if !overlayActive() {
			return false, "this binary was built without the vos overlay: use bin/replay (it picks the overlay binary for C17)"
		}
		defer harness.Cleanup()
		w := newFSWorker()
		defer w.close()
		w.load(c.State)
		resp, p := c17RunFault(w, c.Req, c.FailAt, c.FailAt2, syscall.Errno(c.Errno))
		l := leakIn(resp, w.root, w.rootReal)
		return l == "" && resp.Panic == "", fmt.Sprintf("failed os call %v; status %d %s body=%q", p.Failed, resp.Status, l, trunc(string(resp.Body), 200))
	})
}

var c17FaultsImpl func(r *engine.Run, quick bool)

func c17Faults(r *engine.Run, quick bool) {
	if c17FaultsImpl != nil {
		c17FaultsImpl(r, quick)
	}
}
