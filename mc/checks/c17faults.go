package checks

import "github.com/emersion/go-webdav/verifmc/engine"

// c17Faults: OS-failure enumeration (implemented through a build overlay; see osfault.go).
var c17FaultsImpl func(r *engine.Run, quick bool)

func c17Faults(r *engine.Run, quick bool) {
	if c17FaultsImpl != nil {
		c17FaultsImpl(r, quick)
	}
}
