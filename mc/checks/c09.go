package checks

import (
	"context"
	"encoding/json"
	"fmt"
	"strconv"
	"strings"

	"github.com/emersion/go-webdav/carddav"
	"github.com/emersion/go-webdav/verifmc/engine"
	"github.com/emersion/go-webdav/verifmc/harness"
	"github.com/emersion/go-webdav/verifmc/indep"
)

// C09 — CardDAV queries cross the wire in RFC 6352 form, without loss.

func normTest(t string) string {
	if t == "" {
		return "anyof"
	}
	return t
}

func normMT(t string) string {
	if t == "" {
		return "contains"
	}
	return t
}

// rCardQuery: the (normalised) denotation of an API query
func rCardQuery(q *carddav.AddressBookQuery) indep.RCardReport {
	r := indep.RCardReport{Root: "addressbook-query", PropForm: "prop", HasFilter: true, Test: normTest(string(q.FilterTest)), AddrData: rAddrData(q.DataRequest)}
	for _, pf := range q.PropFilters {
		r.Filters = append(r.Filters, rCardPropFilter(pf))
	}
	if q.Limit > 0 {
		r.HasLimit, r.NResults = true, uint64(q.Limit)
	}
	return r
}

func rAddrData(d carddav.AddressDataRequest) *indep.RAddrData {
	if d.AllProp || len(d.Props) == 0 {
		return &indep.RAddrData{AllProp: true}
	}
	return &indep.RAddrData{Props: d.Props}
}

func rCardPropFilter(pf carddav.PropFilter) indep.RPropFilter {
	out := indep.RPropFilter{Name: pf.Name, Test: normTest(string(pf.Test)), IsNotDefined: pf.IsNotDefined}
	for _, tm := range pf.TextMatches {
		out.TextMatches = append(out.TextMatches, indep.RTextMatch{Text: tm.Text, Negate: tm.NegateCondition, MatchType: normMT(string(tm.MatchType))})
	}
	for _, pa := range pf.Params {
		x := indep.RParamFilter{Name: pa.Name, IsNotDefined: pa.IsNotDefined}
		if pa.TextMatch != nil {
			x.TextMatch = &indep.RTextMatch{Text: pa.TextMatch.Text, Negate: pa.TextMatch.NegateCondition, MatchType: normMT(string(pa.TextMatch.MatchType))}
		}
		out.Params = append(out.Params, x)
	}
	return out
}

func normCardReport(r *indep.RCardReport) {
	r.Other = nil
	if r.HasFilter {
		r.Test = normTest(r.Test)
	}
	for i := range r.Filters {
		f := &r.Filters[i]
		f.Test = normTest(f.Test)
		for j := range f.TextMatches {
			f.TextMatches[j].MatchType = normMT(f.TextMatches[j].MatchType)
		}
		for j := range f.Params {
			if f.Params[j].TextMatch != nil {
				f.Params[j].TextMatch.MatchType = normMT(f.Params[j].TextMatch.MatchType)
			}
		}
	}
	if r.AddrData == nil || (!r.AddrData.AllProp && len(r.AddrData.Props) == 0) {
		r.AddrData = &indep.RAddrData{AllProp: true}
	}
}

func c09TextMatches() []carddav.TextMatch {
	var out []carddav.TextMatch
	for _, mt := range []carddav.MatchType{"", carddav.MatchEquals, carddav.MatchContains, carddav.MatchStartsWith, carddav.MatchEndsWith} {
		for _, neg := range []bool{false, true} {
			for _, t := range c08Texts {
				out = append(out, carddav.TextMatch{Text: t, MatchType: mt, NegateCondition: neg})
			}
		}
	}
	return out
}

func c09PropFilters(full bool) []carddav.PropFilter {
	var out []carddav.PropFilter
	tms := c09TextMatches()
	params := [][]carddav.ParamFilter{nil, {{Name: "TYPE", IsNotDefined: true}}, {{Name: "X-é"}}, {{Name: "TYPE", TextMatch: &tms[7]}}, {{Name: "A", TextMatch: &tms[33]}, {Name: "B", IsNotDefined: true}},
		// an empty match text still is a text-match (with its match type and negate-condition)
		{{Name: "TYPE", TextMatch: &carddav.TextMatch{Text: "", MatchType: carddav.MatchEquals, NegateCondition: true}}}, {{Name: "TYPE", TextMatch: &carddav.TextMatch{Text: ""}}}}
	for _, n := range []string{"FN", "X-é"} {
		out = append(out, carddav.PropFilter{Name: n, IsNotDefined: true}, carddav.PropFilter{Name: n, Test: carddav.FilterAllOf, IsNotDefined: true})
		for _, t := range []carddav.FilterTest{"", carddav.FilterAnyOf, carddav.FilterAllOf} {
			for _, pa := range params {
				out = append(out, carddav.PropFilter{Name: n, Test: t, Params: pa})
			}
			for ti, tm := range tms {
				out = append(out, carddav.PropFilter{Name: n, Test: t, TextMatches: []carddav.TextMatch{tm}})
				if full || ti%5 == 0 {
					out = append(out, carddav.PropFilter{Name: n, Test: t, TextMatches: []carddav.TextMatch{tm}, Params: params[1+ti%6]})
				}
			}
			step := 7
			if full {
				step = 3
			}
			for i := 0; i < len(tms); i += step {
				for j := 1; j < len(tms); j += step + 2 {
					out = append(out, carddav.PropFilter{Name: n, Test: t, TextMatches: []carddav.TextMatch{tms[i], tms[j]}})
				}
			}
		}
	}
	return out
}

type c09ACase struct {
	Kind  string                       `json:"kind"`
	Query *carddav.AddressBookQuery    `json:"query,omitempty"`
	Multi *carddav.AddressBookMultiGet `json:"multiget,omitempty"`
	Path  string                       `json:"path"`
}

func c09Expressible(q *carddav.AddressBookQuery) bool {
	for _, pf := range q.PropFilters {
		if pf.IsNotDefined && (len(pf.TextMatches) > 0 || len(pf.Params) > 0) {
			return false
		}
		for _, pa := range pf.Params {
			if pa.IsNotDefined && pa.TextMatch != nil {
				return false
			}
		}
	}
	return true
}

func c09JudgeA(c c09ACase) (clause, detail string) {
	defer func() {
		if p := recover(); p != nil {
			clause, detail = "panic", fmt.Sprint(p)
		}
	}()
	cap := &harness.Capture{}
	cl, err := carddav.NewClient(cap, "http://h/")
	if err != nil {
		return "client", err.Error()
	}
	// what the caller expresses is fixed BEFORE the call; the call must not change the caller's value
	var want indep.RCardReport
	if c.Kind == "query" {
		before := js(c.Query)
		want = rCardQuery(c.Query)
		wantJS := js(&want)
		_, err = cl.QueryAddressBook(context.Background(), c.Path, c.Query)
		if after := js(c.Query); after != before {
			return "caller-value-modified", fmt.Sprintf("AddressBookQuery before %s after %s", before, after)
		}
		if js(&want) != wantJS {
			return "caller-value-modified", "the reference denotation computed before the call changed (aliased slices)"
		}
	} else {
		before := js(c.Multi)
		want = indep.RCardReport{Root: "addressbook-multiget", PropForm: "prop", AddrData: rAddrData(c.Multi.DataRequest), Hrefs: append([]string(nil), c.Multi.Paths...)}
		if len(c.Multi.Paths) == 0 {
			want.Hrefs = []string{c.Path}
		}
		_, err = cl.MultiGetAddressBook(context.Background(), c.Path, c.Multi)
		if after := js(c.Multi); after != before {
			return "caller-value-modified", fmt.Sprintf("AddressBookMultiGet before %s after %s", before, after)
		}
	}
	if err != nil {
		return "client-error", err.Error()
	}
	if cap.Method != "REPORT" {
		return "method", cap.Method
	}
	got, err := indep.ReadCardReport(cap.Body)
	if err != nil {
		return "not-rfc6352", fmt.Sprintf("%v in %s", err, trunc(string(cap.Body), 400))
	}
	normCardReport(got)
	if a, b := js(got), js(&want); a != b {
		return "altered", fmt.Sprintf("wire denotes %s; caller meant %s", a, b)
	}
	return "", ""
}

type c09BCase struct {
	Ref        indep.RCardReport `json:"reference"`
	Style      indep.Style       `json:"style"`
	ExplicitNo bool              `json:"explicit_negate_no"`
	// Corrupt: replace Old by New in the rendered document (invalid enumeration values)
	Old, New string
}

func c09JudgeB(c c09BCase) (clause, detail string) {
	chunked, mount := bVariant(&c.Ref)
	pfx, hprefix := "", ""
	if mount {
		pfx, hprefix = "/dav", "/dav/"
		c.Ref.Hrefs = prefixAll(c.Ref.Hrefs, pfx)
	}
	body := string(indep.Render(indep.CardReportEl(&c.Ref, c.ExplicitNo), c.Style))
	if c.Old != "" {
		if !strings.Contains(body, c.Old) {
			return "", "" // corruption not applicable to this document
		}
		body = strings.Replace(body, c.Old, c.New, 1)
	} else if chk, err := indep.ReadCardReport([]byte(body)); err != nil {
		return "generator-bug", err.Error() + ": " + body
	} else {
		chk.Other = nil
		ref := c.Ref
		if js(chk) != js(&ref) {
			return "generator-bug", fmt.Sprintf("writer/reader disagree: %s vs %s", js(chk), js(&ref))
		}
	}
	l := c12LayoutFor(pfx)
	b := &harness.CardBackend{Principal: l.Principal, HomeSet: l.HomeSet, Books: []carddav.AddressBook{{Path: l.Coll1}},
		Objects: []carddav.AddressObject{{Path: pfx + "/u/c/k1/o1.vcf", ETag: "e", Card: harness.SampleCard("s")}}}
	resp := harness.Serve(&carddav.Handler{Backend: b, Prefix: hprefix}, harness.Req{Method: "REPORT", Path: l.Coll1, Chunked: chunked, Header: map[string]string{"Content-Type": xmlContentTypes[len(body)%len(xmlContentTypes)], "Depth": "1"}, Body: body})
	if resp.Panic != "" {
		return "panic", resp.Panic
	}
	calls := b.Snapshot()
	if c.Old != "" {
		for _, cl := range calls {
			if strings.HasPrefix(cl.Method, "Query") || strings.HasPrefix(cl.Method, "GetAddressObject") {
				return "invalid-enumeration-reached-backend", fmt.Sprintf("%s -> %s: %v", c.Old, c.New, cl)
			}
		}
		if resp.Status < 400 || resp.Status > 499 {
			return "invalid-enumeration-not-4xx", fmt.Sprintf("%s -> %s: status %d", c.Old, c.New, resp.Status)
		}
		return "", ""
	}
	if resp.Status != 207 {
		return "conformant-request-refused", fmt.Sprintf("status %d %s", resp.Status, trunc(string(resp.Body), 160))
	}
	want := c.Ref
	normCardReport(&want)
	if c.Ref.Root == "addressbook-query" {
		if c.Ref.HasLimit && c.Ref.NResults == 0 {
			return "", "" // limit 0 => nothing, answered without consulting the backend: accepted
		}
		var q *carddav.AddressBookQuery
		for _, cl := range calls {
			if cl.Method == "QueryAddressObjects" {
				v := cl.Arg.(carddav.AddressBookQuery)
				q = &v
				if cl.Path != l.Coll1 {
					return "path", cl.Path
				}
			}
		}
		if q == nil {
			return "backend-not-reached", fmt.Sprint(calls)
		}
		got := rCardQuery(q)
		if c.Ref.PropForm != "prop" {
			got.AddrData, want.AddrData = nil, nil
			got.PropForm = want.PropForm
		}
		if a, w := js(&got), js(&want); a != w {
			return "query-altered", fmt.Sprintf("backend got %s; document denotes %s", a, w)
		}
		return "", ""
	}
	var paths []string
	for _, cl := range calls {
		if cl.Method == "GetAddressObject" {
			paths = append(paths, cl.Path)
			if dr, ok := cl.Arg.(carddav.AddressDataRequest); ok && c.Ref.PropForm == "prop" {
				if a, w := js(rAddrData(dr)), js(want.AddrData); a != w {
					return "selection-altered", fmt.Sprintf("backend got %s; document denotes %s", a, w)
				}
			}
		}
	}
	if js(paths) != js(c.Ref.Hrefs) {
		return "hrefs-altered", fmt.Sprintf("backend asked for %v; document lists %v", paths, c.Ref.Hrefs)
	}
	return "", ""
}

func init() {
	register("C09", func(r *engine.Run) {
		full := thorough(r)
		pfs := c09PropFilters(full)
		drs := []carddav.AddressDataRequest{{}, {AllProp: true}, {Props: []string{"FN"}}, {Props: []string{"FN", "X-é"}}, {AllProp: true, Props: []string{"FN"}}}
		limits := []int{-1, 0, 1, 7}
		if strconv.IntSize == 64 {
			big := int64(1) << 32
			limits = append(limits, int(big), int(big+5), int(big*3+2))
		}
		var acases []c09ACase
		k := 0
		for _, t := range []carddav.FilterTest{"", carddav.FilterAnyOf, carddav.FilterAllOf} {
			acases = append(acases, c09ACase{Kind: "query", Query: &carddav.AddressBookQuery{FilterTest: t}, Path: "/u/c/k1/"})
			for _, pf := range pfs {
				k++
				acases = append(acases, c09ACase{Kind: "query", Query: &carddav.AddressBookQuery{FilterTest: t, PropFilters: []carddav.PropFilter{pf}, DataRequest: drs[k%len(drs)], Limit: limits[(k/4)%len(limits)]}, Path: "/u/c/k1/"})
			}
			for i := 0; i < len(pfs); i += 11 {
				for j := 3; j < len(pfs); j += 29 {
					k++
					acases = append(acases, c09ACase{Kind: "query", Query: &carddav.AddressBookQuery{FilterTest: t, PropFilters: []carddav.PropFilter{pfs[i], pfs[j]}, DataRequest: drs[k%len(drs)], Limit: limits[(k/4)%len(limits)]}, Path: "/u/c/k1/"})
				}
			}
		}
		for _, dr := range drs {
			for _, lim := range limits {
				acases = append(acases, c09ACase{Kind: "query", Query: &carddav.AddressBookQuery{PropFilters: []carddav.PropFilter{pfs[3]}, DataRequest: dr, Limit: lim}, Path: "/u/c/k1/"})
			}
		}
		var pathLists [][]string
		pathLists = append(pathLists, nil)
		for _, a := range c05Names {
			pathLists = append(pathLists, []string{"/u/c/k1/" + a})
			for _, b := range c05Names[:6] {
				pathLists = append(pathLists, []string{"/u/c/k1/" + a, "/u/c/k1/" + b})
			}
		}
		pathLists = append(pathLists, []string{"/u/c/k1/c", "/u/c/k1/a", "/u/c/k1/b"})
		for pi, pl := range pathLists {
			acases = append(acases, c09ACase{Kind: "multiget", Multi: &carddav.AddressBookMultiGet{Paths: pl, DataRequest: drs[pi%4]}, Path: "/u/c/k1/"})
		}
		r.Rule = fmt.Sprintf("direction A: %d AddressBookQuery/AddressBookMultiGet values (outer test {'',anyof,allof} x 0..2 prop-filters over inner test x is-not-defined x 0..2 text-matches [4 texts incl. blanks/metacharacters/empty x 5 match types incl. '' x negate] x param-filters {none,is-not-defined,bare,text-match,two}; Limit {-1,0,1,7}; DataRequest {zero,AllProp,[FN],[FN,X-é]}; href lists over 20 special names); direction B: the same space as reference documents from an independent writer in rotating lexical styles (all 24 styles on a sample; thorough: all), plus every invalid enumeration value (test, match-type, negate-condition, nresults) which must be refused 4xx without a backend call; non-trivial = every case", len(acases))
		r.Explanation = "client XML must parse under the independent RFC 6352 grammar and denote the caller's query (absent test/match-type = anyof/contains); the recorded backend argument must equal what a conformant document denotes"
		r.Assumptions = []string{"an AddressDataRequest with neither AllProp nor Props denotes the whole card, like allprop", "values the client API itself refuses to encode (is-not-defined with text-matches/params) are not expressible and only checked for a clean error"}
		r.Parallel(len(acases), func(i int, s *engine.Shard) {
			c := acases[i]
			s.Transition()
			if c.Kind == "query" && !c09Expressible(c.Query) {
				return
			}
			clause, detail := c09JudgeA(c)
			s.Clause("A: client XML is RFC 6352 and denotes the caller's value")
			s.Outcome("A/" + c.Kind + "/" + clause)
			s.Nontrivial(fmt.Sprintf("A/%d", i))
			if i%1501 == 50 {
				s.Sample(map[string]interface{}{"direction": "A", "case": c})
			}
			if clause != "" {
				cls := c.Kind
				if clause == "altered" {
					parts := strings.SplitN(detail, "; caller meant ", 2)
					cls += ".differs-in=" + c08Diff(strings.TrimPrefix(parts[0], "wire denotes "), parts[1])
				} else if clause == "not-rfc6352" {
					cls += "." + trunc(strings.SplitN(strings.TrimPrefix(detail, "indep: "), " in <", 2)[0], 90)
				}
				s.Violate(engine.Violation{Sig: "C09/client/" + clause + "/" + cls, Clause: clause, Index: int64(i), Kind: "C09-A", Case: c, Expected: "RFC 6352 document denoting the caller's request", Observed: detail})
			}
		})
		styles := indep.AllStyles()
		var bcases []c09BCase
		n := 0
		corrupt := [][2]string{{`test="allof"`, `test="bogus"`}, {`test="anyof"`, `test=""`}, {`match-type="equals"`, `match-type="bogus"`}, {`match-type="starts-with"`, `match-type="Starts-With"`},
			{`negate-condition="yes"`, `negate-condition="maybe"`}, {`negate-condition="no"`, `negate-condition="NO"`}, {`nresults>7<`, `nresults>-1<`}, {`nresults>1<`, `nresults>x<`}}
		for _, ac := range acases {
			var ref indep.RCardReport
			if ac.Kind == "query" {
				if !c09Expressible(ac.Query) {
					continue
				}
				ref = c09RefOf(ac.Query)
			} else {
				if len(ac.Multi.Paths) == 0 {
					continue
				}
				ref = indep.RCardReport{Root: "addressbook-multiget", PropForm: "prop", AddrData: c09AddrRef(ac.Multi.DataRequest), Hrefs: ac.Multi.Paths}
			}
			n++
			if full || n%61 == 0 {
				for _, st := range styles {
					bcases = append(bcases, c09BCase{Ref: ref, Style: st, ExplicitNo: st.Indent})
				}
			} else {
				bcases = append(bcases, c09BCase{Ref: ref, Style: styles[n%len(styles)], ExplicitNo: n%2 == 0})
			}
			if ac.Kind == "query" {
				for ci, co := range corrupt {
					if full || (n+ci)%5 == 0 {
						bcases = append(bcases, c09BCase{Ref: ref, Style: styles[(n+ci)%len(styles)], ExplicitNo: true, Old: co[0], New: co[1]})
					}
				}
				if n%17 == 0 {
					v := ref
					v.AddrData = nil
					bcases = append(bcases, c09BCase{Ref: v, Style: styles[n%len(styles)]})
					v2 := ref
					v2.PropForm, v2.AddrData = "allprop", nil
					bcases = append(bcases, c09BCase{Ref: v2, Style: styles[(n+3)%len(styles)]})
					v3 := ref
					v3.HasLimit, v3.NResults = true, 0
					bcases = append(bcases, c09BCase{Ref: v3, Style: styles[(n+5)%len(styles)]})
				}
			}
		}
		r.Extra["direction_a_cases"] = len(acases)
		r.Extra["direction_b_cases"] = len(bcases)
		base := int64(len(acases))
		r.Parallel(len(bcases), func(i int, s *engine.Shard) {
			c := bcases[i]
			s.Transition()
			clause, detail := c09JudgeB(c)
			if c.Old != "" {
				s.Clause("B: invalid enumeration value refused 4xx without a backend call")
			} else {
				s.Clause("B: backend receives the request the document denotes")
			}
			s.Outcome("B/" + c.Ref.Root + "/" + clause)
			s.Nontrivial(fmt.Sprintf("B/%d", i))
			if i%4001 == 50 {
				s.Sample(map[string]interface{}{"direction": "B", "document": string(indep.Render(indep.CardReportEl(&c.Ref, c.ExplicitNo), c.Style)), "corruption": c.Old + " -> " + c.New})
			}
			if clause != "" {
				cls := c.Ref.Root
				if strings.Contains(detail, "; document denotes ") {
					parts := strings.SplitN(detail, "; document denotes ", 2)
					cls += ".differs-in=" + c08Diff(strings.TrimPrefix(parts[0], "backend got "), parts[1])
				} else if c.Old != "" {
					cls += "." + strings.SplitN(c.Old, "=", 2)[0] + "=" + strings.Trim(strings.SplitN(c.New+"=", "=", 2)[1], `"=`)
				} else {
					cls += "." + c.Style.String()
				}
				s.Violate(engine.Violation{Sig: "C09/server/" + clause + "/" + cls, Clause: clause, Index: base + int64(i), Kind: "C09-B", Case: c, Expected: "backend receives what the conformant document denotes; invalid values refused", Observed: detail})
			}
		})
	})
	registerReplay("C09-A", func(raw json.RawMessage) (bool, string) {
		var c c09ACase
		if err := json.Unmarshal(raw, &c); err != nil {
			return false, err.Error()
		}
		clause, detail := c09JudgeA(c)
		return clause == "", clause + " " + detail
	})
	registerReplay("C09-B", func(raw json.RawMessage) (bool, string) {
		var c c09BCase
		if err := json.Unmarshal(raw, &c); err != nil {
			return false, err.Error()
		}
		clause, detail := c09JudgeB(c)
		return clause == "", clause + " " + detail
	})
}

// c09RefOf: the literal (non-normalised) reference document for an API query: explicit defaults are kept
// explicit and absent ones absent, so both spellings are exercised on the wire.
func c09RefOf(q *carddav.AddressBookQuery) indep.RCardReport {
	r := indep.RCardReport{Root: "addressbook-query", PropForm: "prop", HasFilter: true, Test: string(q.FilterTest), AddrData: c09AddrRef(q.DataRequest)}
	for _, pf := range q.PropFilters {
		x := rCardPropFilter(pf)
		x.Test = string(pf.Test)
		for j := range x.TextMatches {
			x.TextMatches[j].MatchType = string(pf.TextMatches[j].MatchType)
		}
		for j := range x.Params {
			if x.Params[j].TextMatch != nil {
				x.Params[j].TextMatch.MatchType = string(pf.Params[j].TextMatch.MatchType)
			}
		}
		r.Filters = append(r.Filters, x)
	}
	if q.Limit > 0 {
		r.HasLimit, r.NResults = true, uint64(q.Limit)
	}
	return r
}

func c09AddrRef(d carddav.AddressDataRequest) *indep.RAddrData {
	if d.AllProp {
		return &indep.RAddrData{AllProp: true}
	}
	return &indep.RAddrData{Props: d.Props}
}
