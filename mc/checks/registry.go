// Package checks contains one exhaustive checker per property.
package checks

import (
	"encoding/json"

	"github.com/emersion/go-webdav/verifmc/engine"
)

// Check explores the property's bounded space and records violations in the run.
type Check func(r *engine.Run)

// Replayer re-executes one recorded case against the real code without the explorer.
// It returns whether the property held on that case and a human-readable detail.
type Replayer func(c json.RawMessage) (held bool, detail string)

var Registry = map[string]Check{}
var Replayers = map[string]Replayer{}

func register(id string, c Check)            { Registry[id] = c }
func registerReplay(kind string, r Replayer) { Replayers[kind] = r }

func thorough(r *engine.Run) bool { return r.Tier == "thorough" }

func js(v interface{}) string {
	b, _ := json.Marshal(v)
	return string(b)
}
