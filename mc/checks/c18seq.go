package checks

import (
	"fmt"
	"net/http"
	"os"
	"sort"
	"strings"
	"sync/atomic"
	"time"

	webdav "github.com/emersion/go-webdav"
	"github.com/emersion/go-webdav/caldav"
	"github.com/emersion/go-webdav/carddav"
	"github.com/emersion/go-webdav/verifmc/engine"
	"github.com/emersion/go-webdav/verifmc/harness"
	"github.com/emersion/go-webdav/verifmc/indep"
)

// C18 part D — sequential histories (the degenerate schedules: no overlap at all).
// For every ordered pair (r1, r2) of valid seed requests: r2 served by a handler that has just
// served r1 — with the backend double restored to its initial content in between, so that only
// state kept by the LIBRARY (package-level or handler-level) can make a difference — must give
// exactly the response and the backend calls that r2 gives on a brand-new handler.

type seqSystem struct {
	h     http.Handler
	reset func()
	calls func() []harness.Call
	// wallClock: the system stamps what it stores with the current time (files on disk)
	wallClock bool
}

func newSeqSystem(kind string) *seqSystem {
	l := c12LayoutFor("")
	switch kind {
	case "webdav":
		fs, _ := c11MemFS()
		return &seqSystem{h: &webdav.Handler{FileSystem: fs}, calls: fs.Snapshot, reset: func() {
			fresh, _ := c11MemFS()
			fs.Files = fresh.Files
			fs.Reset()
		}}
	case "webdav-local":
		// the same tree on disk behind LocalFileSystem
		root := harness.NewDir("seq-")
		mk := func() {
			os.RemoveAll(root)
			os.MkdirAll(root, 0o755)
			fs, _ := c11MemFS()
			var dirs, files []string
			for p, f := range fs.Files {
				if f.Info.IsDir {
					dirs = append(dirs, p)
				} else {
					files = append(files, p)
				}
			}
			sort.Strings(dirs)
			for _, d := range dirs {
				os.MkdirAll(root+d, 0o755)
			}
			mt := time.Unix(1600000000, 0)
			for _, f := range files {
				os.WriteFile(root+f, []byte("data"), 0o644)
				os.Chtimes(root+f, mt, mt)
			}
			for i := len(dirs) - 1; i >= 0; i-- {
				os.Chtimes(root+dirs[i], mt, mt)
			}
		}
		mk()
		return &seqSystem{h: &webdav.Handler{FileSystem: webdav.LocalFileSystem(root)}, calls: func() []harness.Call {
			t, _ := harness.Snapshot(root)
			return []harness.Call{{Method: "tree", Path: t.Canon()}}
		}, reset: mk, wallClock: true}
	case "caldav":
		mk := func() ([]caldav.Calendar, []caldav.CalendarObject) {
			return []caldav.Calendar{{Path: l.Coll1, Name: "k1"}, {Path: l.Coll2, Name: "k2"}}, []caldav.CalendarObject{{Path: l.Obj + ".ics", ETag: "e1", Data: harness.SampleCalendar("1", "s")}}
		}
		b := &harness.CalBackend{Principal: l.Principal, HomeSet: l.HomeSet, Users: map[string]harness.UserPaths{"v": {Principal: "/v/", HomeSet: "/v/c/"}}}
		b.Calendars, b.Objects = mk()
		return &seqSystem{h: harness.UserFromHeader(&caldav.Handler{Backend: b}), calls: b.Snapshot, reset: func() { b.Calendars, b.Objects = mk(); b.Reset() }}
	case "carddav":
		mk := func() ([]carddav.AddressBook, []carddav.AddressObject) {
			return []carddav.AddressBook{{Path: l.Coll1, Name: "k1"}, {Path: l.Coll2, Name: "k2"}}, []carddav.AddressObject{{Path: l.Obj + ".vcf", ETag: "e1", Card: harness.SampleCard("s")}}
		}
		b := &harness.CardBackend{Principal: l.Principal, HomeSet: l.HomeSet, Users: map[string]harness.UserPaths{"v": {Principal: "/v/", HomeSet: "/v/c/"}}}
		b.Books, b.Objects = mk()
		return &seqSystem{h: harness.UserFromHeader(&carddav.Handler{Backend: b}), calls: b.Snapshot, reset: func() { b.Books, b.Objects = mk(); b.Reset() }}
	}
	h, _ := c13Handler("principal")
	return &seqSystem{h: h, calls: func() []harness.Call { return nil }, reset: func() {}}
}

// orderless canonical form of an XML body (property order follows Go map iteration)
func canonBody(b []byte) string {
	root, err := indep.Parse(b)
	if err != nil {
		return string(b)
	}
	var f func(n *indep.Node) string
	f = func(n *indep.Node) string {
		var kids []string
		for _, c := range n.Children {
			kids = append(kids, f(c))
		}
		sort.Strings(kids)
		var attrs []string
		for _, a := range n.Attrs {
			attrs = append(attrs, a.Space+" "+a.Local+"="+a.Value)
		}
		txt := ""
		if len(n.Children) == 0 {
			txt = n.Text
		}
		return fmt.Sprintf("<{%s}%s %v>%s%s</>", n.Space, n.Local, attrs, txt, strings.Join(kids, ""))
	}
	return f(root)
}

// serveWatched serves one request; a handler that has not answered after 30 s never will (a lock left
// behind by an earlier request): reported as an observation of its own, not as a hang of the check
func serveWatched(h http.Handler, q harness.Req) harness.Resp {
	if seqHangs.Load() >= 3 {
		// the process is poisoned (a lock was left behind): do not wait again and again
		return harness.Resp{Status: -1, Panic: "not served: earlier requests of this run never returned"}
	}
	ch := make(chan harness.Resp, 1)
	go func() { ch <- harness.Serve(h, q) }()
	select {
	case r := <-ch:
		return r
	case <-time.After(20 * time.Second):
		seqHangs.Add(1)
		return harness.Resp{Status: -1, Panic: "the handler did not answer within 20 s"}
	}
}

var seqHangs atomic.Int32

func seqObserve(sys *seqSystem, q harness.Req) string {
	resp := serveWatched(sys.h, q)
	var hs []string
	for _, k := range []string{"Content-Type", "Etag", "Last-Modified", "Location", "Allow", "Dav", "Content-Length"} {
		if sys.wallClock && q.Method == "PUT" && (k == "Etag" || k == "Last-Modified") {
			continue // a file just written to disk carries the time of writing (wall clock)
		}
		if v := resp.Header.Values(k); len(v) > 0 {
			hs = append(hs, k+"="+strings.Join(v, ","))
		}
	}
	var calls []string
	for _, c := range sys.calls() {
		calls = append(calls, c.String()+" "+js(c.Arg))
	}
	return fmt.Sprintf("status=%d panic=%q headers=%v calls=%v body=%s", resp.Status, resp.Panic, hs, calls, canonBody(resp.Body))
}

// SeqHistories runs part D and records into the run.
func SeqHistories(r *engine.Run, quick bool, reverse func() (map[string]string, error)) {
	defer harness.Cleanup()
	seeds := c13Seeds()
	byKind := map[string][]c13Seed{}
	for _, s := range seeds {
		byKind[s.Handler] = append(byKind[s.Handler], s)
	}
	// richer first requests: reports with expand / limit / is-not-defined etc. come from the C13 seeds already
	byKind["webdav-local"] = byKind["webdav"]
	kinds := []string{"webdav", "webdav-local", "caldav", "carddav", "principal"}
	type pair struct {
		kind string
		i, j int
	}
	var pairs []pair
	for _, k := range kinds {
		n := len(byKind[k])
		for i := 0; i < n; i++ {
			for j := 0; j < n; j++ {
				if quick && (i*7+j)%3 != 0 {
					continue
				}
				pairs = append(pairs, pair{k, i, j})
			}
		}
	}
	// Reference observations on brand-new handlers, taken twice: in forward seed order in THIS process
	// (before anything else is served) and in reverse order in a FRESH process (reverse callback).
	// State a request leaves behind in the process (package-level variables) persists across "fresh"
	// handlers; with the two orders in two processes every seed is observed once without and once
	// with every other seed having been served before it.
	solo := SeqSoloObservations(false)
	sh := r.Shard()
	for range solo {
		sh.Transition()
	}
	if reverse != nil {
		rev, err := reverse()
		if err != nil {
			fmt.Fprintf(os.Stderr, "C18: reverse-order reference pass failed: %v\n", err)
			os.Exit(2)
		}
		for key, want := range solo {
			sh.Transition()
			sh.Clause("process history: a brand-new handler answers a request the same whatever the process served before")
			if again, ok := rev[key]; !ok || again != want {
				kind := strings.SplitN(key, "/", 2)[0]
				var j int
				fmt.Sscanf(strings.SplitN(key, "/", 2)[1], "%d", &j)
				req := byKind[kind][j].Req
				sh.Violate(engine.Violation{Sig: fmt.Sprintf("C18/process-state/%s/%s", kind, req.Method), Clause: "process-state", Index: int64(1)<<57 + int64(j), Kind: "C18-seq",
					Case: map[string]interface{}{"handler": kind, "first": req, "second": req}, Expected: "forward order: " + firstDiff(want, again), Observed: "reverse order in a fresh process: " + firstDiff(again, want)})
			}
		}
		r.Extra["process_state_reference_passes"] = "forward (in process) vs reverse (fresh process)"
	}
	r.Merge(sh)
	r.Extra["sequential_history_pairs"] = len(pairs)
	r.Parallel(len(pairs), func(n int, s *engine.Shard) {
		p := pairs[n]
		if seqHangs.Load() >= 3 {
			s.Count("sequential-history pairs skipped after three requests that never returned")
			return
		}
		first, second := byKind[p.kind][p.i], byKind[p.kind][p.j]
		sys := newSeqSystem(p.kind)
		serveWatched(sys.h, first.Req)
		sys.reset()
		got := seqObserve(sys, second.Req)
		s.Transition()
		s.Transition()
		s.Clause("sequential history: a request after another one (backend restored) behaves as when run alone")
		s.Outcome("sequential/" + p.kind)
		s.Nontrivial(fmt.Sprintf("SEQ/%s/%d/%d", p.kind, p.i, p.j))
		if want := solo[fmt.Sprintf("%s/%d", p.kind, p.j)]; got != want {
			s.Violate(engine.Violation{Sig: fmt.Sprintf("C18/sequential-history/%s/%s-after-%s", p.kind, second.Req.Method, first.Req.Method), Clause: "sequential-history", Index: int64(1)<<58 + int64(n), Kind: "C18-seq",
				Case: map[string]interface{}{"handler": p.kind, "first": first.Req, "second": second.Req}, Expected: trunc(want, 400), Observed: trunc(got, 400)})
		}
		if p.kind == "caldav" || p.kind == "carddav" {
			// the same history with the FIRST request made by another authenticated user: what the handler
			// learnt while serving one user must not leak into the answer to the next
			sys2 := newSeqSystem(p.kind)
			q := cloneReq(first.Req)
			q.Header["X-User"] = "v"
			serveWatched(sys2.h, q)
			sys2.reset()
			got2 := seqObserve(sys2, second.Req)
			s.Transition()
			s.Transition()
			s.Clause("sequential history across users: a request after another user's request behaves as when run alone")
			if want := solo[fmt.Sprintf("%s/%d", p.kind, p.j)]; got2 != want {
				s.Violate(engine.Violation{Sig: fmt.Sprintf("C18/sequential-history/%s/%s-after-%s-by-another-user", p.kind, second.Req.Method, first.Req.Method), Clause: "sequential-history", Index: int64(1)<<59 + int64(n), Kind: "C18-seq",
					Case: map[string]interface{}{"handler": p.kind, "first": q, "second": second.Req}, Expected: trunc(want, 400), Observed: trunc(got2, 400)})
			}
		}
		if n == 4242 {
			s.Sample(map[string]interface{}{"part": "sequential history", "handler": p.kind, "first": first.Req.String(), "second": second.Req.String()})
		}
	})
}

// SeqSoloObservations serves every seed request on a brand-new handler, in forward or reverse order.
func SeqSoloObservations(reverseOrder bool) map[string]string {
	defer harness.Cleanup()
	byKind := map[string][]c13Seed{}
	for _, s := range c13Seeds() {
		byKind[s.Handler] = append(byKind[s.Handler], s)
	}
	byKind["webdav-local"] = byKind["webdav"]
	kinds := []string{"webdav", "webdav-local", "caldav", "carddav", "principal"}
	type kj struct {
		k string
		j int
	}
	var order []kj
	for _, k := range kinds {
		for j := range byKind[k] {
			order = append(order, kj{k, j})
		}
	}
	if reverseOrder {
		for a, b := 0, len(order)-1; a < b; a, b = a+1, b-1 {
			order[a], order[b] = order[b], order[a]
		}
	}
	out := map[string]string{}
	for _, o := range order {
		out[fmt.Sprintf("%s/%d", o.k, o.j)] = seqObserve(newSeqSystem(o.k), byKind[o.k][o.j].Req)
	}
	return out
}

// ReplaySeq re-executes one sequential-history case.
func ReplaySeq(handler string, first, second harness.Req) (bool, string) {
	want := seqObserve(newSeqSystem(handler), second)
	sys := newSeqSystem(handler)
	serveWatched(sys.h, first)
	sys.reset()
	got := seqObserve(sys, second)
	return got == want, "alone: " + trunc(want, 300) + " | after the first request: " + trunc(got, 300)
}
