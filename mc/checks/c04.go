package checks

import (
	"encoding/json"
	"fmt"
	"sort"
	"strings"

	webdav "github.com/emersion/go-webdav"
	"github.com/emersion/go-webdav/caldav"
	"github.com/emersion/go-webdav/carddav"
	"github.com/emersion/go-webdav/verifmc/engine"
	"github.com/emersion/go-webdav/verifmc/harness"
	"github.com/emersion/go-webdav/verifmc/indep"
)

// C04 — If-Match / If-None-Match honoured exactly.

func c04States() []harness.Tree {
	return []harness.Tree{
		{"/": {Dir: true}, "/b.html": {Content: "u"}},
		{"/": {Dir: true}, "/a": {Content: "x"}, "/b.html": {Content: "u"}},
		{"/": {Dir: true}, "/a": {Dir: true}, "/b.html": {Content: "u"}},
		{"/": {Dir: true}, "/a": {Dir: true}, "/a/a": {Content: "yy"}, "/b.html": {Content: "u"}},
	}
}

func c04Extra(t harness.Tree, probe map[string]fileProbe) []harness.Req {
	var out []harness.Req
	for _, p := range []string{"/a", "/a/a", "/b.html"} {
		cur := ""
		if pr, ok := probe[p]; ok && pr.Status == 200 {
			cur = pr.ETag
		}
		hs := condHeaderValues(cur)
		if cur != "" {
			// a stale tag: well-formed, differs from the current one in the last character
			hs = append(hs, cur[:len(cur)-2]+"0\"", cur[:len(cur)-1]+"0\"")
			// the current tag in another letter case: another tag (entity tags are compared octet by octet)
			if up := strings.ToUpper(cur); up != cur {
				hs = append(hs, up)
			}
		}
		for _, im := range hs {
			for _, inm := range hs {
				h := map[string]string{}
				if im != "" {
					h["If-Match"] = im
				}
				if inm != "" {
					h["If-None-Match"] = inm
				}
				out = append(out, harness.Req{Method: "PUT", Path: p, Body: "new", Header: h})
				out = append(out, harness.Req{Method: "DELETE", Path: p, Header: h})
			}
		}
	}
	return out
}

var c04TagBytes = []string{"a", `"`, `\`, " ", ",", "é", "\x01", "\x7f", "\xff", "*"}

func c04Tags(maxLen int) []string {
	out := []string{""}
	level := []string{""}
	for l := 1; l <= maxLen; l++ {
		var next []string
		for _, p := range level {
			for _, b := range c04TagBytes {
				next = append(next, p+b)
			}
		}
		out = append(out, next...)
		level = next
	}
	return out
}

// c04Codec checks the public ConditionalMatch helpers for one tag; returns "" or a failure description.
func c04Codec(t string, others []string) (clause, detail string) {
	defer func() {
		if p := recover(); p != nil {
			clause, detail = "codec-panic", fmt.Sprint(p)
		}
	}()
	// the header value a server announces for tag t, built by hand (RFC 7232 quoted form as the codec writes it)
	hdr := fmt.Sprintf("%q", t)
	cm := webdav.ConditionalMatch(hdr)
	if !cm.IsSet() || cm.IsWildcard() {
		return "codec-isset", hdr
	}
	got, err := cm.ETag()
	if err != nil || got != t {
		return "codec-etag-roundtrip", fmt.Sprintf("ETag()=%q,%v want %q", got, err, t)
	}
	ok, err := cm.MatchETag(t)
	if t == "" {
		if ok {
			return "codec-match-absent", "MatchETag(\"\") true"
		}
	} else if err != nil || !ok {
		return "codec-match-equal", fmt.Sprintf("MatchETag(%q)=%v,%v", t, ok, err)
	}
	// letter case and compatibility variants of the tag are other tags
	for _, v := range []string{strings.ToUpper(t), strings.ToLower(t), strings.ReplaceAll(t, "k", "\u212a"), strings.ReplaceAll(t, "a", "A")} {
		if v != t {
			others = append(append([]string(nil), others...), v)
		}
	}
	for _, o := range others {
		if o == t {
			continue
		}
		ok, err := cm.MatchETag(o)
		if err != nil || ok {
			return "codec-match-different", fmt.Sprintf("tag %q MatchETag(%q)=%v,%v", t, o, ok, err)
		}
	}
	// a value that starts and ends with a quote but has a bare quote inside is not one quoted string
	if strings.Contains(t, `"`) && !strings.Contains(t, `\`) {
		bad := webdav.ConditionalMatch(`"` + t + `"`)
		if _, err := bad.ETag(); err == nil {
			return "codec-malformed-accepted", fmt.Sprintf("ETag() of %q returns no error", string(bad))
		}
		for _, o := range append([]string{t}, others...) {
			if o == "" {
				continue
			}
			if ok, err := bad.MatchETag(o); ok || err == nil {
				return "codec-malformed-accepted", fmt.Sprintf("%q.MatchETag(%q)=%v,%v", string(bad), o, ok, err)
			}
		}
	}
	w := webdav.ConditionalMatch("*")
	if !w.IsSet() || !w.IsWildcard() {
		return "codec-wildcard", "*"
	}
	ok, err = w.MatchETag(t)
	if err != nil || ok != (t != "") {
		return "codec-wildcard-match", fmt.Sprintf("*.MatchETag(%q)=%v,%v", t, ok, err)
	}
	if webdav.ConditionalMatch("").IsSet() {
		return "codec-unset", ""
	}
	return "", ""
}

// c04Agreement runs the history PUT, GET, HEAD, PROPFIND, conditional PUTs on one file and
// checks that all four announce the same tag and that the tag is accepted back.
func c04Agreement(t harness.Tree, p string) (clause, detail string) {
	w := newFSWorker()
	defer w.close()
	w.load(t)
	h := w.handler
	put := harness.Serve(h, harness.Req{Method: "PUT", Path: p, Body: "fresh content"})
	if put.Status/100 != 2 {
		return "agreement-put-failed", fmt.Sprint(put.Status)
	}
	tag := put.Header.Get("ETag")
	if !isQuoted(tag) {
		return "agreement-put-etag", tag
	}
	get := harness.Serve(h, harness.Req{Method: "GET", Path: p})
	head := harness.Serve(h, harness.Req{Method: "HEAD", Path: p})
	if get.Header.Get("ETag") != tag || head.Header.Get("ETag") != tag {
		return "agreement-get-head", fmt.Sprintf("PUT %s GET %s HEAD %s", tag, get.Header.Get("ETag"), head.Header.Get("ETag"))
	}
	pf := harness.Serve(h, harness.Req{Method: "PROPFIND", Path: p, Header: map[string]string{"Depth": "0", "Content-Type": "text/xml"}, Body: pfProp})
	ms, err := indep.ReadMultiStatus(pf.Body)
	if err != nil || len(ms.Responses) != 1 {
		return "agreement-propfind", fmt.Sprint(err)
	}
	pe := ms.Responses[0].Prop(indep.DAV, "getetag")
	if len(pe) != 1 || pe[0].Status != 200 || strings.TrimSpace(pe[0].Node.Text) != tag {
		return "agreement-propfind-getetag", fmt.Sprintf("PUT %s PROPFIND %v", tag, pe)
	}
	r := harness.Serve(h, harness.Req{Method: "PUT", Path: p, Body: "z", Header: map[string]string{"If-None-Match": tag}})
	if r.Status != 412 {
		return "agreement-if-none-match-own-tag", fmt.Sprint(r.Status)
	}
	r = harness.Serve(h, harness.Req{Method: "PUT", Path: p, Body: "second", Header: map[string]string{"If-Match": tag}})
	if r.Status/100 != 2 {
		return "agreement-if-match-own-tag", fmt.Sprint(r.Status)
	}
	r = harness.Serve(h, harness.Req{Method: "DELETE", Path: p, Header: map[string]string{"If-Match": r.Header.Get("ETag")}})
	if r.Status/100 != 2 {
		return "agreement-delete-if-match-own-tag", fmt.Sprint(r.Status)
	}
	return "", ""
}

// c04Listing: every entity tag a PROPFIND listing (Depth 1 / infinity) announces for a member is the member's own:
// equal to what HEAD announces for it (a resource for which HEAD announces none must not be given one by the
// listing) and accepted back in If-Match (the DELETE is carried out), whatever was listed before it.
func c04Listing(t harness.Tree, target, depth string) (clause, detail string, n int) {
	w := newFSWorker()
	defer w.close()
	w.load(t)
	pf := harness.Serve(w.handler, harness.Req{Method: "PROPFIND", Path: target, Header: map[string]string{"Depth": depth, "Content-Type": "text/xml"}, Body: pfProp})
	ms, err := indep.ReadMultiStatus(pf.Body)
	if err != nil {
		return "listing-propfind", fmt.Sprintf("%d %v", pf.Status, err), 0
	}
	for _, r := range ms.Responses {
		pe := r.Prop(indep.DAV, "getetag")
		if len(pe) != 1 || pe[0].Status != 200 || len(r.Hrefs) != 1 {
			continue
		}
		tag := strings.TrimSpace(pe[0].Node.Text)
		hp, err := indep.HrefPath(r.Hrefs[0])
		if err != nil {
			return "listing-href", r.Hrefs[0], n
		}
		n++
		w.load(t)
		head := harness.Serve(w.handler, harness.Req{Method: "HEAD", Path: hp})
		if head.Header.Get("ETag") != tag {
			return "listing-tag-differs-from-head", fmt.Sprintf("PROPFIND %s depth %s announces %s for %s, HEAD answers %d with %q", target, depth, tag, hp, head.Status, head.Header.Get("ETag")), n
		}
		del := harness.Serve(w.handler, harness.Req{Method: "DELETE", Path: hp, Header: map[string]string{"If-Match": tag}})
		if del.Status/100 != 2 {
			return "listing-tag-not-accepted-back", fmt.Sprintf("PROPFIND %s depth %s announces %s for %s, DELETE If-Match answers %d", target, depth, tag, hp, del.Status), n
		}
	}
	return "", "", n
}

// c04DoubleTag: a backend double holds a file with an arbitrary tag; the tag announced by GET, HEAD
// and PROPFIND must be one string, and sent back in If-Match it must reach the backend as a value
// for which the public helper says "matches".
func c04DoubleTag(tag string) (clause, detail string) {
	defer func() {
		if p := recover(); p != nil {
			clause, detail = "double-panic", fmt.Sprint(p)
		}
	}()
	fs := harness.NewMemFS()
	fs.Add(webdav.FileInfo{Path: "/", IsDir: true}, "")
	fs.Add(webdav.FileInfo{Path: "/f", Size: 4, ETag: tag, MIMEType: "text/plain"}, "DATA")
	h := &webdav.Handler{FileSystem: fs}
	get := harness.Serve(h, harness.Req{Method: "GET", Path: "/f"})
	head := harness.Serve(h, harness.Req{Method: "HEAD", Path: "/f"})
	ann := get.Header.Get("ETag")
	if get.Status != 200 || ann == "" || head.Header.Get("ETag") != ann {
		return "double-get-head", fmt.Sprintf("GET %d %q HEAD %q", get.Status, ann, head.Header.Get("ETag"))
	}
	pf := harness.Serve(h, harness.Req{Method: "PROPFIND", Path: "/f", Header: map[string]string{"Depth": "0", "Content-Type": "text/xml"}, Body: pfProp})
	ms, err := indep.ReadMultiStatus(pf.Body)
	if err != nil || len(ms.Responses) != 1 {
		return "double-propfind", fmt.Sprint(err)
	}
	pe := ms.Responses[0].Prop(indep.DAV, "getetag")
	if len(pe) != 1 || pe[0].Node.Text != ann {
		return "double-propfind-getetag", fmt.Sprintf("GET announces %q, PROPFIND %v", ann, pe)
	}
	// the announced string is a quoted string that denotes the tag
	if got, err := webdav.ConditionalMatch(ann).ETag(); err != nil || got != tag {
		return "double-announced-tag-not-decodable", fmt.Sprintf("announced %q decodes to %q, %v; backend tag %q", ann, got, err, tag)
	}
	// a PUT announces the tag of what it stored in the same form as GET does afterwards
	fs.NextETag = &tag
	if tag != "" {
		pnew := harness.Serve(h, harness.Req{Method: "PUT", Path: "/g", Body: "fresh"})
		gnew := harness.Serve(h, harness.Req{Method: "GET", Path: "/g"})
		if pnew.Status/100 != 2 || gnew.Status != 200 || pnew.Header.Get("ETag") != gnew.Header.Get("ETag") || gnew.Header.Get("ETag") != ann {
			return "double-put-get", fmt.Sprintf("PUT %d announces %q, GET %d announces %q, the same tag on /f was announced as %q", pnew.Status, pnew.Header.Get("ETag"), gnew.Status, gnew.Header.Get("ETag"), ann)
		}
	}
	// send it back
	fs.Reset()
	put := harness.Serve(h, harness.Req{Method: "PUT", Path: "/f", Body: "new", Header: map[string]string{"If-Match": ann}})
	for _, c := range fs.Snapshot() {
		if c.Method == "Create" {
			im := c.Arg.(map[string]interface{})["if_match"].(string)
			ok, err := webdav.ConditionalMatch(im).MatchETag(tag)
			if err != nil || !ok {
				return "double-own-tag-not-accepted-back", fmt.Sprintf("backend got If-Match %q; MatchETag(%q)=%v,%v", im, tag, ok, err)
			}
			return "", ""
		}
	}
	return "double-put-not-delivered", fmt.Sprint(put.Status)
}

// pass-through of both headers to the CalDAV / CardDAV backends
func c04PassThrough(kind, im, inm string) (clause, detail string) {
	hdr := map[string]string{}
	if im != "" {
		hdr["If-Match"] = im
	}
	if inm != "" {
		hdr["If-None-Match"] = inm
	}
	var calls []harness.Call
	var resp harness.Resp
	if kind == "caldav" {
		b := &harness.CalBackend{Principal: "/u/", HomeSet: "/u/c/"}
		hdr["Content-Type"] = "text/calendar"
		resp = harness.Serve(&caldav.Handler{Backend: b}, harness.Req{Method: "PUT", Path: "/u/c/k/o.ics", Header: hdr,
			Body: "BEGIN:VCALENDAR\r\nVERSION:2.0\r\nPRODID:-//x//EN\r\nBEGIN:VEVENT\r\nUID:1\r\nDTSTAMP:20200101T000000Z\r\nDTSTART:20200101T000000Z\r\nEND:VEVENT\r\nEND:VCALENDAR\r\n"})
		calls = b.Snapshot()
	} else {
		b := &harness.CardBackend{Principal: "/u/", HomeSet: "/u/c/"}
		hdr["Content-Type"] = "text/vcard"
		resp = harness.Serve(&carddav.Handler{Backend: b}, harness.Req{Method: "PUT", Path: "/u/c/k/o.vcf", Header: hdr,
			Body: "BEGIN:VCARD\r\nVERSION:4.0\r\nFN:x\r\nEND:VCARD\r\n"})
		calls = b.Snapshot()
	}
	if resp.Panic != "" {
		return "passthrough-panic", resp.Panic
	}
	var put *harness.Call
	for i := range calls {
		if strings.HasPrefix(calls[i].Method, "Put") {
			put = &calls[i]
		}
	}
	if put == nil {
		return "passthrough-no-put", fmt.Sprintf("status %d calls %v", resp.Status, calls)
	}
	arg := put.Arg.(harness.PutArg)
	if arg.IfMatch != im || arg.IfNoneMatch != inm {
		return "passthrough-altered", fmt.Sprintf("backend got If-Match=%q If-None-Match=%q", arg.IfMatch, arg.IfNoneMatch)
	}
	return "", ""
}

type c04Case struct {
	Part  string       `json:"part"`
	Tag   string       `json:"tag,omitempty"`
	State harness.Tree `json:"state,omitempty"`
	Path  string       `json:"path,omitempty"`
	Kind  string       `json:"kind,omitempty"`
	IM    string       `json:"if_match,omitempty"`
	INM   string       `json:"if_none_match,omitempty"`
}

func init() {
	register("C04", func(r *engine.Run) {
		maxLen := 2
		if thorough(r) {
			maxLen = 4
		}
		r.Rule = fmt.Sprintf("truth table: 4 states (target unmapped / file / empty collection / non-empty collection, plus a nested file and an unrelated file) x {PUT,DELETE} x If-Match x If-None-Match over {unset,*,\"deadbeef\",\"0\",unquoted,\"\",current,weak,2 stale variants} on 3 paths; agreement history (PUT,GET,HEAD,PROPFIND,conditional PUT/DELETE) per file-capable path; codec: every tag of length <=%d over 9 bytes; pass-through: every header pair over 9 values to both CalDAV and CardDAV. Non-trivial = at least one conditional header is set; distinct by (state, request) / tag / header pair", maxLen)
		r.Explanation = "explicit-state exploration of conditional requests on the real file server against the C04 truth table (reference model davModel/condRefusals); public ConditionalMatch helpers enumerated over all short tags; header pass-through observed by recording backends"
		states := c04States()
		exploreFSx(r, states, nil, c04Extra, func(v *fsVisit) {
			s := v.S
			e, clause, detail := c01Judge(v)
			s.Outcome(fmt.Sprintf("%s/%d", v.Req.Method, v.Resp.Status))
			if clause == "" && len(v.Req.Header) > 0 {
				// for an EXISTING resource (file or collection) the statement gives a failed precondition its
				// own status (412, or 400 for a value that is not a quoted string) whatever else is wrong
				// with the request (a PUT on a collection); for an unmapped target the other refusal
				// (404, 409) is as good
				p := cleanP(v.Req.Path)
				pe := &davExpect{Codes: map[int]bool{}, Next: v.State}
				tag := ""
				if pr, ok := v.Probe[p]; ok && pr.Status == 200 {
					tag = strings.Trim(pr.ETag, `"`)
				}
				condRefusals(pe, v.Req.Header, kindOf(v.State, p) != "unmapped", tag)
				if pe.Refused && !pe.Codes[v.Resp.Status] && kindOf(v.State, p) != "unmapped" {
					clause, detail = "precondition-status", fmt.Sprintf("got=%d-want=%s", v.Resp.Status, pe.want())
				}
			}
			if len(v.Req.Header) > 0 {
				s.Nontrivial(v.State.Canon() + "|" + v.Req.String())
				s.Clause("truth table: carried out iff both preconditions hold; else 412/400 and tree unchanged")
			}
			if v.Index%211 == 5 {
				s.Sample(map[string]interface{}{"state": v.State.Canon(), "request": v.Req.String(), "status": v.Resp.Status, "model": e.want()})
			}
			if clause != "" {
				short := detail
				if clause != "status" {
					short = fmt.Sprintf("status=%d", v.Resp.Status)
				}
				s.Violate(engine.Violation{Sig: "C04/" + clause + "/" + e.Class + "/" + short, Clause: clause, Index: v.Index, Kind: "C01",
					Case: fsCase{State: v.State, Req: v.Req, Spell: v.Spell}, Expected: fmt.Sprintf("status %s (%s); tree %s", e.want(), strings.Join(e.Reasons, "; "), e.Next.Canon()),
					Observed: fmt.Sprintf("status %d; tree %s; %s", v.Resp.Status, v.After.Canon(), detail)})
			}
		})
		base := int64(1) << 40
		defer harness.Cleanup()
		// agreement
		type ag struct {
			t harness.Tree
			p string
		}
		var ags []ag
		for _, t := range states {
			for _, p := range []string{"/a", "/b.html", "/a/a", "/new.txt"} {
				k, pk := kindOf(t, p), parentKind(t, p)
				if (k == "file" || k == "unmapped") && pk == "collection" {
					ags = append(ags, ag{t, p})
				}
			}
		}
		r.Parallel(len(ags), func(i int, s *engine.Shard) {
			s.Add("agreement transitions", 9)
			for k := 0; k < 9; k++ {
				s.Transition()
			}
			clause, detail := c04Agreement(ags[i].t, ags[i].p)
			s.Clause("agreement: PUT/GET/HEAD/PROPFIND announce one tag; it is accepted back")
			s.Nontrivial(fmt.Sprintf("AG/%d", i))
			if clause != "" {
				s.Violate(engine.Violation{Sig: "C04/" + clause, Clause: clause, Index: base + int64(i), Kind: "C04", Case: c04Case{Part: "agreement", State: ags[i].t, Path: ags[i].p},
					Expected: "one tag announced by PUT, GET, HEAD and PROPFIND, accepted in If-Match, refused in If-None-Match", Observed: detail})
			}
		})
		base += 1000
		// listing agreement: the truth-table states plus trees in which a file is listed before a collection
		type lg struct {
			t             harness.Tree
			target, depth string
		}
		var lgs []lg
		lstates := append(append([]harness.Tree(nil), states...),
			harness.Tree{"/": {Dir: true}, "/a.txt": {Content: "x"}, "/b": {Dir: true}, "/b/c": {Content: "yy"}, "/c": {Dir: true}},
			harness.Tree{"/": {Dir: true}, "/d": {Dir: true}, "/d/a": {Content: "x"}, "/d/b": {Dir: true}, "/d/c": {Content: ""}, "/d/e": {Dir: true}, "/d/e/f": {Content: "zz"}})
		for _, t := range lstates {
			for p, nd := range t {
				if nd.Dir {
					for _, d := range []string{"1", "infinity"} {
						lgs = append(lgs, lg{t, p, d})
					}
				}
			}
		}
		sort.Slice(lgs, func(i, j int) bool {
			return lgs[i].t.Canon()+lgs[i].target+lgs[i].depth < lgs[j].t.Canon()+lgs[j].target+lgs[j].depth
		})
		r.Parallel(len(lgs), func(i int, s *engine.Shard) {
			clause, detail, n := c04Listing(lgs[i].t, lgs[i].target, lgs[i].depth)
			for k := 0; k < 1+2*n; k++ {
				s.Transition()
			}
			s.Add("listing transitions", int64(1+2*n))
			s.Clause("listing: a tag announced for a member is the member's own (HEAD) and is accepted back")
			s.Nontrivial(fmt.Sprintf("LG/%d", i))
			if clause != "" {
				s.Violate(engine.Violation{Sig: "C04/" + clause, Clause: clause, Index: base + int64(i), Kind: "C04", Case: c04Case{Part: "listing", State: lgs[i].t, Path: lgs[i].target, Tag: lgs[i].depth},
					Expected: "every tag of the listing equals the member's HEAD tag and is accepted in If-Match", Observed: detail})
			}
		})
		base += 1000
		// codec
		tags := c04Tags(maxLen)
		others := c04Tags(1)
		others = append(others, "aa", `a"`, `"a`, "*")
		r.Parallel(len(tags), func(i int, s *engine.Shard) {
			s.Transition()
			clause, detail := c04Codec(tags[i], others)
			s.Clause("codec: ConditionalMatch.ETag/MatchETag/IsSet/IsWildcard by definition")
			s.Nontrivial("TAG/" + tags[i])
			s.Outcome("codec/" + clause)
			if i == 37 {
				s.Sample(map[string]interface{}{"tag": tags[i], "header": fmt.Sprintf("%q", tags[i])})
			}
			if clause != "" {
				s.Violate(engine.Violation{Sig: "C04/" + clause + "/" + tagClass(tags[i]), Clause: clause, Index: base + int64(i), Kind: "C04", Case: c04Case{Part: "codec", Tag: tags[i]},
					Expected: "helpers agree with the truth table", Observed: detail})
			}
		})
		base += int64(len(tags))
		// tags held by a backend double, through headers and XML and back
		var dtags []string
		for _, t := range tags {
			if t == "" || strings.ContainsAny(t, "\x01\x7f\xff") {
				continue // not representable in a header value / XML 1.0 text
			}
			dtags = append(dtags, t)
		}
		r.Parallel(len(dtags), func(i int, s *engine.Shard) {
			for k := 0; k < 4; k++ {
				s.Transition()
			}
			clause, detail := c04DoubleTag(dtags[i])
			s.Clause("double: announced tag identical in GET/HEAD/PROPFIND, decodable, accepted back")
			s.Nontrivial("DT/" + dtags[i])
			s.Outcome("double/" + clause)
			if clause != "" {
				s.Violate(engine.Violation{Sig: "C04/" + clause + "/" + tagClass(dtags[i]), Clause: clause, Index: base + int64(i), Kind: "C04", Case: c04Case{Part: "double", Tag: dtags[i]},
					Expected: "one decodable tag everywhere, accepted back", Observed: detail})
			}
		})
		base += int64(len(dtags))
		// pass-through
		hv := []string{"", "*", `"x"`, `"a\"b"`, "unquoted", `W/"x"`, `""`, `"é"`, `"x", "y"`,
			// values that decode but are not spelled the way the encoder would spell them
			`"\x41bc"`, "\"tab\\u0009\"", `"*"`}
		r.Parallel(len(hv)*len(hv)*2, func(i int, s *engine.Shard) {
			kind := []string{"caldav", "carddav"}[i%2]
			im, inm := hv[(i/2)%len(hv)], hv[(i/2)/len(hv)]
			s.Transition()
			clause, detail := c04PassThrough(kind, im, inm)
			s.Clause("pass-through: backend receives both header values unaltered")
			s.Nontrivial(fmt.Sprintf("PT/%d", i))
			if clause != "" {
				s.Violate(engine.Violation{Sig: "C04/" + clause + "/" + kind, Clause: clause, Index: base + int64(i), Kind: "C04", Case: c04Case{Part: "passthrough", Kind: kind, IM: im, INM: inm},
					Expected: fmt.Sprintf("backend receives If-Match=%q If-None-Match=%q", im, inm), Observed: detail})
			}
		})
	})
	registerReplay("C04", func(raw json.RawMessage) (bool, string) {
		var c c04Case
		if err := json.Unmarshal(raw, &c); err != nil {
			return false, err.Error()
		}
		var clause, detail string
		switch c.Part {
		case "agreement":
			clause, detail = c04Agreement(c.State, c.Path)
		case "listing":
			clause, detail, _ = c04Listing(c.State, c.Path, c.Tag)
		case "codec":
			others := append(c04Tags(1), "aa", `a"`, `"a`, "*")
			clause, detail = c04Codec(c.Tag, others)
		case "passthrough":
			clause, detail = c04PassThrough(c.Kind, c.IM, c.INM)
		case "double":
			clause, detail = c04DoubleTag(c.Tag)
		}
		return clause == "", clause + " " + detail
	})
}

func tagClass(t string) string {
	var f []string
	if t == "" {
		return "empty"
	}
	if strings.ContainsAny(t, `"`) {
		f = append(f, "quote")
	}
	if strings.ContainsAny(t, `\`) {
		f = append(f, "backslash")
	}
	for _, c := range []byte(t) {
		if c < 0x20 || c == 0x7f {
			f = append(f, "control")
			break
		}
	}
	for _, c := range []byte(t) {
		if c >= 0x80 {
			f = append(f, "non-ascii")
			break
		}
	}
	if len(f) == 0 {
		return "plain"
	}
	return strings.Join(f, "+")
}
