package checks

import (
	"encoding/json"
	"fmt"
	"path"
	"sort"
	"strings"

	"github.com/emersion/go-webdav/verifmc/engine"
	"github.com/emersion/go-webdav/verifmc/harness"
)

// C02 — refused or failed requests never change stored data (model-free oracle).

// condHeaderValues: the H set of C04 for a target whose current tag is cur ("" if none).
func condHeaderValues(cur string) []string {
	h := []string{"", "*", `"deadbeef"`, `"0"`, "abc", `""`, `"a"b"`, `"*"`}
	if cur != "" {
		h = append(h, cur, `W/`+cur)
	}
	return h
}

// c02Extra: conditional PUT/DELETE and failing PUT bodies, computed per state.
func c02Extra(quick bool) func(t harness.Tree, probe map[string]fileProbe) []harness.Req {
	return func(t harness.Tree, probe map[string]fileProbe) []harness.Req {
		var out []harness.Req
		maxDepth := 3
		if quick {
			maxDepth = 2
		}
		paths, _ := fsPaths(maxDepth, quick)
		for _, p := range paths {
			if p == "/" {
				continue
			}
			cur := ""
			if pr, ok := probe[p]; ok && pr.Status == 200 {
				cur = pr.ETag
			}
			hs := condHeaderValues(cur)
			for _, im := range hs {
				for _, inm := range hs {
					if im == "" && inm == "" {
						continue
					}
					h := map[string]string{}
					if im != "" {
						h["If-Match"] = im
					}
					if inm != "" {
						h["If-None-Match"] = inm
					}
					out = append(out, harness.Req{Method: "PUT", Path: p, Body: "new", Header: h})
					out = append(out, harness.Req{Method: "DELETE", Path: p, Header: h})
				}
			}
			// failing bodies
			for _, chunks := range [][]int{{4}, {1, 3}, {2, 2}, {1, 1, 1, 1}} {
				for k := 0; k <= 4; k++ {
					for _, e := range []string{"unexpected-eof", "canceled", "cancel-only"} {
						out = append(out, harness.Req{Method: "PUT", Path: p, Body: "WXYZ", Fault: &harness.BodyFault{Chunks: chunks, FailAt: k, Err: e}})
					}
				}
			}
			// the other methods with a body that fails (a handler that looks at the body only after its effect
			// would answer an error with the tree already changed)
			for _, k := range []int{0, 2} {
				for _, e := range []string{"unexpected-eof", "canceled"} {
					f := func() *harness.BodyFault { return &harness.BodyFault{Chunks: []int{2, 2}, FailAt: k, Err: e} }
					out = append(out, harness.Req{Method: "DELETE", Path: p, Body: "WXYZ", Fault: f()})
					out = append(out, harness.Req{Method: "MKCOL", Path: p, Body: "WXYZ", Fault: f()})
					out = append(out, harness.Req{Method: "COPY", Path: p, Body: "WXYZ", Header: map[string]string{"Destination": "/copied-by-faulty-request"}, Fault: f()})
					out = append(out, harness.Req{Method: "MOVE", Path: p, Body: "WXYZ", Header: map[string]string{"Destination": "/moved-by-faulty-request"}, Fault: f()})
				}
			}
			// the request context already cancelled when the handler starts: whatever is answered, an error
			// answer must leave the tree alone - also a COPY / MOVE onto an EXISTING destination
			pre := func() *harness.BodyFault {
				return &harness.BodyFault{Chunks: []int{4}, FailAt: 0, Err: "cancelled-before"}
			}
			out = append(out, harness.Req{Method: "DELETE", Path: p, Fault: pre()}, harness.Req{Method: "MKCOL", Path: p, Fault: pre()}, harness.Req{Method: "PUT", Path: p, Body: "WXYZ", Fault: pre()})
			for _, q := range paths {
				for _, m := range []string{"COPY", "MOVE"} {
					out = append(out, harness.Req{Method: m, Path: p, Header: map[string]string{"Destination": q, "Overwrite": "T"}, Fault: pre()})
				}
			}
		}
		// unclean spellings of source and destination (dot and dot-dot segments)
		unclean := func(p string) []string {
			return []string{"/." + p, path.Dir(p) + "/zz/../" + path.Base(p), p + "/."}
		}
		for _, m := range []string{"COPY", "MOVE"} {
			for _, src := range paths {
				if src == "/" {
					continue
				}
				for _, dst := range paths {
					if dst == "/" {
						continue
					}
					for _, d := range unclean(dst) {
						out = append(out, harness.Req{Method: m, Path: src, Header: map[string]string{"Destination": d}})
					}
					for _, s2 := range unclean(src) {
						out = append(out, harness.Req{Method: m, Path: s2, Header: map[string]string{"Destination": dst}})
					}
				}
			}
		}
		for _, p := range paths {
			if p == "/" {
				continue
			}
			for _, u := range unclean(p) {
				out = append(out, harness.Req{Method: "DELETE", Path: u, Raw: true, Header: map[string]string{"If-Match": `"nope"`}})
				out = append(out, harness.Req{Method: "PUT", Path: u, Raw: true, Body: "u", Header: map[string]string{"If-None-Match": "*"}})
			}
		}
		return out
	}
}

func c02Class(v *fsVisit) string {
	p := cleanP(v.Req.Path)
	k := kindOf(v.State, p)
	cls := v.Req.Method + ".target=" + k
	if v.Req.Method == "COPY" || v.Req.Method == "MOVE" {
		e := davModel(v.State, v.Req, func(string) string { return "" })
		cls = c01Coarse(e.Class)
	}
	if v.Req.Fault != nil {
		cls += ".body-fault=" + v.Req.Fault.Err
	}
	if v.Req.Header["If-Match"] != "" || v.Req.Header["If-None-Match"] != "" {
		cls += ".conditional"
	}
	return cls
}

func c02Diff(a, b harness.Tree) string {
	var l []string
	for k, n := range a {
		m, ok := b[k]
		switch {
		case !ok:
			l = append(l, "lost "+k)
		case m != n:
			l = append(l, "altered "+k)
		}
	}
	for k := range b {
		if _, ok := a[k]; !ok {
			l = append(l, "stray "+k)
		}
	}
	sort.Strings(l)
	return strings.Join(l, ", ")
}

func c02Judge(v *fsVisit) (clause, detail string) {
	if v.Resp.Panic != "" {
		return "panic", v.Resp.Panic
	}
	if v.Resp.Status >= 400 && v.After.Canon() != v.State.Canon() {
		return "tree-changed", c02Diff(v.State, v.After)
	}
	return "", ""
}

func treeHasLinks(t harness.Tree) bool {
	for _, n := range t {
		if n.Link != "" {
			return true
		}
	}
	return false
}

func c02Visit(v *fsVisit) {
	s := v.S
	if v.Resp.Status >= 400 {
		s.Clause("status>=400: on-disk tree (names, kinds, bytes, stray entries) identical to the tree before")
		s.Nontrivial(v.State.Canon() + "|" + v.Req.String())
	}
	if v.Req.Fault != nil {
		s.Count("body-fault executions")
		if v.Resp.Status < 400 {
			s.Count("body-fault answered <400 (observation)")
		}
	}
	s.Outcome(fmt.Sprintf("%s/%d/changed=%v", v.Req.Method, v.Resp.Status, v.After.Canon() != v.State.Canon()))
	clause, detail := c02Judge(v)
	if clause == "" {
		return
	}
	if clause == "tree-changed" && treeHasLinks(v.State) {
		// A symbolic link cannot be created by any request: such a tree is not a reachable state of the
		// statement's resource tree (names, kinds = file or collection, contents), and the aliasing it
		// introduces (two URLs for one file) is not part of the RFC 4918 tree. Counted, not judged.
		s.Count("tree with symbolic links changed under >=400 (observation; state unreachable by requests)")
		return
	}
	kinds := detail
	if clause == "tree-changed" {
		// abstract the diff to its kinds
		set := map[string]bool{}
		for _, d := range strings.Split(detail, ", ") {
			set[strings.SplitN(d, " ", 2)[0]] = true
		}
		kinds = strings.Join(sortedKeys(set), "+")
	}
	s.Violate(engine.Violation{Sig: fmt.Sprintf("C02/%s/%s/got=%d/%s", clause, c02Class(v), v.Resp.Status, strings.ToLower(kinds)), Clause: clause, Index: v.Index, Kind: "C02",
		Case: fsCase{State: v.State, Req: v.Req, Spell: v.Spell}, Expected: "tree unchanged: " + v.State.Canon(),
		Observed: fmt.Sprintf("status %d; tree %s (%s); body=%q", v.Resp.Status, v.After.Canon(), detail, trunc(string(v.Resp.Body), 160))})
}

func init() {
	register("C02", func(r *engine.Run) {
		quick := !thorough(r)
		contents := []string{"x", "yy"}
		if quick {
			contents = []string{"x"}
		}
		states := append(fsUniverse(contents), fsProbeStates()...)
		states = append(states, fsLinkStates()...)
		reqs := fsRequests(quick)
		r.Rule = fmt.Sprintf("the C01 universe (%d states, among them trees holding symbolic links, x %d requests) plus, per state, PUT/DELETE with every (If-Match, If-None-Match) pair over {unset,*,current,other,stale,unquoted,weak,empty-quoted} on every path, plus PUT of a 4-byte body whose reader fails at every offset 0..4 x 4 chunkings x {unexpected EOF, context cancelled}; non-trivial = answered >= 400 (the oracle applies); distinct by (tree, request)", len(states), len(reqs))
		r.Explanation = "model-free oracle on the same explicit-state exploration as C01: whenever the real handler answers >= 400 the directory tree read back from disk (every entry, so stray temporary files count) must be identical to the tree before the request"
		r.Assumptions = []string{"a failing disk (injected OS errors) is outside the property's quantifier", "trees holding symbolic links (which no request can create) are explored for panics and counted, but a change under >=400 there is an observation, not a violation"}
		exploreFSx(r, states, reqs, c02Extra(quick), func(v *fsVisit) {
			c02Visit(v)
			if v.Req.Fault != nil && v.Index%977 == 3 {
				v.S.Sample(map[string]interface{}{"state": v.State.Canon(), "request": v.Req.String(), "status": v.Resp.Status, "after": v.After.Canon()})
			}
		})
	})
	registerReplay("C02", func(raw json.RawMessage) (bool, string) {
		var c fsCase
		if err := json.Unmarshal(raw, &c); err != nil {
			return false, err.Error()
		}
		v := fsReplay(c)
		clause, detail := c02Judge(v)
		return clause == "", fmt.Sprintf("status %d; before %s; after %s; %s %s", v.Resp.Status, v.State.Canon(), v.After.Canon(), clause, detail)
	})
}
