package checks

import (
	"context"
	"encoding/json"
	"fmt"
	"io"
	"os"
	"path"
	"path/filepath"
	"sort"
	"strings"
	"time"

	webdav "github.com/emersion/go-webdav"
	"github.com/emersion/go-webdav/verifmc/engine"
	"github.com/emersion/go-webdav/verifmc/harness"
)

// C05 — WebDAV client and server agree on names, metadata and content.

type c05Case struct {
	Backend  string           `json:"backend"` // memfs | localfs
	Endpoint string           `json:"endpoint"`
	Op       string           `json:"op"`
	Name     string           `json:"name"`
	Name2    string           `json:"name2,omitempty"`
	Rel      bool             `json:"relative,omitempty"`
	Meta     int              `json:"meta"`
	Opt      int              `json:"opt,omitempty"` // bit0 NoRecursive/recursive, bit1 NoOverwrite
	Info     *webdav.FileInfo `json:"-"`
}

var c05Endpoints = []string{"http://h", "http://h/", "http://h/pre", "http://h/pre/", "http://h/p q/", "http://user:pw@h:8080/pre/"}

func c05Base(endpoint string) string {
	i := strings.Index(endpoint[7:], "/")
	if i < 0 {
		return ""
	}
	return strings.TrimSuffix(endpoint[7+i:], "/")
}

type c05Meta struct {
	ETag    string
	ModTime time.Time
	MIME    string
	Size    int64
}

func c05Metas() []c05Meta {
	var out []c05Meta
	base := c05Meta{ETag: "tag", ModTime: time.Unix(1600000000, 0).UTC(), MIME: "text/plain", Size: 4}
	out = append(out, base)
	for _, t := range []string{`a"b`, `a\b`, "a b", "a,b", "é", `"`, `\`, "W/x", "*", ""} {
		m := base
		m.ETag = t
		out = append(out, m)
	}
	for _, t := range []time.Time{time.Unix(0, 0).UTC(), time.Unix(1599999999, 999999999).UTC(), time.Date(1, 1, 2, 0, 0, 0, 0, time.UTC), time.Unix(1<<31+1, 0).UTC(),
		time.Date(9999, 12, 31, 23, 59, 59, 0, time.UTC), time.Unix(1600000000, 0).In(time.FixedZone("a", 5*3600+1800)), time.Unix(1600000000, 0).In(time.FixedZone("b", -12*3600)), {}} {
		m := base
		m.ModTime = t
		out = append(out, m)
	}
	for _, t := range []string{"", "text/plain; charset=utf-8", `application/x-weird+xml; a="b c"`, "x/y", "Text/HTML; Charset=UTF-8", "text/plain;charset=utf-8", `text/x; b=2; a="q"`} {
		m := base
		m.MIME = t
		out = append(out, m)
	}
	for _, t := range []int64{0, 1, 1 << 31, 1<<63 - 1} {
		m := base
		m.Size = t
		out = append(out, m)
	}
	return out
}

func c05Tree(base, name string, meta c05Meta) *harness.MemFS {
	fs := harness.NewMemFS()
	root := base + "/"
	fs.Add(webdav.FileInfo{Path: root, IsDir: true}, "")
	fi := func(p string) webdav.FileInfo {
		return webdav.FileInfo{Path: p, Size: meta.Size, ModTime: meta.ModTime, MIMEType: meta.MIME, ETag: meta.ETag}
	}
	fs.Add(fi(base+"/"+name), "DATA")
	fs.Add(webdav.FileInfo{Path: base + "/d", IsDir: true}, "")
	fs.Add(fi(base+"/d/"+name), "DATA")
	fs.Add(webdav.FileInfo{Path: base + "/d/" + name + ".dir", IsDir: true}, "")
	fs.Add(fi(base+"/d/"+name+".dir/"+name), "DATA")
	fs.Add(webdav.FileInfo{Path: base + "/other", Size: 1, ETag: "o"}, "o")
	// a file lacking every optional property, listed after files that have them
	fs.Add(webdav.FileInfo{Path: base + "/d/zz-bare", Size: 2}, "zz")
	return fs
}

func c05SameInfo(got, want webdav.FileInfo) string {
	if got.Path != want.Path {
		return fmt.Sprintf("path %q want %q", got.Path, want.Path)
	}
	if got.IsDir != want.IsDir {
		return fmt.Sprintf("%s: IsDir %v want %v", want.Path, got.IsDir, want.IsDir)
	}
	if want.IsDir {
		return "" // size/mtime/type/tag of collections are not exposed by design; not judged
	}
	if got.Size != want.Size {
		return fmt.Sprintf("%s: size %d want %d", want.Path, got.Size, want.Size)
	}
	if got.ModTime.Unix() != want.ModTime.Unix() && !(want.ModTime.IsZero() && got.ModTime.IsZero()) {
		return fmt.Sprintf("%s: modtime %v want %v", want.Path, got.ModTime.UTC(), want.ModTime.UTC())
	}
	if got.MIMEType != want.MIMEType {
		return fmt.Sprintf("%s: type %q want %q", want.Path, got.MIMEType, want.MIMEType)
	}
	if got.ETag != want.ETag {
		return fmt.Sprintf("%s: etag %q want %q", want.Path, got.ETag, want.ETag)
	}
	return ""
}

func c05Arg(base, name string, rel bool) string {
	if rel {
		return name // resolved against the endpoint path by the client
	}
	return base + "/" + name
}

func c05JudgeMem(c c05Case) (clause, detail string) {
	defer func() {
		if p := recover(); p != nil {
			clause, detail = "panic", fmt.Sprint(p)
		}
	}()
	metas := c05Metas()
	meta := metas[c.Meta%len(metas)]
	base := c05Base(c.Endpoint)
	fs := c05Tree(base, c.Name, meta)
	w := &harness.Wire{Handler: &webdav.Handler{FileSystem: fs}}
	cl, err := webdav.NewClient(w.Client(), c.Endpoint)
	if err != nil {
		return "client", err.Error()
	}
	if strings.Contains(c.Endpoint, "user:pw@") {
		// credentials and port given in the endpoint URL accompany every request
		defer func() {
			if clause != "" {
				return
			}
			for i, a := range w.Auths {
				if a != "Basic dXNlcjpwdw==" || w.Targets[i] != "http://h:8080" {
					clause, detail = "endpoint-credentials-or-authority-lost", fmt.Sprintf("request %d went to %s with Authorization %q", i, w.Targets[i], a)
				}
			}
		}()
	}
	ctx := context.Background()
	full := base + "/" + c.Name
	want := fs.Files[full].Info
	last := func(method string) *harness.Call {
		calls := fs.Snapshot()
		for i := len(calls) - 1; i >= 0; i-- {
			if calls[i].Method == method {
				return &calls[i]
			}
		}
		return nil
	}
	switch c.Op {
	case "readdir-large":
		// a listing far beyond a megabyte (many members, long non-ASCII names): every member arrives once
		n := 1500 + 500*c.Opt
		long := strings.Repeat("é日", 40)
		fs.Add(webdav.FileInfo{Path: base + "/big", IsDir: true}, "")
		for i := 0; i < n; i++ {
			fs.Add(webdav.FileInfo{Path: fmt.Sprintf("%s/big/%05d-%s-%s", base, i, c.Name, long), Size: int64(i), ETag: fmt.Sprintf("t%d", i), MIMEType: "text/plain"}, "")
		}
		l, err := cl.ReadDir(ctx, c05Arg(base, "big", c.Rel), false)
		if err != nil {
			return "readdir-large-error", fmt.Sprintf("%d members: %v", n, err)
		}
		seen := map[string]bool{}
		for _, fi := range l {
			if seen[fi.Path] {
				return "readdir-large-duplicate", fi.Path
			}
			seen[fi.Path] = true
			wi, ok := fs.Files[fi.Path]
			if !ok {
				return "readdir-unknown-path", trunc(fi.Path, 80)
			}
			if !fi.IsDir && (fi.Size != wi.Info.Size || fi.ETag != wi.Info.ETag) {
				return "readdir-differs", trunc(fi.Path, 80)
			}
		}
		if len(l) != n+1 {
			return "readdir-large-scope", fmt.Sprintf("%d entries for a collection with %d members", len(l), n)
		}
	case "stat":
		fi, err := cl.Stat(ctx, c05Arg(base, c.Name, c.Rel))
		if err != nil {
			return "stat-error", err.Error()
		}
		if d := c05SameInfo(*fi, want); d != "" {
			return "stat-differs", d
		}
	case "open":
		rc, err := cl.Open(ctx, c05Arg(base, c.Name, c.Rel))
		if err != nil {
			return "open-error", err.Error()
		}
		b, _ := io.ReadAll(rc)
		rc.Close()
		if string(b) != "DATA" {
			return "open-bytes", fmt.Sprintf("%q", b)
		}
	case "readdir":
		dir := "d"
		recursive := c.Opt&1 == 1
		fs.Reset()
		l, err := cl.ReadDir(ctx, c05Arg(base, dir, c.Rel), recursive)
		if err != nil {
			return "readdir-error", err.Error()
		}
		// the backend is asked for exactly the named collection (no slash added, no other spelling)
		for _, call := range fs.Snapshot() {
			if (call.Method == "ReadDir" || call.Method == "Stat") && call.Path != base+"/d" {
				return "readdir-wrong-name", fmt.Sprintf("backend %s(%q), want %q", call.Method, call.Path, base+"/d")
			}
		}
		if c.Rel && c.Opt&1 == 0 {
			// the empty relative name is the endpoint collection itself, not the server root
			fs.Reset()
			if _, err := cl.ReadDir(ctx, "", false); err == nil || base != "" {
				for _, call := range fs.Snapshot() {
					if call.Method == "ReadDir" && path.Clean("/"+call.Path) != path.Clean("/"+base) {
						return "readdir-wrong-name", fmt.Sprintf("ReadDir(\"\") reached the backend as %s(%q), the endpoint collection is %q", call.Method, call.Path, base)
					}
				}
			}
		}
		wantPaths := []string{base + "/d", base + "/d/" + c.Name, base + "/d/" + c.Name + ".dir", base + "/d/zz-bare"}
		if recursive {
			wantPaths = append(wantPaths, base+"/d/"+c.Name+".dir/"+c.Name)
		}
		sort.Strings(wantPaths)
		var got []string
		for _, fi := range l {
			got = append(got, fi.Path)
			wi, ok := fs.Files[fi.Path]
			if !ok {
				return "readdir-unknown-path", fmt.Sprintf("%q", fi.Path)
			}
			if d := c05SameInfo(fi, wi.Info); d != "" {
				return "readdir-differs", d
			}
			// the path must address the same entry again
			st, err := cl.Stat(ctx, fi.Path)
			if err != nil {
				return "readdir-path-not-addressable", fmt.Sprintf("%q: %v", fi.Path, err)
			}
			if d := c05SameInfo(*st, wi.Info); d != "" {
				return "readdir-path-addresses-other", d
			}
		}
		sort.Strings(got)
		if fmt.Sprint(got) != fmt.Sprint(wantPaths) {
			return "readdir-scope", fmt.Sprintf("got %q want %q", got, wantPaths)
		}
	case "create":
		wc, err := cl.Create(ctx, c05Arg(base, c.Name+"-new", c.Rel))
		if err != nil {
			return "create-error", err.Error()
		}
		payload := "written \x00 bytes é\n" + c.Name
		if _, err := io.WriteString(wc, payload[:5]); err != nil {
			return "create-write", err.Error()
		}
		if _, err := io.WriteString(wc, payload[5:]); err != nil {
			return "create-write", err.Error()
		}
		if err := wc.Close(); err != nil {
			return "create-close", err.Error()
		}
		f, ok := fs.Files[full+"-new"]
		if !ok {
			return "create-wrong-name", fmt.Sprintf("stored as %v", last("Create"))
		}
		if string(f.Data) != payload {
			return "create-bytes", fmt.Sprintf("%q", f.Data)
		}
	case "mkdir":
		if err := cl.Mkdir(ctx, c05Arg(base, c.Name+"-newdir", c.Rel)); err != nil {
			return "mkdir-error", err.Error()
		}
		if cl := last("Mkdir"); cl == nil || strings.TrimSuffix(cl.Path, "/") != full+"-newdir" {
			return "mkdir-wrong-name", fmt.Sprint(cl)
		}
	case "removeall":
		if err := cl.RemoveAll(ctx, c05Arg(base, c.Name, c.Rel)); err != nil {
			return "removeall-error", err.Error()
		}
		if cl := last("RemoveAll"); cl == nil || cl.Path != full {
			return "removeall-wrong-name", fmt.Sprint(cl)
		}
		if _, still := fs.Files[full]; still {
			return "removeall-no-effect", full
		}
	case "copy", "move":
		dstName := c.Name2
		if dstName == "" {
			dstName = c.Name + "-dst"
		}
		dst := "d/" + dstName
		if c.Name2 == "\x00case" {
			// a sibling whose name differs from the source's only in letter case: another resource
			dst = swapCase(c.Name)
		}
		var err error
		wantOpt := ""
		if c.Op == "copy" {
			o := &webdav.CopyOptions{NoRecursive: c.Opt&1 == 1, NoOverwrite: c.Opt&2 == 2}
			wantOpt = js(*o)
			if c.Opt == 4 {
				o, wantOpt = nil, js(webdav.CopyOptions{})
			}
			err = cl.Copy(ctx, c05Arg(base, c.Name, c.Rel), c05Arg(base, dst, c.Rel), o)
		} else {
			o := &webdav.MoveOptions{NoOverwrite: c.Opt&2 == 2}
			wantOpt = js(*o)
			if c.Opt == 4 {
				o, wantOpt = nil, js(webdav.MoveOptions{})
			}
			err = cl.Move(ctx, c05Arg(base, c.Name, c.Rel), c05Arg(base, dst, c.Rel), o)
		}
		if err != nil {
			return c.Op + "-error", err.Error()
		}
		call := last(map[string]string{"copy": "Copy", "move": "Move"}[c.Op])
		if call == nil {
			return c.Op + "-not-delivered", ""
		}
		arg := call.Arg.(map[string]interface{})
		if call.Path != full || arg["dest"] != base+"/"+dst {
			return c.Op + "-wrong-names", fmt.Sprintf("backend got %q -> %q want %q -> %q", call.Path, arg["dest"], full, base+"/"+dst)
		}
		if js(arg["options"]) != wantOpt {
			return c.Op + "-wrong-options", fmt.Sprintf("backend got %s want %s", js(arg["options"]), wantOpt)
		}
	}
	return "", ""
}

// LocalFileSystem on disk: real names and metadata
func c05JudgeLocal(c c05Case) (clause, detail string) {
	defer func() {
		if p := recover(); p != nil {
			clause, detail = "panic", fmt.Sprint(p)
		}
	}()
	root := harness.NewDir("c05-")
	defer os.RemoveAll(root)
	os.MkdirAll(filepath.Join(root, "d", c.Name+".dir"), 0o755)
	mt := time.Unix(1500000000+int64(len(c.Name)), 0)
	for _, p := range []string{c.Name, "d/" + c.Name, "d/" + c.Name + ".dir/" + c.Name} {
		os.WriteFile(filepath.Join(root, p), []byte("DATA-"+p), 0o644)
		os.Chtimes(filepath.Join(root, p), mt, mt)
	}
	w := &harness.Wire{Handler: &webdav.Handler{FileSystem: webdav.LocalFileSystem(root)}}
	cl, err := webdav.NewClient(w.Client(), "http://h/")
	if err != nil {
		return "client", err.Error()
	}
	ctx := context.Background()
	arg := func(n string) string {
		if c.Rel {
			return n
		}
		return "/" + n
	}
	switch c.Op {
	case "stat":
		fi, err := cl.Stat(ctx, arg(c.Name))
		if err != nil {
			return "stat-error", err.Error()
		}
		if fi.Path != "/"+c.Name || fi.IsDir || fi.Size != int64(len("DATA-"+c.Name)) || fi.ModTime.Unix() != mt.Unix() || fi.ETag == "" {
			return "stat-differs", fmt.Sprintf("%+v", *fi)
		}
	case "open":
		rc, err := cl.Open(ctx, arg("d/"+c.Name))
		if err != nil {
			return "open-error", err.Error()
		}
		b, _ := io.ReadAll(rc)
		rc.Close()
		if string(b) != "DATA-d/"+c.Name {
			return "open-bytes", fmt.Sprintf("%q", b)
		}
	case "readdir":
		recursive := c.Opt&1 == 1
		l, err := cl.ReadDir(ctx, arg("d"), recursive)
		if err != nil {
			return "readdir-error", err.Error()
		}
		want := []string{"/d", "/d/" + c.Name, "/d/" + c.Name + ".dir"}
		if recursive {
			want = append(want, "/d/"+c.Name+".dir/"+c.Name)
		}
		sort.Strings(want)
		var got []string
		for _, fi := range l {
			got = append(got, path.Clean(fi.Path))
			st, err := cl.Stat(ctx, fi.Path)
			if err != nil {
				return "readdir-path-not-addressable", fmt.Sprintf("%q: %v", fi.Path, err)
			}
			if st.IsDir != fi.IsDir || st.Size != fi.Size || st.ETag != fi.ETag {
				return "readdir-path-addresses-other", fmt.Sprintf("%+v vs %+v", *st, fi)
			}
			osfi, err := os.Stat(filepath.Join(root, filepath.FromSlash(fi.Path)))
			if err != nil || osfi.IsDir() != fi.IsDir || (!fi.IsDir && (osfi.Size() != fi.Size || osfi.ModTime().Unix() != fi.ModTime.Unix())) {
				return "readdir-differs", fmt.Sprintf("%+v vs disk (%v)", fi, err)
			}
		}
		sort.Strings(got)
		if fmt.Sprint(got) != fmt.Sprint(want) {
			return "readdir-scope", fmt.Sprintf("got %q want %q", got, want)
		}
	case "create":
		wc, err := cl.Create(ctx, arg("d/"+c.Name+"-new"))
		if err != nil {
			return "create-error", err.Error()
		}
		io.WriteString(wc, "abc")
		io.WriteString(wc, "\x00def")
		if err := wc.Close(); err != nil {
			return "create-close", err.Error()
		}
		b, err := os.ReadFile(filepath.Join(root, "d", c.Name+"-new"))
		if err != nil || string(b) != "abc\x00def" {
			return "create-bytes", fmt.Sprintf("%q %v", b, err)
		}
		// replace an existing, longer file: exactly the new bytes must be stored
		wc, err = cl.Create(ctx, arg("d/"+c.Name))
		if err != nil {
			return "create-error", err.Error()
		}
		io.WriteString(wc, "S")
		if err := wc.Close(); err != nil {
			return "create-close", err.Error()
		}
		if b, err := os.ReadFile(filepath.Join(root, "d", c.Name)); err != nil || string(b) != "S" {
			return "create-replace-bytes", fmt.Sprintf("%q %v", b, err)
		}
		if fi, err := cl.Stat(ctx, arg("d/"+c.Name)); err != nil || fi.Size != 1 {
			return "create-replace-size", fmt.Sprintf("%+v %v", fi, err)
		}
	case "mkdir":
		if err := cl.Mkdir(ctx, arg(c.Name+"-newdir")); err != nil {
			return "mkdir-error", err.Error()
		}
		if st, err := os.Stat(filepath.Join(root, c.Name+"-newdir")); err != nil || !st.IsDir() {
			return "mkdir-wrong-name", fmt.Sprint(err)
		}
	case "removeall":
		if err := cl.RemoveAll(ctx, arg("d/"+c.Name+".dir")); err != nil {
			return "removeall-error", err.Error()
		}
		if _, err := os.Stat(filepath.Join(root, "d", c.Name+".dir")); !os.IsNotExist(err) {
			return "removeall-no-effect", fmt.Sprint(err)
		}
		if _, err := os.Stat(filepath.Join(root, "d", c.Name)); err != nil {
			return "removeall-removed-sibling", err.Error()
		}
	case "copysib", "movesib":
		// destination is a sibling whose name has the source name as a string prefix (and vice versa)
		pairs := [][2]string{{"d/" + c.Name, "d/" + c.Name + ".bak"}, {"d/" + c.Name + ".dir", "d/" + c.Name + ".di"}}
		if sc := swapCase(c.Name); sc != c.Name {
			// a sibling differing only in letter case is another resource (the sandbox's file system is case-sensitive)
			pairs = append(pairs, [2]string{"d/" + c.Name + ".bak", "d/" + sc + ".BAK"})
		}
		for _, pr := range pairs {
			var err error
			if c.Op == "copysib" {
				err = cl.Copy(ctx, arg(pr[0]), arg(pr[1]), nil)
			} else {
				err = cl.Move(ctx, arg(pr[0]), arg(pr[1]), nil)
			}
			if err != nil {
				return c.Op + "-error", fmt.Sprintf("%s -> %s: %v", pr[0], pr[1], err)
			}
			if _, err := os.Stat(filepath.Join(root, filepath.FromSlash(pr[1]))); err != nil {
				return c.Op + "-wrong-names", err.Error()
			}
			_, errSrc := os.Stat(filepath.Join(root, filepath.FromSlash(pr[0])))
			if (errSrc == nil) != (c.Op == "copysib") {
				return c.Op + "-source", fmt.Sprint(errSrc)
			}
		}
	case "overwrite":
		// Copy/Move onto an EXISTING destination, every source kind x destination kind, with and without
		// permission to overwrite: Opt bit0 = move, bit1 = source is a collection, bit2 = destination is a
		// collection (holding a member of its own), bit3 = NoOverwrite
		move, srcDir, dstDir, noOW := c.Opt&1 != 0, c.Opt&2 != 0, c.Opt&4 != 0, c.Opt&8 != 0
		src := "d/" + c.Name
		if srcDir {
			src = "d/" + c.Name + ".dir"
		}
		dst := c.Name + "-old"
		if dstDir {
			os.MkdirAll(filepath.Join(root, dst), 0o755)
			os.WriteFile(filepath.Join(root, dst, "old-member"), []byte("OLD"), 0o644)
		} else {
			os.WriteFile(filepath.Join(root, dst), []byte("OLD-CONTENT-LONGER-THAN-THE-NEW-ONE"), 0o644)
		}
		before, _ := harness.Snapshot(root)
		var err error
		if move {
			err = cl.Move(ctx, arg(src), arg(dst), &webdav.MoveOptions{NoOverwrite: noOW})
		} else {
			err = cl.Copy(ctx, arg(src), arg(dst), &webdav.CopyOptions{NoOverwrite: noOW})
		}
		after, _ := harness.Snapshot(root)
		if noOW {
			if err == nil {
				return "overwrite-not-refused", "no error although the destination exists and overwriting was not allowed"
			}
			if after.Canon() != before.Canon() {
				return "overwrite-refused-but-changed", fmt.Sprintf("before %s after %s", before.Canon(), after.Canon())
			}
			return "", ""
		}
		if err != nil {
			return "overwrite-error", fmt.Sprintf("%s -> existing %s: %v", src, dst, err)
		}
		want := before.Clone()
		for p := range before {
			if p == "/"+dst || strings.HasPrefix(p, "/"+dst+"/") {
				delete(want, p)
			}
		}
		for p, n := range before {
			if p == "/"+src || strings.HasPrefix(p, "/"+src+"/") {
				want["/"+dst+strings.TrimPrefix(p, "/"+src)] = n
				if move {
					delete(want, p)
				}
			}
		}
		if after.Canon() != want.Canon() {
			return "overwrite-result", fmt.Sprintf("tree %s want %s", after.Canon(), want.Canon())
		}
	case "copy", "move":
		dstName := c.Name2
		if dstName == "" {
			dstName = c.Name + "-dst"
		}
		var err error
		if c.Op == "copy" {
			err = cl.Copy(ctx, arg("d/"+c.Name+".dir"), arg(dstName), &webdav.CopyOptions{NoRecursive: c.Opt&1 == 1})
		} else {
			err = cl.Move(ctx, arg("d/"+c.Name+".dir"), arg(dstName), nil)
		}
		if err != nil {
			return c.Op + "-error", err.Error()
		}
		if st, err := os.Stat(filepath.Join(root, dstName)); err != nil || !st.IsDir() {
			return c.Op + "-wrong-names", fmt.Sprint(err)
		}
		_, errInner := os.Stat(filepath.Join(root, dstName, c.Name))
		wantInner := !(c.Op == "copy" && c.Opt&1 == 1)
		if (errInner == nil) != wantInner {
			return c.Op + "-wrong-options", fmt.Sprintf("member copied=%v want %v", errInner == nil, wantInner)
		}
		_, errSrc := os.Stat(filepath.Join(root, "d", c.Name+".dir"))
		if (errSrc == nil) != (c.Op == "copy") {
			return c.Op + "-source", fmt.Sprint(errSrc)
		}
	}
	return "", ""
}

func c05Judge(c c05Case) (string, string) {
	if c.Backend == "localfs" {
		return c05JudgeLocal(c)
	}
	return c05JudgeMem(c)
}

func c05NameClass(n string) string {
	var f []string
	for _, p := range []struct{ k, chars string }{{"space", " "}, {"percent", "%"}, {"urlmeta", "#?;"}, {"xmlmeta", "&<>\"'"}, {"plus-eq", "+=,"}, {"colon", ":"}, {"backslash", `\`}, {"star-tilde", "*~"}} {
		if strings.ContainsAny(n, p.chars) {
			f = append(f, p.k)
		}
	}
	for _, r := range n {
		if r > 127 {
			f = append(f, "non-ascii")
			break
		}
	}
	if strings.HasPrefix(n, ".") {
		f = append(f, "dotfile")
	}
	if len(f) == 0 {
		return "plain"
	}
	return strings.Join(f, "+")
}

func swapCase(s string) string {
	return strings.Map(func(r rune) rune {
		switch {
		case r >= 'a' && r <= 'z':
			return r - 32
		case r >= 'A' && r <= 'Z':
			return r + 32
		}
		return r
	}, s)
}

func init() {
	register("C05", func(r *engine.Run) {
		full := thorough(r)
		defer harness.Cleanup()
		var cases []c05Case
		ops := []string{"stat", "open", "readdir", "create", "mkdir", "removeall", "copy", "move"}
		nm := len(c05Metas())
		k := 0
		for _, ep := range c05Endpoints {
			for _, n := range c05Names {
				for _, op := range ops {
					for _, rel := range []bool{false, true} {
						opts := []int{0}
						switch op {
						case "readdir":
							opts = []int{0, 1}
						case "copy":
							opts = []int{0, 1, 2, 3, 4}
						case "move":
							opts = []int{0, 2, 4}
						}
						for _, o := range opts {
							k++
							cases = append(cases, c05Case{Backend: "memfs", Endpoint: ep, Op: op, Name: n, Rel: rel, Opt: o, Meta: k % nm})
						}
					}
				}
			}
		}
		// listings of several megabytes
		for o, n := range []string{"a", "a b", "100%"} {
			cases = append(cases, c05Case{Backend: "memfs", Endpoint: "http://h/pre/", Op: "readdir-large", Name: n, Opt: o, Rel: o == 1})
		}
		// every metadata value with every read call
		for m := 0; m < nm; m++ {
			for _, op := range []string{"stat", "readdir"} {
				for _, n := range []string{"a", "a b", "é"} {
					cases = append(cases, c05Case{Backend: "memfs", Endpoint: "http://h/pre/", Op: op, Name: n, Meta: m, Opt: 1})
				}
			}
		}
		if full {
			// every name x every endpoint x every metadata variant for the read calls
			for _, ep := range c05Endpoints {
				for _, n := range c05Names {
					for m := 0; m < nm; m++ {
						for _, op := range []string{"stat", "readdir"} {
							cases = append(cases, c05Case{Backend: "memfs", Endpoint: ep, Op: op, Name: n, Meta: m, Opt: 1, Rel: m%2 == 0})
						}
					}
				}
			}
		}
		// name x name pairs for copy/move
		names2 := c05Names
		if !full {
			names2 = c05Names[:7]
		}
		for _, a := range c05Names {
			for _, b := range names2 {
				for _, op := range []string{"copy", "move"} {
					cases = append(cases, c05Case{Backend: "memfs", Endpoint: "http://h/pre", Op: op, Name: a, Name2: b, Rel: len(a)%2 == 0})
				}
			}
		}
		for _, a := range c05Names {
			if swapCase(a) != a {
				for _, op := range []string{"copy", "move"} {
					cases = append(cases, c05Case{Backend: "memfs", Endpoint: "http://h/pre", Op: op, Name: a, Name2: "\x00case", Rel: len(a)%2 == 1})
				}
			}
		}
		// LocalFileSystem on disk
		for _, n := range c05Names {
			for o := 0; o < 16; o++ {
				cases = append(cases, c05Case{Backend: "localfs", Endpoint: "http://h/", Op: "overwrite", Name: n, Rel: o%3 == 0, Opt: o})
			}
			for _, op := range append(append([]string(nil), ops...), "copysib", "movesib") {
				for _, rel := range []bool{false, true} {
					opts := []int{0}
					if op == "readdir" || op == "copy" {
						opts = []int{0, 1}
					}
					for _, o := range opts {
						cases = append(cases, c05Case{Backend: "localfs", Endpoint: "http://h/", Op: op, Name: n, Rel: rel, Opt: o})
					}
				}
			}
		}
		r.Rule = fmt.Sprintf("every name of a 20-name alphabet (space, leading blank, literal %%20, %%, #, ?, ;, +, &<>, quotes, colon, non-ASCII, ~, dotfile, backslash, literal %%2f, =, comma, *) x 5 endpoint URLs (with/without path prefix, trailing slash, blank in prefix) x {Stat, Open, ReadDir(non-recursive, recursive), Create+Write+Write+Close, Mkdir, RemoveAll, Copy x 5 option forms, Move x 3} x {absolute, relative} names over an in-memory FileSystem holding arbitrary metadata (%d metadata variants rotated; every variant with Stat/ReadDir), name x name pairs for Copy/Move, and the same calls against LocalFileSystem on disk; all through the wire-faithful transport; non-trivial = every case", nm)
		r.Explanation = "the client's results are compared with the backend's FileInfo values and bytes (path byte-for-byte, kind; size, mtime to the second, type, tag for non-collections); mutating calls must arrive at the recording backend with exactly the resolved names and the requested options; ReadDir scope and re-addressability of every returned path are checked"
		r.Assumptions = []string{"size/mtime/type/tag of collections are not exposed by the server by design: not judged", "entity tags containing bytes that XML 1.0 cannot carry are outside the alphabet"}
		r.Parallel(len(cases), func(i int, s *engine.Shard) {
			c := cases[i]
			s.Transition()
			clause, detail := c05Judge(c)
			s.Clause(c.Op + ": result equals backend value / arguments equal resolved names and options")
			s.Outcome(c.Backend + "/" + c.Op + "/" + clause)
			s.Nontrivial(js(c))
			if i%2003 == 77 {
				s.Sample(c)
			}
			if clause != "" {
				s.Violate(engine.Violation{Sig: fmt.Sprintf("C05/%s/%s.rel=%v/%s", clause, c.Backend, c.Rel, c05NameClass(c.Name+c.Name2)), Clause: clause, Index: int64(i), Kind: "C05", Case: c,
					Expected: "client result equals the backend's value", Observed: detail})
			}
		})
	})
	registerReplay("C05", func(raw json.RawMessage) (bool, string) {
		var c c05Case
		if err := json.Unmarshal(raw, &c); err != nil {
			return false, err.Error()
		}
		defer harness.Cleanup()
		clause, detail := c05Judge(c)
		return clause == "", clause + " " + detail
	})
}
