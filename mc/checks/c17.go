package checks

import (
	"encoding/json"
	"fmt"
	"path/filepath"
	"strings"

	"github.com/emersion/go-webdav/verifmc/engine"
	"github.com/emersion/go-webdav/verifmc/harness"
)

// C17 — responses never disclose the host path of the served directory.

// leakIn returns the first host-path fragment found in the response, or "".
func leakIn(resp harness.Resp, root, rootReal string) string {
	tokens := []string{rootToken, filepath.Base(harness.ScratchRoot())}
	// every prefix of >= 2 segments of either spelling of the root
	for _, r := range []string{root, rootReal} {
		segs := strings.Split(strings.Trim(r, "/"), "/")
		for n := 2; n <= len(segs); n++ {
			tokens = append(tokens, "/"+strings.Join(segs[:n], "/"))
		}
	}
	scan := func(s string) string {
		for _, t := range tokens {
			if t != "" && strings.Contains(s, t) {
				return t
			}
		}
		return ""
	}
	if t := scan(string(resp.Body)); t != "" {
		return "body contains " + t
	}
	for k, vs := range resp.Header {
		for _, v := range vs {
			if t := scan(v); t != "" {
				return "header " + k + " contains " + t
			}
		}
	}
	return ""
}

func c17Visit(v *fsVisit) {
	s := v.S
	s.Clause("no header value or body contains the root path (either spelling) or a >=2-segment prefix of it")
	s.Outcome(fmt.Sprintf("%s/%d", v.Req.Method, v.Resp.Status))
	if v.Resp.Status >= 400 {
		s.Nontrivial(v.State.Canon() + "|" + v.Req.String())
	}
	if l := leakIn(v.Resp, v.Root, v.RootReal); l != "" {
		e := davModel(v.State, v.Req, func(string) string { return "" })
		where := strings.SplitN(l, " contains", 2)[0]
		sig := fmt.Sprintf("C17/leak/%s/status=%d/%s", c01Coarse(e.Class), v.Resp.Status, strings.ReplaceAll(where, " ", "-"))
		if v.Spell != 0 {
			sig += "/root=" + fsRootSpellings[v.Spell]
		}
		s.Violate(engine.Violation{Sig: sig, Clause: "leak", Index: v.Index, Kind: "C17",
			Case: fsCase{State: v.State, Req: v.Req, Spell: v.Spell}, Expected: "no host path in the response", Observed: fmt.Sprintf("status %d: %s; body=%q", v.Resp.Status, l, trunc(string(v.Resp.Body), 200))})
	}
}

func init() {
	register("C17", func(r *engine.Run) {
		quick := !thorough(r)
		contents := []string{"x", "yy"}
		if quick {
			contents = []string{"x"}
		}
		states := append(fsUniverse(contents), fsProbeStates()...)
		// trees that hold symbolic links (to a collection, to a file, dangling, to an ancestor): only the leak
		// invariant is judged on them
		states = append(states, fsLinkStates()...)
		reqs := fsRequests(quick)
		r.Rule = fmt.Sprintf("part 1: every transition of the C01 universe (%d states x %d requests) and the per-state conditional / failing-body requests of C02; part 1b: a subset of those states x every request with the served root configured in 4 further spellings (trailing slash, /., //, /./); part 2: the hostile-path alphabet of C03; part 3: every single injected OS failure (8 errno values, wrapped as package os wraps them, real absolute paths inside) at every OS call of every request of a reduced alphabet; non-trivial = the response is an error response (>= 400), where error text is sent; distinct by (tree, request[, fault])", len(states), len(reqs))
		r.Explanation = "model-free oracle over the explicit-state exploration: every header value and body of every response is scanned for the served root's absolute path in its configured (symlinked) and resolved spelling and for every >=2-segment prefix"
		// names and paths longer than the operating system takes (every method, and as COPY / MOVE destination)
		long := strings.Repeat("n", 300)
		deep := strings.Repeat("/"+strings.Repeat("d", 200), 22)
		c02x := c02Extra(quick)
		extra := func(t harness.Tree, probe map[string]fileProbe) []harness.Req {
			out := c02x(t, probe)
			for _, p := range []string{"/" + long, "/a/" + long, deep, "/" + long + "/x"} {
				for _, m := range []string{"GET", "HEAD", "DELETE", "MKCOL", "OPTIONS", "PROPFIND"} {
					out = append(out, harness.Req{Method: m, Path: p})
				}
				out = append(out, harness.Req{Method: "PUT", Path: p, Body: "x"})
				for _, m := range []string{"COPY", "MOVE"} {
					out = append(out, harness.Req{Method: m, Path: "/a", Header: map[string]string{"Destination": p}}, harness.Req{Method: m, Path: p, Header: map[string]string{"Destination": "/zz"}})
				}
			}
			return out
		}
		exploreFSx(r, states, reqs, extra, func(v *fsVisit) {
			c17Visit(v)
			if v.Resp.Status >= 500 && v.Index%13 == 1 {
				v.S.Sample(map[string]interface{}{"state": v.State.Canon(), "request": v.Req.String(), "status": v.Resp.Status, "body": trunc(string(v.Resp.Body), 120)})
			}
		})
		// the same directory configured in other spellings (trailing slash, "/.", "//", "/./")
		sub := fsSpellingStates(states, quick)
		for sp := 1; sp < len(fsRootSpellings); sp++ {
			exploreFSspell(r, sub, reqs, nil, sp, c17Visit)
		}
		r.Extra["root_spellings"] = fsRootSpellings
		r.Extra["root_spelling_states"] = len(sub)
		c03Explore(r, quick, func(v *fsVisit) { c17Visit(v) })
		c17Faults(r, quick)
	})
	registerReplay("C17", func(raw json.RawMessage) (bool, string) {
		var c fsCase
		if err := json.Unmarshal(raw, &c); err != nil {
			return false, err.Error()
		}
		v := fsReplay(c)
		l := leakIn(v.Resp, v.Root, v.RootReal)
		return l == "", fmt.Sprintf("status %d %s body=%q", v.Resp.Status, l, trunc(string(v.Resp.Body), 200))
	})
}
