package checks

import (
	"encoding/json"
	"fmt"
	"net/http"
	"path"
	"sort"
	"strconv"
	"strings"
	"time"

	webdav "github.com/emersion/go-webdav"
	"github.com/emersion/go-webdav/caldav"
	"github.com/emersion/go-webdav/carddav"
	"github.com/emersion/go-webdav/verifmc/engine"
	"github.com/emersion/go-webdav/verifmc/harness"
	"github.com/emersion/go-webdav/verifmc/indep"
)

// C11 — PROPFIND answers account for every property and respect Depth.

const (
	nsCal  = "urn:ietf:params:xml:ns:caldav"
	nsCard = "urn:ietf:params:xml:ns:carddav"
)

type qname struct{ Space, Local string }

func (q qname) String() string { return "{" + q.Space + "}" + q.Local }

// valueCheck validates the property element; "" = fine.
type valueCheck func(n *indep.Node) string

type resExpect struct {
	Path     string
	Parent   string               // hierarchy parent ("" for the top)
	Has      map[qname]valueCheck // properties the resource has (value checked when served with values)
	Optional map[qname]bool       // whether the resource has it is not judged
}

func textIs(want string) valueCheck {
	return func(n *indep.Node) string {
		if n.Text != want {
			return fmt.Sprintf("text %q want %q", n.Text, want)
		}
		return ""
	}
}

// textHas: the value is this resource's own content (contains its marker, none of the others')
func textHas(want string, others ...string) valueCheck {
	return func(n *indep.Node) string {
		if !strings.Contains(n.Text, want) {
			return fmt.Sprintf("content lacks %q: %q", want, trunc(n.Text, 120))
		}
		for _, o := range others {
			if strings.Contains(n.Text, o) {
				return fmt.Sprintf("content of another resource (%q) reported: %q", o, trunc(n.Text, 120))
			}
		}
		return ""
	}
}

func hrefIs(want string) valueCheck {
	return func(n *indep.Node) string {
		h := n.First(indep.DAV, "href")
		if h == nil {
			return "no href child"
		}
		p, err := indep.HrefPath(h.Text)
		if err != nil || p != want {
			return fmt.Sprintf("href %q want %q", h.Text, want)
		}
		return ""
	}
}

func typesAre(want ...qname) valueCheck {
	return func(n *indep.Node) string {
		var got []string
		for _, c := range n.Children {
			got = append(got, qname{c.Space, c.Local}.String())
		}
		var w []string
		for _, q := range want {
			w = append(w, q.String())
		}
		sort.Strings(got)
		sort.Strings(w)
		if strings.Join(got, ",") != strings.Join(w, ",") {
			return fmt.Sprintf("types %v want %v", got, w)
		}
		return ""
	}
}

func nonEmpty(n *indep.Node) string {
	if strings.TrimSpace(n.Text) == "" && len(n.Children) == 0 {
		return "empty value"
	}
	return ""
}

func dav(l string) qname { return qname{indep.DAV, l} }

// ---------- the servers under test ----------

type c11Server struct {
	Name      string
	Handler   func() http.Handler
	Resources []resExpect
	Universe  []qname // request-name universe (9 names)
	// SelfOnly: Depth does not extend the scope (helper serving a single resource)
	SelfOnly bool
	// SlashInsensitive: the backend names a collection with or without a trailing slash depending on how it was
	// asked; both spellings address the same resource and count as one
	SlashInsensitive bool
}

func c11MemFS() (*harness.MemFS, []resExpect) {
	fs := harness.NewMemFS()
	mt := time.Date(2021, 5, 6, 7, 8, 9, 0, time.UTC)
	files := []webdav.FileInfo{
		{Path: "/", IsDir: true},
		{Path: "/d", IsDir: true},
		{Path: "/d/sub", IsDir: true},
		{Path: "/d/sub/deep.txt", Size: 4, ModTime: mt, MIMEType: "text/plain", ETag: "e-deep"},
		{Path: "/d/full.txt", Size: 1 << 31, ModTime: mt, MIMEType: "text/plain; charset=utf-8", ETag: `q"uote`},
		{Path: "/d/bare", Size: 0}, // lacks modtime, type and tag
		{Path: "/top.bin", Size: 7, ETag: "only-tag"},
		// names that must be escaped in an href (once)
		{Path: "/d/a b.txt", Size: 3, ETag: "sp"},
		{Path: "/d/100%", IsDir: true},
		{Path: "/d/100%/é#?.txt", Size: 5, ModTime: mt, ETag: "meta"},
		// modification times at and before the epoch are times like any other
		{Path: "/d/epoch.txt", Size: 1, ModTime: time.Unix(0, 0).UTC(), ETag: "t0"},
		{Path: "/d/before-epoch.txt", Size: 1, ModTime: time.Date(1969, 7, 20, 20, 17, 40, 0, time.UTC), ETag: "t-1"},
	}
	var res []resExpect
	for _, f := range files {
		fs.Add(f, "data")
		e := resExpect{Path: f.Path, Has: map[qname]valueCheck{}, Optional: map[qname]bool{}}
		if f.Path != "/" {
			e.Parent = path.Dir(f.Path)
		}
		if f.IsDir {
			e.Has[dav("resourcetype")] = typesAre(dav("collection"))
			for _, l := range []string{"getcontentlength", "getlastmodified", "getcontenttype", "getetag"} {
				e.Optional[dav(l)] = true // properties of collections other than resourcetype are not judged
			}
		} else {
			e.Has[dav("resourcetype")] = typesAre()
			e.Has[dav("getcontentlength")] = textIs(strconv.FormatInt(f.Size, 10))
			if !f.ModTime.IsZero() {
				e.Has[dav("getlastmodified")] = textIs(f.ModTime.UTC().Format(http.TimeFormat))
			}
			if f.MIMEType != "" {
				e.Has[dav("getcontenttype")] = textIs(f.MIMEType)
			}
			if f.ETag != "" {
				e.Has[dav("getetag")] = textIs(strconv.Quote(f.ETag))
			}
		}
		res = append(res, e)
	}
	return fs, res
}

var c11Foreign = []qname{{indep.DAV, "displayname"}, {indep.DAV, "unknown-prop-x"}, {"urn:foreign", "color"}, {"urn:foreign", "getetag"}}

func c11Servers() []c11Server {
	var out []c11Server
	// WebDAV over the in-memory double
	_, fres := c11MemFS()
	out = append(out, c11Server{Name: "webdav-memfs", Handler: func() http.Handler { fs, _ := c11MemFS(); return &webdav.Handler{FileSystem: fs} }, Resources: fres,
		Universe: append([]qname{dav("resourcetype"), dav("getcontentlength"), dav("getlastmodified"), dav("getcontenttype"), dav("getetag")}, c11Foreign...)})

	// the same tree behind a FileSystem whose Stat echoes the spelling it was asked for (LocalFileSystem's habit)
	out = append(out, c11Server{Name: "webdav-memfs-echo", SlashInsensitive: true, Handler: func() http.Handler {
		fs, _ := c11MemFS()
		fs.EchoStat = true
		return &webdav.Handler{FileSystem: fs}
	}, Resources: fres, Universe: out[0].Universe})

	// CalDAV
	mt := time.Date(2022, 1, 2, 3, 4, 5, 0, time.UTC)
	cals := []caldav.Calendar{
		{Path: "/u/c/k1/", Name: "Work <&> ", Description: "desc é", MaxResourceSize: 4096, SupportedComponentSet: []string{"VTODO", "VJOURNAL"}},
		{Path: "/u/c/k2/"},
	}
	cobjs := []caldav.CalendarObject{
		{Path: "/u/c/k1/o1.ics", ETag: "t1", ModTime: mt, ContentLength: 123, Data: harness.SampleCalendar("1", "one")},
		{Path: "/u/c/k1/o2.ics", Data: harness.SampleCalendar("2", "two")},
	}
	cup := hrefIs("/u/")
	cres := []resExpect{
		{Path: "/", Has: map[qname]valueCheck{dav("current-user-principal"): cup, dav("resourcetype"): nonEmpty}},
		{Path: "/u/", Parent: "/", Has: map[qname]valueCheck{dav("current-user-principal"): cup, {nsCal, "calendar-home-set"}: hrefIs("/u/c/"), dav("resourcetype"): nonEmpty}},
		{Path: "/u/c/", Parent: "/u/", Has: map[qname]valueCheck{dav("current-user-principal"): cup, dav("resourcetype"): typesAre(dav("collection"))}},
	}
	for _, c := range cals {
		e := resExpect{Path: c.Path, Parent: "/u/c/", Optional: map[qname]bool{}, Has: map[qname]valueCheck{
			dav("current-user-principal"): cup, dav("resourcetype"): typesAre(dav("collection"), qname{nsCal, "calendar"}),
			{nsCal, "supported-calendar-data"}: nonEmpty}}
		want := c.SupportedComponentSet
		if want == nil {
			want = []string{"VEVENT"}
		}
		e.Has[qname{nsCal, "supported-calendar-component-set"}] = func(n *indep.Node) string {
			var got []string
			for _, ch := range n.All(nsCal, "comp") {
				v, _ := ch.Attr("", "name")
				got = append(got, v)
			}
			if fmt.Sprint(got) != fmt.Sprint(want) {
				return fmt.Sprintf("components %v want %v", got, want)
			}
			return ""
		}
		if c.Name != "" {
			e.Has[dav("displayname")] = textIs(c.Name)
		}
		if c.Description != "" {
			e.Has[qname{nsCal, "calendar-description"}] = textIs(c.Description)
		} else {
			e.Optional[qname{nsCal, "calendar-description"}] = true
		}
		if c.MaxResourceSize > 0 {
			e.Has[qname{nsCal, "max-resource-size"}] = textIs(strconv.FormatInt(c.MaxResourceSize, 10))
		}
		cres = append(cres, e)
	}
	for oi, o := range cobjs {
		marks := []string{"SUMMARY:one", "SUMMARY:two"}
		e := resExpect{Path: o.Path, Parent: path.Dir(o.Path) + "/", Has: map[qname]valueCheck{
			dav("current-user-principal"): cup, dav("getcontenttype"): textIs("text/calendar"), {nsCal, "calendar-data"}: textHas(marks[oi], marks[1-oi]), dav("resourcetype"): typesAre()}}
		if o.ContentLength > 0 {
			e.Has[dav("getcontentlength")] = textIs(strconv.FormatInt(o.ContentLength, 10))
		}
		if !o.ModTime.IsZero() {
			e.Has[dav("getlastmodified")] = textIs(o.ModTime.UTC().Format(http.TimeFormat))
		}
		if o.ETag != "" {
			e.Has[dav("getetag")] = textIs(strconv.Quote(o.ETag))
		}
		cres = append(cres, e)
	}
	// a backend with no collection at all, and one with a single bare collection holding one bare object
	calUniverse := []qname{dav("resourcetype"), dav("current-user-principal"), {nsCal, "calendar-home-set"}, dav("displayname"), {nsCal, "max-resource-size"}, dav("getetag"), dav("unknown-prop-x"), {"urn:foreign", "color"}, {"urn:foreign", "getetag"}}
	out = append(out, c11Server{Name: "caldav-empty", Handler: func() http.Handler {
		return &caldav.Handler{Backend: &harness.CalBackend{Principal: "/u/", HomeSet: "/u/c/"}}
	}, Resources: cres[:3], Universe: calUniverse})
	{
		single := append([]resExpect(nil), cres[:3]...)
		single = append(single, cres[4]) // /u/c/k2/ (bare collection)
		bare := cres[len(cres)-1]        // o2.ics has no optional values
		bare.Path, bare.Parent = "/u/c/k2/only.ics", "/u/c/k2/"
		bare.Has = map[qname]valueCheck{}
		for k, v := range cres[len(cres)-1].Has {
			bare.Has[k] = v
		}
		bare.Has[qname{nsCal, "calendar-data"}] = textHas("SUMMARY:only")
		single = append(single, bare)
		out = append(out, c11Server{Name: "caldav-single", Handler: func() http.Handler {
			return &caldav.Handler{Backend: &harness.CalBackend{Principal: "/u/", HomeSet: "/u/c/", Calendars: cals[1:], Objects: []caldav.CalendarObject{{Path: "/u/c/k2/only.ics", Data: harness.SampleCalendar("9", "only")}}}}
		}, Resources: single, Universe: calUniverse})
	}
	{
		// the bare object listed BEFORE the rich one (values carried over from the previous listed member
		// would show in either order)
		bf := append([]resExpect(nil), cres[:5]...)
		bare := resExpect{Path: "/u/c/k1/a0.ics", Parent: "/u/c/k1/", Has: map[qname]valueCheck{
			dav("current-user-principal"): cup, dav("getcontenttype"): textIs("text/calendar"), {nsCal, "calendar-data"}: textHas("SUMMARY:zero", "SUMMARY:one"), dav("resourcetype"): typesAre()}}
		bf = append(bf, bare, cres[5])
		out = append(out, c11Server{Name: "caldav-bare-first", Handler: func() http.Handler {
			return &caldav.Handler{Backend: &harness.CalBackend{Principal: "/u/", HomeSet: "/u/c/", Calendars: cals,
				Objects: []caldav.CalendarObject{{Path: "/u/c/k1/a0.ics", Data: harness.SampleCalendar("0", "zero")}, cobjs[0]}}}
		}, Resources: bf, Universe: calUniverse})
	}
	{
		// mounted under a prefix, every segment spelled with the prefix's own characters
		pcup := hrefIs("/dav/ada/")
		pres := []resExpect{
			{Path: "/dav/", Has: map[qname]valueCheck{dav("current-user-principal"): pcup, dav("resourcetype"): nonEmpty}},
			{Path: "/dav/ada/", Parent: "/dav/", Has: map[qname]valueCheck{dav("current-user-principal"): pcup, {nsCal, "calendar-home-set"}: hrefIs("/dav/ada/dd/"), dav("resourcetype"): nonEmpty}},
			{Path: "/dav/ada/dd/", Parent: "/dav/ada/", Has: map[qname]valueCheck{dav("current-user-principal"): pcup, dav("resourcetype"): typesAre(dav("collection"))}},
			{Path: "/dav/ada/dd/av/", Parent: "/dav/ada/dd/", Optional: map[qname]bool{{nsCal, "calendar-description"}: true}, Has: map[qname]valueCheck{
				dav("current-user-principal"): pcup, dav("resourcetype"): typesAre(dav("collection"), qname{nsCal, "calendar"}), {nsCal, "supported-calendar-data"}: nonEmpty, {nsCal, "supported-calendar-component-set"}: nonEmpty, dav("displayname"): textIs("av")}},
			{Path: "/dav/ada/dd/av/a.ics", Parent: "/dav/ada/dd/av/", Has: map[qname]valueCheck{
				dav("current-user-principal"): pcup, dav("getcontenttype"): textIs("text/calendar"), {nsCal, "calendar-data"}: textHas("SUMMARY:pfx"), dav("resourcetype"): typesAre()}},
		}
		out = append(out, c11Server{Name: "caldav-prefix", Handler: func() http.Handler {
			return &caldav.Handler{Prefix: "/dav", Backend: &harness.CalBackend{Principal: "/dav/ada/", HomeSet: "/dav/ada/dd/", Calendars: []caldav.Calendar{{Path: "/dav/ada/dd/av/", Name: "av"}},
				Objects: []caldav.CalendarObject{{Path: "/dav/ada/dd/av/a.ics", Data: harness.SampleCalendar("p", "pfx")}}}}
		}, Resources: pres, Universe: calUniverse})
	}
	out = append(out, c11Server{Name: "caldav", Handler: func() http.Handler {
		return &caldav.Handler{Backend: &harness.CalBackend{Principal: "/u/", HomeSet: "/u/c/", Calendars: cals, Objects: cobjs}}
	}, Resources: cres, Universe: []qname{dav("resourcetype"), dav("current-user-principal"), {nsCal, "calendar-home-set"}, dav("displayname"), {nsCal, "max-resource-size"}, dav("getetag"), dav("unknown-prop-x"), {"urn:foreign", "color"}, {"urn:foreign", "getetag"}}})

	// CardDAV
	books := []carddav.AddressBook{
		{Path: "/u/c/k1/", Name: "Contacts", Description: "d <b>", MaxResourceSize: 1 << 40},
		{Path: "/u/c/k2/"},
	}
	aobjs := []carddav.AddressObject{
		{Path: "/u/c/k1/o1.vcf", ETag: "t1", ModTime: mt, ContentLength: 55, Card: harness.SampleCard("one")},
		{Path: "/u/c/k1/o2.vcf", Card: harness.SampleCard("two")},
	}
	ares := []resExpect{
		{Path: "/", Has: map[qname]valueCheck{dav("current-user-principal"): cup, dav("resourcetype"): nonEmpty}},
		{Path: "/u/", Parent: "/", Has: map[qname]valueCheck{dav("current-user-principal"): cup, {nsCard, "addressbook-home-set"}: hrefIs("/u/c/"), dav("resourcetype"): nonEmpty}},
		{Path: "/u/c/", Parent: "/u/", Has: map[qname]valueCheck{dav("current-user-principal"): cup, dav("resourcetype"): typesAre(dav("collection"))}},
	}
	for _, b := range books {
		e := resExpect{Path: b.Path, Parent: "/u/c/", Optional: map[qname]bool{}, Has: map[qname]valueCheck{
			dav("current-user-principal"): cup, dav("resourcetype"): typesAre(dav("collection"), qname{nsCard, "addressbook"}), {nsCard, "supported-address-data"}: nonEmpty}}
		if b.Name != "" {
			e.Has[dav("displayname")] = textIs(b.Name)
		}
		if b.Description != "" {
			e.Has[qname{nsCard, "addressbook-description"}] = textIs(b.Description)
		}
		if b.MaxResourceSize > 0 {
			e.Has[qname{nsCard, "max-resource-size"}] = textIs(strconv.FormatInt(b.MaxResourceSize, 10))
		}
		ares = append(ares, e)
	}
	for oi, o := range aobjs {
		marks := []string{"FN:one", "FN:two"}
		e := resExpect{Path: o.Path, Parent: path.Dir(o.Path) + "/", Has: map[qname]valueCheck{
			dav("current-user-principal"): cup, dav("getcontenttype"): textIs("text/vcard"), {nsCard, "address-data"}: textHas(marks[oi], marks[1-oi]), dav("resourcetype"): typesAre()}}
		if o.ContentLength > 0 {
			e.Has[dav("getcontentlength")] = textIs(strconv.FormatInt(o.ContentLength, 10))
		}
		if !o.ModTime.IsZero() {
			e.Has[dav("getlastmodified")] = textIs(o.ModTime.UTC().Format(http.TimeFormat))
		}
		if o.ETag != "" {
			e.Has[dav("getetag")] = textIs(strconv.Quote(o.ETag))
		}
		ares = append(ares, e)
	}
	out = append(out, c11Server{Name: "carddav", Handler: func() http.Handler {
		return &carddav.Handler{Backend: &harness.CardBackend{Principal: "/u/", HomeSet: "/u/c/", Books: books, Objects: aobjs}}
	}, Resources: ares, Universe: []qname{dav("resourcetype"), dav("current-user-principal"), {nsCard, "addressbook-home-set"}, dav("displayname"), {nsCard, "max-resource-size"}, dav("getetag"), dav("unknown-prop-x"), {"urn:foreign", "color"}, {"urn:foreign", "getetag"}}})

	// ServePrincipal with 0, 1, 2 home sets
	for n := 0; n <= 2; n++ {
		n := n
		var hs []webdav.BackendSuppliedHomeSet
		e := resExpect{Path: "/principals/me/", Has: map[qname]valueCheck{dav("resourcetype"): typesAre(dav("principal")), dav("current-user-principal"): hrefIs("/principals/me/")}}
		if n >= 1 {
			hs = append(hs, caldav.NewCalendarHomeSet("/cal/me/"))
			e.Has[qname{nsCal, "calendar-home-set"}] = hrefIs("/cal/me/")
		}
		if n >= 2 {
			hs = append(hs, carddav.NewAddressBookHomeSet("/card/me/"))
			e.Has[qname{nsCard, "addressbook-home-set"}] = hrefIs("/card/me/")
		}
		out = append(out, c11Server{Name: fmt.Sprintf("principal-helper-%d", n), SelfOnly: true, Handler: func() http.Handler {
			return http.HandlerFunc(func(w http.ResponseWriter, r *http.Request) {
				webdav.ServePrincipal(w, r, &webdav.ServePrincipalOptions{CurrentUserPrincipalPath: "/principals/me/", HomeSets: hs})
			})
		}, Resources: []resExpect{e}, Universe: []qname{dav("resourcetype"), dav("current-user-principal"), {nsCal, "calendar-home-set"}, {nsCard, "addressbook-home-set"}, dav("displayname"), dav("getetag"), dav("unknown-prop-x"), {"urn:foreign", "color"}, {"urn:foreign", "resourcetype"}}})
	}
	return out
}

type c11Case struct {
	Server string  `json:"server"`
	Target string  `json:"target"`
	Depth  string  `json:"depth"` // "-" absent
	Form   string  `json:"form"`  // empty | allprop | propname | none | prop
	Names  []qname `json:"names,omitempty"`
	Slash  bool    `json:"trailing_slash,omitempty"` // the collection is addressed with a trailing slash added
}

func c11Body(c c11Case) string {
	switch c.Form {
	case "empty", "empty-unannounced", "empty-xml-type":
		return ""
	case "allprop":
		return pfAllprop
	case "propname":
		return pfPropname
	case "none":
		return pfNone
	case "none-include":
		return `<?xml version="1.0" encoding="utf-8"?><D:propfind xmlns:D="DAV:"><D:include><D:displayname/></D:include></D:propfind>`
	case "none-empty-include":
		return `<?xml version="1.0" encoding="utf-8"?><D:propfind xmlns:D="DAV:"><D:include/></D:propfind>`
	case "none-unknown-child":
		return `<?xml version="1.0" encoding="utf-8"?><D:propfind xmlns:D="DAV:"><D:everything/><x:other xmlns:x="urn:not-dav"/></D:propfind>`
	case "none-foreign-allprop":
		// an element called allprop in another namespace is not DAV:allprop
		return `<?xml version="1.0" encoding="utf-8"?><D:propfind xmlns:D="DAV:"><x:allprop xmlns:x="urn:not-dav"/></D:propfind>`
	}
	var sb strings.Builder
	sb.WriteString(`<?xml version="1.0" encoding="utf-8"?><D:propfind xmlns:D="DAV:"><D:prop>`)
	for i, n := range c.Names {
		fmt.Fprintf(&sb, `<x%d:%s xmlns:x%d="%s"/>`, i, n.Local, i, n.Space)
	}
	if c.Form == "prop-twice" {
		// every name once more: each DISTINCT property is still accounted for exactly once
		for i, n := range c.Names {
			fmt.Fprintf(&sb, `<y%d:%s xmlns:y%d="%s"/>`, i, n.Local, i, n.Space)
		}
	}
	sb.WriteString(`</D:prop></D:propfind>`)
	return sb.String()
}

func c11Judge(sv c11Server, c c11Case) (clause, detail string) {
	q := harness.Req{Method: "PROPFIND", Path: c.Target, Header: map[string]string{}, Body: c11Body(c)}
	if c.Slash {
		q.Path += "/"
	}
	if c.Depth != "-" {
		q.Header["Depth"] = c.Depth
	}
	if q.Body != "" {
		q.Header["Content-Type"] = "application/xml"
	}
	if c.Form == "empty-xml-type" {
		q.Header["Content-Type"] = "application/xml; charset=utf-8" // some clients always announce XML
	}
	if c.Form == "empty-unannounced" {
		q.Chunked = true // an empty body whose length is not announced is an empty body
	}
	resp := harness.Serve(sv.Handler(), q)
	if resp.Panic != "" {
		return "panic", resp.Panic
	}
	if strings.HasPrefix(c.Form, "none") {
		if resp.Status != 400 {
			return "none-of-three-not-400", fmt.Sprint(resp.Status)
		}
		return "", ""
	}
	if resp.Status != 207 {
		return "status-not-207", fmt.Sprintf("%d %s", resp.Status, trunc(string(resp.Body), 100))
	}
	ms, err := indep.ReadMultiStatus(resp.Body)
	if err != nil {
		return "body-not-wellformed-multistatus", err.Error()
	}
	// scope
	byPath := map[string]resExpect{}
	for _, r := range sv.Resources {
		byPath[r.Path] = r
	}
	inScope := map[string]bool{c.Target: true}
	if !sv.SelfOnly {
		for _, r := range sv.Resources {
			if r.Path == c.Target {
				continue
			}
			switch c.Depth {
			case "0":
			case "1":
				if r.Parent == c.Target {
					inScope[r.Path] = true
				}
			default:
				for p := r.Parent; p != ""; p = byPath[p].Parent {
					if p == c.Target {
						inScope[r.Path] = true
					}
				}
			}
		}
	}
	seen := map[string]bool{}
	for _, r := range ms.Responses {
		if len(r.Hrefs) != 1 {
			return "href-count", fmt.Sprint(len(r.Hrefs))
		}
		hp, err := indep.HrefPath(r.Hrefs[0])
		if err != nil {
			return "href", r.Hrefs[0]
		}
		if sv.SlashInsensitive && hp != "/" {
			hp = strings.TrimSuffix(hp, "/")
		}
		if seen[hp] {
			return "duplicate-response", hp
		}
		seen[hp] = true
		if !inScope[hp] {
			return "scope-extra-resource", fmt.Sprintf("response for %q is not in scope of %s depth %s", hp, c.Target, c.Depth)
		}
		e := byPath[hp]
		counts := map[qname]int{}
		for _, p := range r.Props {
			n := qname{p.Node.Space, p.Node.Local}
			counts[n]++
			if counts[n] > 1 {
				return "property-accounted-twice", n.String()
			}
			chk, has := e.Has[n]
			switch c.Form {
			case "propname":
				if p.Status != 200 {
					return "propname-status", fmt.Sprintf("%s under %d", n, p.Status)
				}
				if strings.TrimSpace(p.Node.Text) != "" || len(p.Node.Children) > 0 {
					return "propname-has-value", n.String()
				}
				if !has && !e.Optional[n] {
					return "propname-lists-unavailable", n.String()
				}
			case "allprop", "empty", "empty-unannounced", "empty-xml-type":
				if !has {
					if e.Optional[n] {
						continue
					}
					return "allprop-lists-unavailable", n.String()
				}
				if p.Status != 200 {
					return "allprop-status", fmt.Sprintf("%s under %d", n, p.Status)
				}
				if d := chk(p.Node); d != "" {
					return "value", fmt.Sprintf("%s of %s: %s", n, hp, d)
				}
			case "prop", "prop-twice":
				requested := false
				for _, rn := range c.Names {
					if rn == n {
						requested = true
					}
				}
				if !requested {
					return "prop-not-requested", n.String()
				}
				if e.Optional[n] {
					continue
				}
				if has {
					if p.Status != 200 {
						return "prop-available-not-200", fmt.Sprintf("%s of %s under %d", n, hp, p.Status)
					}
					if d := chk(p.Node); d != "" {
						return "value", fmt.Sprintf("%s of %s: %s", n, hp, d)
					}
				} else {
					if p.Status != 404 {
						return "prop-unavailable-not-404", fmt.Sprintf("%s of %s under %d", n, hp, p.Status)
					}
					if strings.TrimSpace(p.Node.Text) != "" || len(p.Node.Children) > 0 {
						return "prop-404-not-empty", n.String()
					}
				}
			}
		}
		switch c.Form {
		case "prop", "prop-twice":
			for _, rn := range c.Names {
				if counts[rn] != 1 {
					return "prop-not-accounted", fmt.Sprintf("%s of %s", rn, hp)
				}
			}
		default:
			for n := range e.Has {
				if counts[n] != 1 {
					return c.Form + "-misses-available", fmt.Sprintf("%s of %s", n, hp)
				}
			}
		}
	}
	for p := range inScope {
		if !seen[p] {
			return "scope-missing-resource", fmt.Sprintf("no response for %q (target %s depth %s); got %v", p, c.Target, c.Depth, sortedKeys(seen))
		}
	}
	return "", ""
}

func c11Level(sv c11Server, target string) string {
	byPath := map[string]resExpect{}
	for _, r := range sv.Resources {
		byPath[r.Path] = r
	}
	d := 0
	for p := byPath[target].Parent; p != ""; p = byPath[p].Parent {
		d++
	}
	return fmt.Sprintf("level%d", d)
}

func init() {
	register("C11", func(r *engine.Run) {
		full := thorough(r)
		servers := c11Servers()
		var cases []c11Case
		var svIdx []int
		for si, sv := range servers {
			var subsets [][]qname
			n := len(sv.Universe)
			for m := 1; m < 1<<n; m++ {
				bits := 0
				var ss []qname
				for b := 0; b < n; b++ {
					if m&(1<<b) != 0 {
						bits++
						ss = append(ss, sv.Universe[b])
					}
				}
				if full || bits <= 2 || bits == n {
					subsets = append(subsets, ss)
				}
			}
			for _, res := range sv.Resources {
				for _, d := range []string{"-", "0", "1", "infinity"} {
					for _, f := range []string{"empty", "empty-unannounced", "empty-xml-type", "allprop", "propname", "none", "none-include", "none-empty-include", "none-unknown-child", "none-foreign-allprop"} {
						cases = append(cases, c11Case{Server: sv.Name, Target: res.Path, Depth: d, Form: f})
						svIdx = append(svIdx, si)
					}
					for si2, ss := range subsets {
						cases = append(cases, c11Case{Server: sv.Name, Target: res.Path, Depth: d, Form: "prop", Names: ss})
						svIdx = append(svIdx, si)
						if len(ss) <= 2 && si2%3 == 0 {
							cases = append(cases, c11Case{Server: sv.Name, Target: res.Path, Depth: d, Form: "prop-twice", Names: ss})
							svIdx = append(svIdx, si)
						}
					}
					// a collection of the file server addressed in its trailing-slash spelling
					if strings.HasPrefix(sv.Name, "webdav-memfs") && res.Path != "/" && res.Has[dav("resourcetype")] != nil && !strings.HasSuffix(res.Path, "/") && res.Optional[dav("getetag")] {
						for _, f := range []string{"empty", "allprop", "propname"} {
							cases = append(cases, c11Case{Server: sv.Name, Target: res.Path, Depth: d, Form: f, Slash: true})
							svIdx = append(svIdx, si)
						}
					}
				}
			}
		}
		r.Rule = "servers: webdav.Handler over an in-memory FileSystem holding files that lack mtime/type/tag, caldav.Handler and carddav.Handler over doubles with 2 collections x 2 objects and optional fields set/unset, ServePrincipal with 0/1/2 home sets; every resource of every hierarchy level addressed x Depth{absent,0,1,infinity} x form{empty body, allprop, propname, none-of-three, prop{N}} with N over every subset (thorough: all 511; quick: size<=2 and the full set) of a 9-name universe mixing available, unavailable, unknown and foreign-namespace names; non-trivial = form prop/allprop/propname on a resource (all cases; each distinct)"
		r.Explanation = "each PROPFIND is served by the real handler; the body is read by the independent strict multistatus reader (well-formedness, namespaces, one prop per propstat) and compared with reference tables derived from the backend double's values: scope by hierarchy and Depth, one response and one href per resource, every requested name exactly once under 200 with the reference value or empty under 404"
		r.Assumptions = []string{"propstat grouping/order and DAV:include are not judged", "whether a calendar without description has calendar-description, and live properties of file-server collections other than resourcetype, are not judged"}
		r.Parallel(len(cases), func(i int, s *engine.Shard) {
			c := cases[i]
			sv := servers[svIdx[i]]
			s.Transition()
			clause, detail := c11Judge(sv, c)
			s.Clause("scope, one response/href per resource, per-property accounting (" + c.Form + ")")
			s.Outcome(sv.Name + "/" + c.Form + "/" + clause)
			s.Nontrivial(js(c))
			if i%7919 == 100 {
				s.Sample(c)
			}
			if clause != "" {
				dep := ""
				if strings.HasPrefix(clause, "scope") {
					dep = ".depth=" + c.Depth
				}
				sig := fmt.Sprintf("C11/%s/%s.%s%s.form=%s", clause, sv.Name, c11Level(sv, c.Target), dep, c.Form)
				if clause == "scope-missing-resource" && c11Level(sv, c.Target) == "level0" && c.Depth != "0" && strings.Contains(detail, "got ["+c.Target+"]") {
					// one root cause: the discovery root answers for itself only, whatever the Depth
					sig = fmt.Sprintf("C11/scope-missing-resource/%s.root-answers-depth-0-only", strings.SplitN(sv.Name, "-", 2)[0])
				}
				if clause == "none-of-three-not-400" && c.Form == "none-foreign-allprop" && detail == "207" {
					// one root cause for every server and level: the request struct matches its children by
					// local name only
					sig = "C11/none-of-three-not-400/foreign-namespace-allprop-read-as-DAV-allprop"
				}
				s.Violate(engine.Violation{Sig: sig, Clause: clause, Index: int64(i), Kind: "C11", Case: c,
					Expected: "207, well-formed, scope by Depth, each requested property exactly once (200 value / 404 empty)", Observed: detail})
			}
		})
	})
	registerReplay("C11", func(raw json.RawMessage) (bool, string) {
		var c c11Case
		if err := json.Unmarshal(raw, &c); err != nil {
			return false, err.Error()
		}
		for _, sv := range c11Servers() {
			if sv.Name == c.Server {
				clause, detail := c11Judge(sv, c)
				return clause == "", clause + " " + detail
			}
		}
		return false, "unknown server"
	})
}
