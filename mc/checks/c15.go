package checks

import (
	"bytes"
	"encoding/json"
	"encoding/xml"
	"fmt"
	"io"
	"reflect"
	"sort"
	"strings"

	"github.com/emersion/go-webdav/internal"
	"github.com/emersion/go-webdav/verifmc/engine"
	"github.com/emersion/go-webdav/verifmc/indep"
)

// C15 — raw XML values preserve the element tree they captured.

type xSpec struct {
	Name     int     `json:"name"`    // index into xNames
	NS       int     `json:"ns"`      // how the namespace is expressed (0..4)
	Attr     int     `json:"attr"`    // 0..4
	Content  int     `json:"content"` // 0..6
	Children []xSpec `json:"children,omitempty"`
}

// the last namespace name is a (legal, relative) URI spelled like the prefix q the styles 3 and 4 declare
var xNames = [][2]string{{"urn:A", "x"}, {"urn:B", "y"}, {"", "z"}, {"urn:A", "y"}, {"q", "w"}}

type xScope struct {
	def      string
	prefixes map[string]string
}

func (s xScope) clone() xScope {
	n := xScope{def: s.def, prefixes: map[string]string{}}
	for k, v := range s.prefixes {
		n.prefixes[k] = v
	}
	return n
}

// render writes the element in the requested lexical style, tracking scopes so that the
// document is always namespace-well-formed.
func (e xSpec) render(sb *strings.Builder, sc xScope) {
	ns, local := xNames[e.Name][0], xNames[e.Name][1]
	sc = sc.clone()
	var decls []string
	prefix := ""
	style := e.NS
	if ns == "" && (style == 2 || style == 3) {
		style = 1
	}
	useDefault := func() {
		if sc.def != ns {
			decls = append(decls, fmt.Sprintf(`xmlns="%s"`, ns))
			sc.def = ns
		}
	}
	switch style {
	case 0: // inherit when legal
		useDefault()
	case 1: // (re)declare the default namespace explicitly, even if redundant
		if ns != "" || sc.def != "" {
			decls = append(decls, fmt.Sprintf(`xmlns="%s"`, ns))
		}
		sc.def = ns
	case 2: // declare / redeclare prefix p
		decls = append(decls, fmt.Sprintf(`xmlns:p="%s"`, ns))
		sc.prefixes["p"] = ns
		prefix = "p"
	case 3: // reuse an outer prefix when one is bound to ns
		for _, k := range []string{"p", "q"} {
			if sc.prefixes[k] == ns {
				prefix = k
			}
		}
		if prefix == "" {
			decls = append(decls, fmt.Sprintf(`xmlns:q="%s"`, ns))
			sc.prefixes["q"] = ns
			prefix = "q"
		}
	case 4: // undeclare the default namespace
		if ns == "" {
			if sc.def != "" {
				decls = append(decls, `xmlns=""`)
			}
			sc.def = ""
		} else {
			decls = append(decls, fmt.Sprintf(`xmlns:q="%s"`, ns))
			sc.prefixes["q"] = ns
			prefix = "q"
			if sc.def != "" {
				decls = append(decls, `xmlns=""`)
				sc.def = ""
			}
		}
	}
	var attrs []string
	switch e.Attr {
	case 1:
		attrs = append(attrs, `k="v&amp;&lt;&quot;"`)
	case 2:
		decls = append(decls, `xmlns:a="urn:attr"`)
		sc.prefixes["a"] = "urn:attr"
		attrs = append(attrs, `a:k="1"`)
	case 3:
		attrs = append(attrs, `xml:lang="en"`)
	case 4:
		attrs = append(attrs, `k="1"`, `j=" 2 "`)
	case 5:
		// two attributes whose names differ only in their namespace
		decls = append(decls, `xmlns:a="urn:attr"`, `xmlns:b="urn:attr2"`)
		sc.prefixes["a"], sc.prefixes["b"] = "urn:attr", "urn:attr2"
		attrs = append(attrs, `k="plain"`, `a:k="in-a"`, `b:k="in-b"`)
	}
	q := local
	if prefix != "" {
		q = prefix + ":" + local
	}
	sb.WriteString("<" + q)
	for _, d := range decls {
		sb.WriteString(" " + d)
	}
	for _, a := range attrs {
		sb.WriteString(" " + a)
	}
	var pre, mid string
	switch e.Content {
	case 1:
		pre = "t"
	case 2:
		pre = "a&amp;b&#65;&lt;"
	case 3:
		pre = "<![CDATA[x<y&z]]>"
	case 4:
		pre = "<!--c-->"
	case 5:
		pre, mid = "m1", "m2"
	case 6:
		pre = "\n  "
	}
	if pre == "" && len(e.Children) == 0 {
		sb.WriteString("/>")
		return
	}
	sb.WriteString(">")
	sb.WriteString(pre)
	for _, c := range e.Children {
		c.render(sb, sc)
		sb.WriteString(mid)
	}
	sb.WriteString("</" + q + ">")
}

func (e xSpec) doc() string {
	var sb strings.Builder
	e.render(&sb, xScope{prefixes: map[string]string{}})
	return sb.String()
}

// goDOM builds the namespace-expanded tree as encoding/xml's own reader sees a token stream.
func goDOM(tr xml.TokenReader, cap int) (*indep.Node, error) {
	var root *indep.Node
	var stack []*indep.Node
	n := 0
	for {
		tok, err := tr.Token()
		if err == io.EOF {
			break
		}
		if err != nil {
			return nil, err
		}
		n++
		if n > cap {
			return nil, fmt.Errorf("token stream longer than %d tokens (not finite?)", cap)
		}
		switch t := tok.(type) {
		case xml.StartElement:
			nd := &indep.Node{Space: t.Name.Space, Local: t.Name.Local}
			for _, a := range t.Attr {
				if a.Name.Space == "xmlns" || (a.Name.Space == "" && a.Name.Local == "xmlns") {
					continue
				}
				nd.Attrs = append(nd.Attrs, indep.Attr{Space: a.Name.Space, Local: a.Name.Local, Value: a.Value})
			}
			sort.Slice(nd.Attrs, func(i, j int) bool {
				if nd.Attrs[i].Space != nd.Attrs[j].Space {
					return nd.Attrs[i].Space < nd.Attrs[j].Space
				}
				return nd.Attrs[i].Local < nd.Attrs[j].Local
			})
			if len(stack) == 0 {
				if root != nil {
					return nil, fmt.Errorf("second root element")
				}
				root = nd
			} else {
				p := stack[len(stack)-1]
				p.Children = append(p.Children, nd)
				p.Items = append(p.Items, indep.Item{Kind: "elem", Elem: nd})
			}
			stack = append(stack, nd)
		case xml.EndElement:
			if len(stack) == 0 {
				return nil, fmt.Errorf("unbalanced end element")
			}
			top := stack[len(stack)-1]
			if top.Local != t.Name.Local || top.Space != t.Name.Space {
				return nil, fmt.Errorf("badly nested end element %v inside %s", t.Name, top.Local)
			}
			stack = stack[:len(stack)-1]
		case xml.CharData:
			if len(stack) == 0 {
				continue
			}
			p := stack[len(stack)-1]
			p.Text += string(t)
			if k := len(p.Items); k > 0 && p.Items[k-1].Kind == "text" {
				p.Items[k-1].Text += string(t)
			} else {
				p.Items = append(p.Items, indep.Item{Kind: "text", Text: string(t)})
			}
		case xml.Comment:
			if len(stack) > 0 {
				p := stack[len(stack)-1]
				p.Items = append(p.Items, indep.Item{Kind: "comment", Text: string(t)})
			}
		}
	}
	if len(stack) != 0 {
		return nil, fmt.Errorf("token stream ended inside <%s>", stack[len(stack)-1].Local)
	}
	if root == nil {
		return nil, fmt.Errorf("no element")
	}
	return root, nil
}

// c15Judge captures target (as the middle child of a wrapper with siblings) and checks (a),(b),(d).
func c15Judge(e xSpec) (clause, detail string) { return c15JudgeW(e, 0) }

// c15JudgeW: wrap 0 = the wrapper names DAV: through a prefix; wrap 1 = the wrapper declares DAV: as the
// default namespace, so that a target in no namespace carries xmlns="" (the undeclaration the writer relies on).
func c15JudgeW(e xSpec, wrap int) (clause, detail string) {
	defer func() {
		if p := recover(); p != nil {
			clause, detail = "panic", fmt.Sprint(p)
		}
	}()
	target := e.doc()
	if wrap == 1 {
		var sb strings.Builder
		e.render(&sb, xScope{def: "DAV:", prefixes: map[string]string{"p": "urn:outer-p"}})
		target = sb.String()
	}
	t0, err := indep.Parse([]byte(target))
	if err != nil {
		return "generator-bug", err.Error() + ": " + target
	}
	want := t0.Canon()
	// capture inside a larger document; the wrapper binds prefixes p/q to unrelated namespaces on
	// purpose, so that a captured element must not pick them up
	wrapper := `<D:prop xmlns:D="DAV:" xmlns:p="urn:outer-p"><D:before>b</D:before>` + target + `<D:after a="1">x<D:n/></D:after></D:prop>`
	if wrap == 1 {
		wrapper = `<prop xmlns="DAV:" xmlns:p="urn:outer-p"><before>b</before>` + target + `<after a="1">x<n/></after></prop>`
	}
	var prop internal.Prop
	if err := xml.Unmarshal([]byte(wrapper), &prop); err != nil {
		return "capture-error", err.Error()
	}
	if len(prop.Raw) != 3 {
		return "capture-siblings", fmt.Sprintf("%d children captured, want 3", len(prop.Raw))
	}
	if n, ok := prop.Raw[0].XMLName(); !ok || n != (xml.Name{Space: "DAV:", Local: "before"}) {
		return "capture-siblings", "sibling before"
	}
	if n, ok := prop.Raw[2].XMLName(); !ok || n != (xml.Name{Space: "DAV:", Local: "after"}) {
		return "capture-siblings", "sibling after"
	}
	after, err := goDOM(prop.Raw[2].TokenReader(), 100)
	if err != nil || after.Canon() != `<{DAV:}after {}a="1">T"x"<{DAV:}n></></>` {
		return "capture-siblings", fmt.Sprintf("sibling after the target decoded as %v %v", after, err)
	}
	raw := &prop.Raw[1]
	if n, ok := raw.XMLName(); !ok || n.Space != t0.Space || n.Local != t0.Local {
		return "xmlname", fmt.Sprint(n)
	}
	// (b) token stream
	t2, err := goDOM(raw.TokenReader(), 100000)
	if err != nil {
		return "token-stream", err.Error()
	}
	if got := t2.Canon(); got != want {
		return "token-stream-tree", fmt.Sprintf("got %s want %s", got, want)
	}
	// (c') decoding the raw value into the generic container type (what every `,any` field does)
	// yields the tree that decoding the document directly yields
	var again internal.RawXMLValue
	if err := raw.Decode(&again); err != nil {
		return "decode-error", err.Error()
	}
	t4, err := goDOM(again.TokenReader(), 100000)
	if err != nil {
		return "decode-token-stream", err.Error()
	}
	if got := t4.Canon(); got != want {
		return "decode-tree", fmt.Sprintf("got %s want %s", got, want)
	}
	// (a) marshal and re-read with encoding/xml
	out, err := xml.Marshal(raw)
	if err != nil {
		return "marshal-error", err.Error()
	}
	t1, err := goDOM(xml.NewDecoder(bytes.NewReader(out)), 100000)
	if err != nil {
		return "marshal-unreadable", fmt.Sprintf("%v: %s", err, out)
	}
	if got := t1.Canon(); got != want {
		return "marshal-tree", fmt.Sprintf("re-read %s want %s; written as %s", got, want, out)
	}
	// marshal as part of a Prop (how servers and clients actually write it), re-read the middle child
	out2, err := xml.Marshal(&prop)
	if err != nil {
		return "marshal-error", err.Error()
	}
	var prop2 internal.Prop
	if err := xml.Unmarshal(out2, &prop2); err != nil || len(prop2.Raw) != 3 {
		return "marshal-in-prop-unreadable", fmt.Sprintf("%v: %s", err, out2)
	}
	t3, err := goDOM(prop2.Raw[1].TokenReader(), 100000)
	if err != nil || t3.Canon() != want {
		return "marshal-in-prop-tree", fmt.Sprintf("got %v (%v) want %s; written as %s", t3, err, want, out2)
	}
	return "", ""
}

func c15Class(e xSpec) string {
	feat := map[string]bool{}
	var walk func(e xSpec, parentNS string, depth int)
	walk = func(e xSpec, parentNS string, depth int) {
		ns := xNames[e.Name][0]
		if ns == "" && parentNS != "" {
			feat["no-namespace-child-of-namespaced-parent"] = true
		}
		if ns == "" {
			feat["no-namespace-element"] = true
		}
		feat[fmt.Sprintf("nsstyle=%d", e.NS)] = true
		if e.Attr != 0 {
			feat[fmt.Sprintf("attr=%d", e.Attr)] = true
		}
		if e.Content != 0 {
			feat[fmt.Sprintf("content=%d", e.Content)] = true
		}
		for _, c := range e.Children {
			walk(c, ns, depth+1)
		}
	}
	walk(e, "", 0)
	var l []string
	for k := range feat {
		l = append(l, k)
	}
	sort.Strings(l)
	return strings.Join(l, "+")
}

// shrink: drop children, reset attr/content/ns style while still failing with the same clause
func c15Shrink(e xSpec, clause string) xSpec { return c15ShrinkW(e, clause, 0) }

func c15ShrinkW(e xSpec, clause string, wrap int) xSpec {
	fails := func(x xSpec) bool { c, _ := c15JudgeW(x, wrap); return c == clause }
	for changed := true; changed; {
		changed = false
		var cands []xSpec
		var gen func(x xSpec) []xSpec
		gen = func(x xSpec) []xSpec {
			var out []xSpec
			for i := range x.Children {
				y := x
				y.Children = append(append([]xSpec(nil), x.Children[:i]...), x.Children[i+1:]...)
				out = append(out, y)
				for _, sub := range gen(x.Children[i]) {
					y := x
					y.Children = append([]xSpec(nil), x.Children...)
					y.Children[i] = sub
					out = append(out, y)
				}
			}
			if x.Attr != 0 {
				y := x
				y.Attr = 0
				out = append(out, y)
			}
			if x.Content != 0 {
				y := x
				y.Content = 0
				out = append(out, y)
			}
			if x.NS != 0 {
				y := x
				y.NS = 0
				out = append(out, y)
			}
			return out
		}
		cands = gen(e)
		for _, c := range cands {
			if fails(c) {
				e, changed = c, true
				break
			}
		}
	}
	return e
}

func c15All() []xSpec {
	var out []xSpec
	for n := 0; n < len(xNames); n++ {
		for s := 0; s < 5; s++ {
			for a := 0; a < 6; a++ {
				for c := 0; c < 7; c++ {
					out = append(out, xSpec{Name: n, NS: s, Attr: a, Content: c})
				}
			}
		}
	}
	return out
}

// c15Deep: linear chains far deeper than anything a property usually holds ("every nesting depth")
func c15Deep() []xSpec {
	var out []xSpec
	for _, depth := range []int{33, 64, 200, 1000} {
		var cur *xSpec
		for k := depth; k >= 1; k-- {
			x := xSpec{Name: k % len(xNames), NS: k % 5, Attr: k % 5, Content: 0}
			if cur != nil {
				x.Children = []xSpec{*cur}
			} else {
				x.Content = 1
			}
			cur = &x
		}
		out = append(out, *cur)
	}
	return out
}

func c15Reduced() []xSpec {
	var out []xSpec
	for n := 0; n < len(xNames); n++ {
		for s := 0; s < 5; s++ {
			out = append(out, xSpec{Name: n, NS: s})
		}
	}
	for a := 1; a < 6; a++ {
		out = append(out, xSpec{Name: 0, NS: 2, Attr: a}, xSpec{Name: 2, NS: 0, Attr: a})
	}
	for c := 1; c < 7; c++ {
		out = append(out, xSpec{Name: 1, NS: 0, Content: c}, xSpec{Name: 2, NS: 4, Content: c})
	}
	return out
}

// ---------- (c) typed decoding ----------

type c15Typed struct {
	Name string
	XML  string // self-contained element
	New  func() interface{}
}

func c15TypedCases() []c15Typed {
	var out []c15Typed
	styles := []func(local, inner, attrs string) string{
		func(l, in, at string) string { return fmt.Sprintf(`<D:%s xmlns:D="DAV:"%s>%s</D:%s>`, l, at, in, l) },
		func(l, in, at string) string { return fmt.Sprintf(`<%s xmlns="DAV:"%s>%s</%s>`, l, at, in, l) },
		func(l, in, at string) string {
			return fmt.Sprintf(`<zz:%s xmlns:zz="DAV:" xmlns:D="urn:not-dav"%s>%s</zz:%s>`, l, at, in, l)
		},
	}
	inner := func(style int, s string) string {
		// child elements written in the matching style
		switch style {
		case 0:
			return strings.NewReplacer("<§", "<D:", "</§", "</D:").Replace(s)
		case 1:
			return strings.NewReplacer("<§", "<", "</§", "</").Replace(s)
		}
		return strings.NewReplacer("<§", "<zz:", "</§", "</zz:").Replace(s)
	}
	add := func(name, local, body string, nw func() interface{}) {
		for si, st := range styles {
			for _, ws := range []bool{false, true} {
				b := inner(si, body)
				if ws && strings.Contains(b, "<") {
					b = "\n  " + strings.ReplaceAll(b, "><", ">\n  <") + "\n"
				}
				out = append(out, c15Typed{Name: fmt.Sprintf("%s/style%d/ws=%v", name, si, ws), XML: st(local, b, ""), New: nw})
			}
		}
	}
	add("resourcetype-empty", "resourcetype", ``, func() interface{} { return &internal.ResourceType{} })
	add("resourcetype-collection", "resourcetype", `<§collection/>`, func() interface{} { return &internal.ResourceType{} })
	add("resourcetype-two", "resourcetype", `<§collection/><C:calendar xmlns:C="urn:ietf:params:xml:ns:caldav"/>`, func() interface{} { return &internal.ResourceType{} })
	for _, v := range []string{"0", "1", "2147483648", "9223372036854775807", " 7 ", "x", ""} {
		add("getcontentlength="+v, "getcontentlength", v, func() interface{} { return &internal.GetContentLength{} })
	}
	for _, v := range []string{"text/plain", `text/plain; charset="utf-8"`, " a&amp;b ", ""} {
		add("getcontenttype="+v, "getcontenttype", v, func() interface{} { return &internal.GetContentType{} })
	}
	for _, v := range []string{"Sun, 06 Nov 1994 08:49:37 GMT", "Sunday, 06-Nov-94 08:49:37 GMT", "garbage", ""} {
		add("getlastmodified="+v, "getlastmodified", v, func() interface{} { return &internal.GetLastModified{} })
	}
	for _, v := range []string{`"abc"`, `"a\"b"`, `"é"`, `W/"x"`, `abc`, `&quot;q&quot;`, ""} {
		add("getetag="+v, "getetag", v, func() interface{} { return &internal.GetETag{} })
	}
	for _, v := range []string{"x", " a&lt;b&amp;c ", "é\n日本", "<![CDATA[<c>]]>", ""} {
		add("displayname="+v, "displayname", v, func() interface{} { return &internal.DisplayName{} })
	}
	add("current-user-principal-href", "current-user-principal", `<§href>/u/a%20b/</§href>`, func() interface{} { return &internal.CurrentUserPrincipal{} })
	add("current-user-principal-unauth", "current-user-principal", `<§unauthenticated/>`, func() interface{} { return &internal.CurrentUserPrincipal{} })
	add("error-two", "error", `<§lock-token-submitted/><C:no-uid-conflict xmlns:C="urn:ietf:params:xml:ns:caldav"><§href>/x</§href></C:no-uid-conflict>`, func() interface{} { return &internal.Error{} })
	add("response", "response", `<§href>/a</§href><§propstat><§prop><§displayname>n</§displayname><X:foo xmlns:X="urn:x">1</X:foo></§prop><§status>HTTP/1.1 200 OK</§status></§propstat><§propstat><§prop><§getetag/></§prop><§status>HTTP/1.1 404 Not Found</§status></§propstat>`, func() interface{} { return &internal.Response{} })
	add("response-status", "response", `<§href>/a</§href><§href>/b</§href><§status>HTTP/1.1 423 Locked</§status><§error><§lock-token-submitted/></§error><§responsedescription>d</§responsedescription>`, func() interface{} { return &internal.Response{} })
	// descendants in no namespace (unprefixed in the prefix-only styles), alone and next to DAV: siblings
	add("resourcetype-nons-children", "resourcetype", `<collection/><principal/>`, func() interface{} { return &internal.ResourceType{} })
	add("resourcetype-nons-mixed", "resourcetype", `<§collection/><collection/><calendar xmlns=""/>`, func() interface{} { return &internal.ResourceType{} })
	add("current-user-principal-nons-href", "current-user-principal", `<href>/u/</href>`, func() interface{} { return &internal.CurrentUserPrincipal{} })
	add("current-user-principal-both-href", "current-user-principal", `<href>/no-ns/</href><§href>/dav/</§href>`, func() interface{} { return &internal.CurrentUserPrincipal{} })
	add("error-nons", "error", `<lock-token-submitted/><§lock-token-submitted><href>/x</href></§lock-token-submitted>`, func() interface{} { return &internal.Error{} })
	add("response-nons-href", "response", `<href>/no-ns</href><§href>/a</§href><§status>HTTP/1.1 423 Locked</§status><status>HTTP/1.1 200 OK</status>`, func() interface{} { return &internal.Response{} })
	add("propstat-nons-status", "propstat", `<§prop><getcontentlength>5</getcontentlength></§prop><status>HTTP/1.1 404 Not Found</status><§status>HTTP/1.1 200 OK</§status>`, func() interface{} { return &internal.PropStat{} })
	// a namespace name spelled like a prefix that is declared next to it
	add("resourcetype-uri-like-prefix", "resourcetype", `<q:foo xmlns:q="zz" xmlns:zz="urn:other"/><zz:foo xmlns:zz="D" xmlns:D="zz"/>`, func() interface{} { return &internal.ResourceType{} })
	add("propstat", "propstat", `<§prop><§getcontentlength>5</§getcontentlength></§prop><§status>HTTP/1.1 200 OK</§status>`, func() interface{} { return &internal.PropStat{} })
	return out
}

func c15TypedJudge(tc c15Typed) (clause, detail string) {
	defer func() {
		if p := recover(); p != nil {
			clause, detail = "typed-panic", fmt.Sprint(p)
		}
	}()
	direct := tc.New()
	errD := xml.Unmarshal([]byte(tc.XML), direct)
	wrapper := `<A:prop xmlns:A="DAV:"><A:x1/>` + tc.XML + `<A:x2/></A:prop>`
	var prop internal.Prop
	if err := xml.Unmarshal([]byte(wrapper), &prop); err != nil {
		return "typed-capture-error", err.Error()
	}
	if len(prop.Raw) != 3 {
		return "typed-capture-count", fmt.Sprint(len(prop.Raw))
	}
	via := tc.New()
	errV := prop.Raw[1].Decode(via)
	if (errD == nil) != (errV == nil) {
		return "typed-error-differs", fmt.Sprintf("direct err=%v, via raw err=%v", errD, errV)
	}
	if errD == nil && !c15Equal(direct, via) {
		return "typed-value-differs", fmt.Sprintf("direct %s via raw %s", c15Dump(direct), c15Dump(via))
	}
	// ResourceType.Is answers by expanded name: compare with the independently parsed tree
	if rt, ok := via.(*internal.ResourceType); ok && errD == nil {
		if tree, err := indep.Parse([]byte(tc.XML)); err == nil {
			for _, n := range []xml.Name{{Space: "DAV:", Local: "collection"}, {Space: "", Local: "collection"}, {Space: "DAV:", Local: "principal"}, {Space: "", Local: "principal"},
				{Space: "urn:ietf:params:xml:ns:caldav", Local: "calendar"}, {Space: "", Local: "calendar"}, {Space: "DAV:", Local: "calendar"}} {
				want := tree.First(n.Space, n.Local) != nil
				if got := rt.Is(n); got != want {
					return "resourcetype-is-differs", fmt.Sprintf("Is(%v)=%v, the document has such a child: %v", n, got, want)
				}
			}
		}
	}
	// Prop.Decode / Response.DecodeProp path
	if errD == nil {
		via2 := tc.New()
		if err := prop.Decode(via2); err != nil || !c15Equal(direct, via2) {
			return "typed-prop-decode-differs", fmt.Sprintf("Prop.Decode: %v %s", err, c15Dump(via2))
		}
		// XML names are case-sensitive: a sibling whose name differs from the target's only in letter case,
		// placed BEFORE it, is another property
		if name, ok := prop.Raw[1].XMLName(); ok && strings.ToUpper(name.Local) != name.Local {
			decoy := fmt.Sprintf(`<Q:%s xmlns:Q=%q>decoy</Q:%s>`, strings.ToUpper(name.Local), name.Space, strings.ToUpper(name.Local))
			var prop3 internal.Prop
			if err := xml.Unmarshal([]byte(`<A:prop xmlns:A="DAV:">`+decoy+tc.XML+`</A:prop>`), &prop3); err != nil {
				return "typed-capture-error", err.Error()
			}
			via3 := tc.New()
			if err := prop3.Decode(via3); err != nil || !c15Equal(direct, via3) {
				return "typed-prop-decode-picks-case-variant", fmt.Sprintf("Prop.Decode next to %s: %v %s", decoy, err, c15Dump(via3))
			}
		}
	}
	return "", ""
}

// c15Equal compares two decoded values field by field; raw XML values nested in them are compared as
// namespace-expanded trees (the prefix declarations a raw value happens to remember are not part of
// the tree it denotes), everything else with reflect.DeepEqual.
func c15Equal(a, b interface{}) bool {
	rawT := reflect.TypeOf(internal.RawXMLValue{})
	var eq func(x, y reflect.Value) bool
	eq = func(x, y reflect.Value) bool {
		if x.Type() != y.Type() {
			return false
		}
		if x.Type() == rawT && x.CanAddr() && y.CanAddr() && x.CanInterface() {
			rx, ry := x.Addr().Interface().(*internal.RawXMLValue), y.Addr().Interface().(*internal.RawXMLValue)
			tx, ex := goDOM(rx.TokenReader(), 100000)
			ty, ey := goDOM(ry.TokenReader(), 100000)
			if ex != nil || ey != nil {
				return reflect.DeepEqual(x.Interface(), y.Interface())
			}
			return tx.Canon() == ty.Canon()
		}
		switch x.Kind() {
		case reflect.Ptr, reflect.Interface:
			if x.IsNil() || y.IsNil() {
				return x.IsNil() == y.IsNil()
			}
			return eq(x.Elem(), y.Elem())
		case reflect.Struct:
			for i := 0; i < x.NumField(); i++ {
				if !x.Type().Field(i).IsExported() {
					if !x.Field(i).CanInterface() {
						continue // compared below as a whole when nothing exported differs
					}
				}
				if !eq(x.Field(i), y.Field(i)) {
					return false
				}
			}
			// structs without raw values inside: also compare unexported state
			if !c15HasRaw(x.Type(), rawT, 0) {
				return reflect.DeepEqual(x.Interface(), y.Interface())
			}
			return true
		case reflect.Slice, reflect.Array:
			if x.Kind() == reflect.Slice && x.IsNil() != y.IsNil() {
				return false
			}
			if x.Len() != y.Len() {
				return false
			}
			for i := 0; i < x.Len(); i++ {
				if !eq(x.Index(i), y.Index(i)) {
					return false
				}
			}
			return true
		}
		if !x.CanInterface() {
			return true
		}
		return reflect.DeepEqual(x.Interface(), y.Interface())
	}
	return eq(reflect.ValueOf(a), reflect.ValueOf(b))
}

func c15HasRaw(t, rawT reflect.Type, depth int) bool {
	if t == rawT {
		return true
	}
	if depth > 6 {
		return false
	}
	switch t.Kind() {
	case reflect.Ptr, reflect.Slice, reflect.Array:
		return c15HasRaw(t.Elem(), rawT, depth+1)
	case reflect.Struct:
		for i := 0; i < t.NumField(); i++ {
			if c15HasRaw(t.Field(i).Type, rawT, depth+1) {
				return true
			}
		}
	}
	return false
}

// c15CrossPackage runs discovery calls of all three client packages against scripted multistatus
// documents, twice and in both orders, and checks the values that are decoded from raw property values.
func c15CrossPackage() (clause, detail string) {
	defer func() {
		if p := recover(); p != nil {
			clause, detail = "cross-package-panic", fmt.Sprint(p)
		}
	}()
	byName := map[string]c14Method{}
	for _, m := range c14Methods() {
		byName[m.Name] = m
	}
	order := []string{"caldav.FindCalendars", "carddav.FindAddressBooks", "webdav.Stat", "carddav.FindAddressBooks", "caldav.FindCalendars", "caldav.FindCalendarHomeSet", "carddav.FindAddressBookHomeSet", "webdav.FindCurrentUserPrincipal"}
	for step, name := range order {
		m, ok := byName[name]
		if !ok {
			return "cross-package-setup", "no client method " + name
		}
		res, err := m.Call(&scripted{Status: 207, CT: "application/xml; charset=utf-8", Body: m.OKBody()})
		if err != nil {
			return "cross-package-error", fmt.Sprintf("step %d %s: %v", step, name, err)
		}
		got := js(res)
		for _, want := range map[string][]string{
			"caldav.FindCalendars":            {`"MaxResourceSize":100`, `"Description":"d"`, `"Name":"name"`, `"VEVENT"`},
			"carddav.FindAddressBooks":        {`"MaxResourceSize":100`, `"Description":"d"`, `"Name":"name"`, `"text/vcard"`},
			"webdav.Stat":                     {`"Size":4`, `"ETag":"tag"`, `"MIMEType":"text/plain"`},
			"caldav.FindCalendarHomeSet":      {`/u/c/`},
			"carddav.FindAddressBookHomeSet":  {`/u/c/`},
			"webdav.FindCurrentUserPrincipal": {`/u/`},
		}[name] {
			if !strings.Contains(got, want) {
				return "cross-package-value-lost", fmt.Sprintf("step %d %s: result %s lacks %s", step, name, trunc(got, 400), want)
			}
		}
	}
	return "", ""
}

func c15Dump(v interface{}) string {
	b, err := xml.Marshal(v)
	if err != nil {
		return fmt.Sprintf("%+v", v)
	}
	return string(b)
}

type c15Case struct {
	Wrap  int    `json:"wrapper,omitempty"` // 1 = the capturing document declares DAV: as the default namespace
	Spec  *xSpec `json:"spec,omitempty"`
	Doc   string `json:"doc,omitempty"`
	Typed string `json:"typed,omitempty"`
}

func init() {
	register("C15", func(r *engine.Run) {
		full := thorough(r)
		all, red := c15All(), c15Reduced()
		var pick []xSpec
		for i := 0; i < len(red); i += 5 {
			pick = append(pick, red[i])
		}
		var docs []xSpec
		roots := all
		// depth 1 and depth 2
		for _, ro := range roots {
			docs = append(docs, ro)
			kids := red
			if full {
				kids = all
			}
			for _, c := range kids {
				x := ro
				x.Children = []xSpec{c}
				docs = append(docs, x)
			}
			for _, c1 := range pick {
				for _, c2 := range pick {
					x := ro
					x.Children = []xSpec{c1, c2}
					docs = append(docs, x)
				}
			}
		}
		// linear chains of depth 33 .. 1000
		docs = append(docs, c15Deep()...)
		// depth 3
		for _, ro := range red {
			for _, c := range red {
				for _, g := range red {
					cc := c
					cc.Children = []xSpec{g}
					x := ro
					x.Children = []xSpec{cc}
					docs = append(docs, x)
					if full {
						cc2 := c
						cc2.Children = []xSpec{g, pick[len(pick)/2]}
						x2 := ro
						x2.Children = []xSpec{cc2, pick[1]}
						docs = append(docs, x2)
					}
				}
			}
		}
		r.Rule = fmt.Sprintf("every element tree of the family: element = name{A:x,B:y,(none):z,A:y} x namespace expression{inherit, redeclare default, declare prefix, reuse outer prefix, undeclare} x attributes{none, entities, prefixed, xml:lang, two, same local name in three namespaces} x content{empty,text,entities+charref,CDATA,comment,mixed,whitespace}; root over all 840 variants x [no child | 1 child over %d variants | 2 children over %d^2]; depth 3 over the reduced set cubed; 4 linear chains of depth 33, 64, 200 and 1000; each captured as the middle child of a DAV:prop with siblings before/after; plus %d typed property documents; non-trivial = every generated document (all distinct)", map[bool]int{false: len(red), true: len(all)}[full], len(pick), len(c15TypedCases()))
		r.Explanation = "for each generated well-formed document: T0 = independent namespace-expanded DOM; the RawXMLValue captured by xml.Unmarshal must (a) marshal (alone and inside its Prop) to bytes that encoding/xml re-reads as T0, (b) produce a finite, balanced, well-nested token stream whose tree is T0, (d) leave its siblings correctly decoded; (c) typed decoding through RawXMLValue.Decode / Prop.Decode equals direct xml.Unmarshal of the same element for every typed property structure in 3 namespace styles x 2 whitespace styles"
		r.Extra["documents"] = len(docs)
		r.Parallel(len(docs), func(i int, s *engine.Shard) {
			e := docs[i]
			s.Transition()
			clause, detail := c15Judge(e)
			wrap := 0
			if clause == "" || clause == "marshal-in-prop-tree" {
				// the same tree captured from a document whose default namespace is DAV:
				s.Transition()
				if c1, d1 := c15JudgeW(e, 1); c1 != "" {
					clause, detail, wrap = c1, d1, 1
				}
			}
			s.Clause("capture -> token stream tree, marshal tree, marshal-in-prop tree, siblings")
			s.Outcome("tree/" + clause)
			s.Nontrivial(fmt.Sprintf("D/%d", i))
			if i%20011 == 5 {
				s.Sample(map[string]interface{}{"document": e.doc()})
			}
			if clause != "" {
				min := c15ShrinkW(e, clause, wrap)
				_, detail = c15JudgeW(min, wrap)
				cls := c15Class(min)
				if wrap == 1 {
					cls += "+wrapper=default-namespace"
				}
				s.Violate(engine.Violation{Sig: "C15/" + clause + "/" + cls, Clause: clause, Index: int64(i), Kind: "C15", Case: c15Case{Spec: &min, Doc: min.doc(), Wrap: wrap},
					Expected: "same namespace-expanded element tree", Observed: detail})
			}
		})
		// (c'') the typed property structures of the three packages, used one after the other in ONE process
		// through the public client calls that decode them from captured raw values: every value arrives
		// whatever other package decoded a same-named structure before
		{
			sh := r.Shard()
			clause, detail := c15CrossPackage()
			for k := 0; k < 6; k++ {
				sh.Transition()
			}
			sh.Clause("typed decode of the packages' own property structures, all packages in one process")
			sh.Nontrivial("X/cross-package")
			sh.Outcome("cross-package/" + clause)
			if clause != "" {
				sh.Violate(engine.Violation{Sig: "C15/" + clause, Clause: clause, Index: 1 << 40, Kind: "C15", Case: c15Case{Typed: "cross-package"},
					Expected: "every property value of the response reaches the caller", Observed: detail})
			}
			r.Merge(sh)
		}
		typed := c15TypedCases()
		r.Parallel(len(typed), func(i int, s *engine.Shard) {
			s.Transition()
			clause, detail := c15TypedJudge(typed[i])
			s.Clause("typed decode via raw value == direct decode")
			s.Outcome("typed/" + clause)
			s.Nontrivial("T/" + typed[i].Name)
			if i == 11 {
				s.Sample(map[string]interface{}{"typed": typed[i].Name, "xml": typed[i].XML})
			}
			if clause != "" {
				s.Violate(engine.Violation{Sig: "C15/" + clause + "/" + strings.SplitN(typed[i].Name, "=", 2)[0], Clause: clause, Index: int64(len(docs) + i), Kind: "C15", Case: c15Case{Typed: typed[i].Name, Doc: typed[i].XML},
					Expected: "Decode via raw value equals direct xml.Unmarshal", Observed: detail})
			}
		})
	})
	registerReplay("C15", func(raw json.RawMessage) (bool, string) {
		var c c15Case
		if err := json.Unmarshal(raw, &c); err != nil {
			return false, err.Error()
		}
		if c.Spec != nil {
			clause, detail := c15JudgeW(*c.Spec, c.Wrap)
			return clause == "", clause + " " + detail
		}
		for _, tc := range c15TypedCases() {
			if tc.Name == c.Typed {
				clause, detail := c15TypedJudge(tc)
				return clause == "", clause + " " + detail
			}
		}
		return false, "unknown typed case"
	})
}
