package checks

import (
	"encoding/json"
	"fmt"
	"strconv"
	"strings"
	"unicode/utf8"

	"github.com/emersion/go-ical"
	"github.com/emersion/go-webdav/caldav"
	"github.com/emersion/go-webdav/verifmc/engine"
)

// C19 — ValidateCalendarObject enforces RFC 4791 §4.1.
// Alphabet: METHOD {absent, REQUEST} x every component sequence of length 0..L over
// {VEVENT,VTODO,VJOURNAL,VFREEBUSY,VTIMEZONE} x UID {absent,u1,u2}.

var c19Types = []string{ical.CompEvent, ical.CompToDo, ical.CompJournal, ical.CompFreeBusy, ical.CompTimezone}

// UID choices: absent, two plain texts, a text that needs escaping on the wire, a case variant of u1
// (UIDs are compared exactly), and a UID property present with an empty value (no UID)
var c19UIDs = []string{"", "u1", "u2", `o,4;a\b`, "U1", "\x00EMPTY"}

type c19Case struct {
	Method bool `json:"method"`
	// MethodForm: how a present METHOD is written: "" = REQUEST, "empty" = present with an empty value,
	// "binary" = carrying VALUE=BINARY (its text cannot be read as TEXT)
	MethodForm string   `json:"method_form,omitempty"`
	Comps      []string `json:"comps"` // "TYPE/uid"
}

var c19MethodForms = []string{"", "empty", "binary"}

// method variants: 0 = no METHOD, 1..3 = METHOD present in the three forms, 4 = no METHOD property although the
// property map holds the key with an empty list (what removing the property in place leaves behind), 5 = the
// same with a nil list
const c19MV = 6

var c19PerComp = len(c19Types) * len(c19UIDs)

func c19Decode(idx int, l int, mv int) c19Case {
	c := c19Case{Method: mv > 0 && mv <= 3}
	switch {
	case mv >= 1 && mv <= 3:
		c.MethodForm = c19MethodForms[mv-1]
	case mv == 4:
		c.MethodForm = "key-with-empty-list"
	case mv == 5:
		c.MethodForm = "key-with-nil-list"
	}
	for k := 0; k < l; k++ {
		d := idx % c19PerComp
		idx /= c19PerComp
		c.Comps = append(c.Comps, c19Types[d/len(c19UIDs)]+"/"+c19UIDs[d%len(c19UIDs)])
	}
	return c
}

func c19Build(c c19Case) *ical.Calendar {
	cal := ical.NewCalendar()
	cal.Props.SetText(ical.PropVersion, "2.0")
	cal.Props.SetText(ical.PropProductID, "-//verif//EN")
	if c.Method {
		switch c.MethodForm {
		case "empty":
			p := ical.NewProp(ical.PropMethod)
			cal.Props.Set(p)
		case "binary":
			p := ical.NewProp(ical.PropMethod)
			p.Params.Set(ical.ParamValue, "BINARY")
			p.Value = "UkVRVUVTVA=="
			cal.Props.Set(p)
		default:
			cal.Props.SetText(ical.PropMethod, "REQUEST")
		}
	}
	if !c.Method {
		switch c.MethodForm {
		case "key-with-empty-list":
			cal.Props[ical.PropMethod] = []ical.Prop{}
		case "key-with-nil-list":
			cal.Props[ical.PropMethod] = nil
		}
	}
	for _, s := range c.Comps {
		i := strings.IndexByte(s, '/')
		comp := ical.NewComponent(s[:i])
		if uid := s[i+1:]; uid == "\x00EMPTY" {
			comp.Props.Set(ical.NewProp(ical.PropUID))
		} else if strings.HasPrefix(uid, "\x00RAW:") {
			// the value as the decoder leaves it for a line such as "UID:a,b" (a comma that is not escaped)
			p := ical.NewProp(ical.PropUID)
			p.Value = uid[5:]
			comp.Props.Set(p)
		} else if uid != "" && !utf8.ValidString(uid) {
			// as the decoder leaves it: the raw bytes of the line (SetText would replace an ill-formed byte)
			p := ical.NewProp(ical.PropUID)
			p.Value = uid
			comp.Props.Set(p)
		} else if uid != "" {
			comp.Props.SetText(ical.PropUID, uid)
		}
		cal.Children = append(cal.Children, comp)
	}
	return cal
}

// reference: returns (accept, type, uid, determined). determined=false for type/uid
// means the statement leaves the value open (no non-VTIMEZONE component / no UID).
func c19Ref(c c19Case) (accept bool, typ, uid string) {
	types := map[string]bool{}
	uids := map[string]bool{}
	for _, s := range c.Comps {
		i := strings.IndexByte(s, '/')
		if s[:i] != ical.CompTimezone {
			types[s[:i]] = true
			typ = s[:i]
		}
		if u := strings.TrimPrefix(s[i+1:], "\x00RAW:"); u != "" && u != "\x00EMPTY" {
			uids[u] = true
			if uid == "" {
				uid = u
			}
		}
	}
	accept = !c.Method && len(types) <= 1 && len(uids) <= 1
	if !accept {
		return false, "", ""
	}
	return true, typ, uid
}

func c19Eval(c c19Case) (held bool, sig, expected, observed string) {
	return c19EvalOn(c19Build(c), c)
}

// c19Edit turns the calendar value cal (built for another case) into the calendar of case c IN PLACE: the
// *ical.Calendar and, where the number of components allows, the component values keep their identity.
func c19Edit(cal *ical.Calendar, c c19Case) {
	nb := c19Build(c)
	cal.Props = nb.Props
	for i, ch := range nb.Children {
		if i < len(cal.Children) {
			*cal.Children[i] = *ch
		} else {
			cal.Children = append(cal.Children, ch)
		}
	}
	cal.Children = cal.Children[:len(nb.Children)]
}

func c19EvalOn(cal *ical.Calendar, c c19Case) (held bool, sig, expected, observed string) {
	var gotT, gotU string
	var err error
	panicked := ""
	func() {
		defer func() {
			if p := recover(); p != nil {
				panicked = fmt.Sprint(p)
			}
		}()
		gotT, gotU, err = caldav.ValidateCalendarObject(cal)
	}()
	acc, wt, wu := c19Ref(c)
	// the fast path (nothing wrong) formats nothing: this function runs tens of millions of times
	if panicked == "" && ((acc && err == nil && gotT == wt && gotU == wu) || (!acc && err != nil && gotT == "" && gotU == "")) {
		if acc {
			return true, "", "", "err=<nil>"
		}
		return true, "", "", "err=rejected"
	}
	expected = fmt.Sprintf("accept=%v type=%q uid=%q", acc, wt, wu)
	observed = fmt.Sprintf("err=%v type=%q uid=%q", err, gotT, gotU)
	if panicked != "" {
		return false, "C19/panic", expected, "panic: " + panicked
	}
	class := "method=" + fmt.Sprint(c.Method)
	switch {
	case acc && err != nil:
		return false, "C19/verdict/valid-object-rejected/" + c19Class(c), expected, observed
	case !acc && err == nil:
		return false, "C19/verdict/invalid-object-accepted/" + c19Class(c), expected, observed
	case !acc && (gotT != "" || gotU != ""):
		return false, "C19/results/nonempty-results-on-rejection/" + class, expected, observed
	case acc && (gotT != wt || gotU != wu):
		return false, "C19/results/wrong-type-or-uid-on-acceptance/" + c19Class(c), expected, observed
	}
	return true, "", expected, observed
}

// abstract class of a case: what kinds of conflict it contains and where the first UID sits
func c19Class(c c19Case) string {
	types := map[string]bool{}
	uids := map[string]bool{}
	firstUIDless := false
	tzHasUID := false
	for k, s := range c.Comps {
		i := strings.IndexByte(s, '/')
		if s[:i] != ical.CompTimezone {
			types[s[:i]] = true
		} else if s[i+1:] != "" {
			tzHasUID = true
		}
		if s[i+1:] != "" && s[i+1:] != "\x00EMPTY" {
			uids[s[i+1:]] = true
		} else if k == 0 {
			firstUIDless = true
		}
	}
	return fmt.Sprintf("method=%v.types=%d.uids=%d.first-uidless=%v.tz-uid=%v", c.Method, len(types), len(uids), firstUIDless, tzHasUID)
}

func init() {
	register("C19", func(r *engine.Run) {
		maxLen := 4
		if thorough(r) {
			maxLen = 5
		}
		r.Rule = fmt.Sprintf("every calendar = METHOD{absent, REQUEST, present with an empty value, present with VALUE=BINARY} x every component sequence of length 0..%d over 5 component types x UID{absent, u1, u2, a text needing escaping, U1, present-but-empty}; non-trivial = at least 2 components (so that a type or UID conflict is expressible); distinct by the full sequence", maxLen)
		r.Explanation = "caldav.ValidateCalendarObject is executed on every generated calendar and compared with an independent reference (accept iff no METHOD, <=1 non-VTIMEZONE type, <=1 distinct UID; results = that type/UID; empty results on rejection)"
		r.Assumptions = []string{"UID values are plain iCalendar TEXT", "go-ical Props.Get/Text behave as documented"}
		base := 0
		for l := 0; l <= maxLen; l++ {
			n := 1
			for k := 0; k < l; k++ {
				n *= c19PerComp
			}
			l := l
			off := int64(base)
			r.Parallel(n*c19MV, func(i int, s *engine.Shard) {
				c := c19Decode(i/c19MV, l, i%c19MV)
				s.Transition()
				held, sig, exp, obs := c19Eval(c)
				acc, _, _ := c19Ref(c)
				s.Outcome(fmt.Sprintf("ref-accept=%v/%s", acc, strings.SplitN(obs, " ", 2)[0][:min(len(obs), 8)]))
				if l >= 2 {
					s.Nontrivial(strconv.Itoa(l) + ":" + strconv.Itoa(i))
				}
				if acc {
					s.Clause("accepted: type and uid compared")
				} else {
					s.Clause("rejected: error and empty results required")
				}
				if i%9973 == 7 || (l == 2 && i == 60) {
					a, wt, wu := c19Ref(c)
					s.Sample(map[string]interface{}{"case": c, "expected": fmt.Sprintf("accept=%v type=%q uid=%q", a, wt, wu), "observed": obs})
				}
				if !held {
					s.Violate(engine.Violation{Sig: sig, Clause: sig, Index: off + int64(i), Kind: "C19", Case: c, Expected: exp, Observed: obs})
				}
			})
			base += n * c19MV
		}
		// history independence: the verdict on a calendar does not depend on what was validated before.
		// Every ordered pair of the calendars with at most 1 component and a seventh of those with 2, back to back in one
		// goroutine per first element.
		var small []c19Case
		for l := 0; l <= 2; l++ {
			n := 1
			for k := 0; k < l; k++ {
				n *= c19PerComp
			}
			for i := 0; i < n*c19MV; i++ {
				if l == 2 && i%7 != 0 {
					continue // a seventh of the two-component calendars
				}
				small = append(small, c19Decode(i/c19MV, l, i%c19MV))
			}
		}
		r.Extra["history_pairs"] = len(small) * len(small)
		hbase := int64(1) << 40
		r.Parallel(len(small), func(ai int, s *engine.Shard) {
			for bi, b := range small {
				c19Eval(small[ai])
				held, sig, exp, obs := c19Eval(b)
				s.Transition()
				s.Transition()
				s.Clause("history independence: verdict after another validation")
				if !held {
					s.Violate(engine.Violation{Sig: strings.Replace(sig, "C19/", "C19/history/", 1), Clause: "history", Index: hbase + int64(ai)*int64(len(small)) + int64(bi), Kind: "C19-history",
						Case: map[string]interface{}{"First": small[ai], "Second": b}, Expected: exp, Observed: obs})
				}
				// the same pair on ONE calendar value: validated, edited in place into the second calendar,
				// validated again (a backend that validates, amends the object and validates once more)
				cal := c19Build(small[ai])
				c19EvalOn(cal, small[ai])
				c19Edit(cal, b)
				held, sig, exp, obs = c19EvalOn(cal, b)
				s.Transition()
				s.Transition()
				s.Clause("history independence: verdict on a calendar value edited in place after a validation")
				if !held {
					s.Violate(engine.Violation{Sig: strings.Replace(sig, "C19/", "C19/history-in-place/", 1), Clause: "history-in-place", Index: hbase + int64(ai)*int64(len(small)) + int64(bi), Kind: "C19-history",
						Case: map[string]interface{}{"First": small[ai], "Second": b, "InPlace": true}, Expected: exp, Observed: obs})
				}
			}
			s.Nontrivial(fmt.Sprintf("H/%d", ai))
		})
		// scale and byte-level UIDs, outside the enumerated family: many VTIMEZONE components in front of the
		// first typed one (counters and indexes narrower than int), and UIDs that are not valid UTF-8 or differ only
		// in an ill-formed byte (they are different strings)
		var extra []c19Case
		for _, k := range []int{126, 127, 128, 129, 255, 256, 257, 300} {
			for _, tail := range [][]string{{"VEVENT/u1", "VTODO/u1"}, {"VEVENT/u1", "VEVENT/u1"}, {"VEVENT/u1", "VEVENT/u2"}, {"VTODO/", "VTODO/u1"}} {
				c := c19Case{}
				for i := 0; i < k; i++ {
					c.Comps = append(c.Comps, "VTIMEZONE/")
				}
				c.Comps = append(c.Comps, tail...)
				extra = append(extra, c)
			}
		}
		odd := []string{"\xe9", "\xfc", "\xff", "\xfe", "\ufffd", "e\u0301", "\u00e9", "\U0001F382", "\xf0\x9f\x8e", "K", "\u212a",
			// UID lines holding a comma that is not escaped: the UID is the whole text
			"\x00RAW:a,b", "\x00RAW:a,c", "\x00RAW:a", "\x00RAW:a,"}
		for _, a := range odd {
			extra = append(extra, c19Case{Comps: []string{"VEVENT/" + a}})
			for _, b := range odd {
				extra = append(extra, c19Case{Comps: []string{"VEVENT/" + a, "VEVENT/" + b}}, c19Case{Comps: []string{"VTIMEZONE/", "VTODO/" + a, "VTODO/", "VTODO/" + b}})
			}
		}
		r.Extra["scale_and_byte_level_cases"] = len(extra)
		{
			sh := r.Shard()
			for i, c := range extra {
				held, sig, exp, obs := c19Eval(c)
				sh.Transition()
				sh.Clause("many leading VTIMEZONE components / UIDs compared byte for byte")
				sh.Nontrivial(fmt.Sprintf("X/%d", i))
				if !held {
					cc := c
					if len(cc.Comps) > 8 {
						cc.Comps = append([]string{fmt.Sprintf("(%d x VTIMEZONE/)", len(c.Comps)-2)}, c.Comps[len(c.Comps)-2:]...)
					}
					sh.Violate(engine.Violation{Sig: strings.Replace(sig, "C19/", "C19/scale-or-bytes/", 1), Clause: "scale-or-bytes", Index: int64(1)<<41 + int64(i), Kind: "C19", Case: c, Expected: exp, Observed: obs + fmt.Sprintf(" (%d components: %v)", len(c.Comps), cc.Comps)})
				}
			}
			r.Merge(sh)
		}
		r.Extra["max_components"] = maxLen
	})
	registerReplay("C19-history", func(raw json.RawMessage) (bool, string) {
		var c struct {
			First, Second c19Case
			InPlace       bool
		}
		if err := json.Unmarshal(raw, &c); err != nil {
			return false, err.Error()
		}
		if c.InPlace {
			cal := c19Build(c.First)
			c19EvalOn(cal, c.First)
			c19Edit(cal, c.Second)
			held, _, exp, obs := c19EvalOn(cal, c.Second)
			return held, "expected " + exp + " observed " + obs
		}
		c19Eval(c.First)
		held, _, exp, obs := c19Eval(c.Second)
		return held, "expected " + exp + " observed " + obs
	})
	registerReplay("C19", func(raw json.RawMessage) (bool, string) {
		var c c19Case
		if err := json.Unmarshal(raw, &c); err != nil {
			return false, err.Error()
		}
		held, _, exp, obs := c19Eval(c)
		return held, "expected " + exp + " observed " + obs
	})
}
