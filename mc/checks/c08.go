package checks

import (
	"context"
	"encoding/json"
	"fmt"
	"hash/fnv"
	"strings"
	"time"

	"github.com/emersion/go-webdav/caldav"
	"github.com/emersion/go-webdav/verifmc/engine"
	"github.com/emersion/go-webdav/verifmc/harness"
	"github.com/emersion/go-webdav/verifmc/indep"
)

// C08 — CalDAV queries cross the wire in RFC 4791 form, without loss.

// ---------- API value -> reference denotation ----------

func rangeOf(s, e time.Time) *indep.RRange {
	if s.IsZero() && e.IsZero() {
		return nil
	}
	r := &indep.RRange{}
	if !s.IsZero() {
		r.HasStart, r.Start = true, s.Unix()
	}
	if !e.IsZero() {
		r.HasEnd, r.End = true, e.Unix()
	}
	return r
}

func rTextMatch(tm *caldav.TextMatch) []indep.RTextMatch {
	if tm == nil {
		return nil
	}
	return []indep.RTextMatch{{Text: tm.Text, Negate: tm.NegateCondition}}
}

func rCompFilter(f caldav.CompFilter) indep.RCompFilter {
	out := indep.RCompFilter{Name: f.Name, IsNotDefined: f.IsNotDefined, Range: rangeOf(f.Start, f.End)}
	for _, p := range f.Props {
		rp := indep.RPropFilter{Name: p.Name, IsNotDefined: p.IsNotDefined, Range: rangeOf(p.Start, p.End), TextMatches: rTextMatch(p.TextMatch)}
		for _, pa := range p.ParamFilter {
			x := indep.RParamFilter{Name: pa.Name, IsNotDefined: pa.IsNotDefined}
			if pa.TextMatch != nil {
				x.TextMatch = &indep.RTextMatch{Text: pa.TextMatch.Text, Negate: pa.TextMatch.NegateCondition}
			}
			rp.Params = append(rp.Params, x)
		}
		out.Props = append(out.Props, rp)
	}
	for _, c := range f.Comps {
		out.Comps = append(out.Comps, rCompFilter(c))
	}
	return out
}

func rCompReq(c caldav.CalendarCompRequest) indep.RComp {
	out := indep.RComp{Name: c.Name, AllProp: c.AllProps, Props: c.Props, AllComp: c.AllComps}
	for _, s := range c.Comps {
		out.Comps = append(out.Comps, rCompReq(s))
	}
	return out
}

func rCalData(c caldav.CalendarCompRequest) *indep.RCalData {
	rc := rCompReq(c)
	cd := &indep.RCalData{Comp: &rc}
	if c.Expand != nil {
		cd.Expand = &indep.RRange{HasStart: true, Start: c.Expand.Start.Unix(), HasEnd: true, End: c.Expand.End.Unix()}
	}
	return cd
}

// normRange treats an instant equal to Go's zero time as an absent bound (the client writes an
// open bound as 00010101T000000Z; both denote "unbounded on that side").
func normRange(r *indep.RRange) *indep.RRange {
	if r == nil {
		return nil
	}
	z := time.Time{}.Unix()
	n := *r
	if n.HasStart && n.Start == z {
		n.HasStart, n.Start = false, 0
	}
	if n.HasEnd && n.End == z {
		n.HasEnd, n.End = false, 0
	}
	if !n.HasStart && !n.HasEnd {
		return nil
	}
	return &n
}

func normCompFilter(f indep.RCompFilter) indep.RCompFilter {
	f.Range = normRange(f.Range)
	for i := range f.Props {
		f.Props[i].Range = normRange(f.Props[i].Range)
	}
	for i := range f.Comps {
		f.Comps[i] = normCompFilter(f.Comps[i])
	}
	return f
}

// ---------- generators ----------

var c08Zones = []*time.Location{time.UTC, time.FixedZone("+0500", 5*3600), time.FixedZone("-0330", -(3*3600 + 1800))}

func c08Instants() [][2]time.Time {
	base := time.Date(2020, 1, 1, 10, 0, 0, 0, time.UTC)
	var out [][2]time.Time
	out = append(out, [2]time.Time{})
	for _, z := range c08Zones {
		s, e := base.In(z), base.Add(36*time.Hour).In(z)
		out = append(out, [2]time.Time{s, e}, [2]time.Time{s, {}}, [2]time.Time{{}, e})
	}
	// instants far from the epoch (beyond what fits nanoseconds in 64 bits): the customary "for ever" end
	out = append(out, [2]time.Time{time.Date(1600, 1, 1, 0, 0, 0, 0, time.UTC), time.Date(9999, 12, 31, 23, 59, 59, 0, time.UTC)})
	return out
}

var c08Texts = []string{"a", " a<b&c ", "", "é", `x]]>y "q" 'r'`, "l1\r\nl2\t", "\U0001F382 \U00020BB7 e\u0301"}

// spellings of an XML content type a conformant client may send (media types and parameter names are
// case-insensitive, charset values too; parameter values may be quoted)
var xmlContentTypes = []string{"application/xml; charset=utf-8", "application/xml", "text/xml", "application/xml; charset=UTF-8", `text/xml; charset="UTF-8"`, "Application/XML;charset=Utf-8", "text/xml; Charset=utf-8"}

func c08TextMatches() []*caldav.TextMatch {
	out := []*caldav.TextMatch{nil}
	for _, t := range c08Texts {
		out = append(out, &caldav.TextMatch{Text: t}, &caldav.TextMatch{Text: t, NegateCondition: true})
	}
	return out
}

func c08ParamFilters() [][]caldav.ParamFilter {
	out := [][]caldav.ParamFilter{nil}
	out = append(out, []caldav.ParamFilter{{Name: "LANGUAGE", IsNotDefined: true}})
	out = append(out, []caldav.ParamFilter{{Name: "X-é"}})
	for _, tm := range c08TextMatches()[1:] {
		out = append(out, []caldav.ParamFilter{{Name: "PARTSTAT", TextMatch: tm}})
	}
	out = append(out, []caldav.ParamFilter{{Name: "A", IsNotDefined: true}, {Name: "B", TextMatch: &caldav.TextMatch{Text: "x", NegateCondition: true}}})
	return out
}

func c08PropFilters(full bool) []caldav.PropFilter {
	var out []caldav.PropFilter
	inst := c08Instants()
	for _, n := range []string{"SUMMARY", "X-é"} {
		out = append(out, caldav.PropFilter{Name: n, IsNotDefined: true})
		for _, pa := range c08ParamFilters() {
			out = append(out, caldav.PropFilter{Name: n, ParamFilter: pa})
			for ti, tm := range c08TextMatches()[1:] {
				if !full && len(pa) > 0 && ti > 1 {
					continue
				}
				out = append(out, caldav.PropFilter{Name: n, TextMatch: tm, ParamFilter: pa})
			}
		}
		for ri, rg := range inst[1:] {
			out = append(out, caldav.PropFilter{Name: n, Start: rg[0], End: rg[1]})
			// RFC 4791 9.7.2: ((time-range | text-match)?, param-filter*) - a time range together with param-filters
			for pi, pa := range c08ParamFilters()[1:] {
				if full || (ri+pi)%3 == 0 {
					out = append(out, caldav.PropFilter{Name: n, Start: rg[0], End: rg[1], ParamFilter: pa})
				}
			}
		}
	}
	return out
}

func c08Filters(full bool) []caldav.CompFilter {
	props := c08PropFilters(full)
	inst := c08Instants()
	var leaf []caldav.CompFilter
	for _, n := range []string{"VALARM", "X-é"} {
		leaf = append(leaf, caldav.CompFilter{Name: n, IsNotDefined: true}, caldav.CompFilter{Name: n})
		leaf = append(leaf, caldav.CompFilter{Name: n, Props: []caldav.PropFilter{props[1]}})
	}
	var mid []caldav.CompFilter
	for _, n := range []string{"VEVENT", "X-é"} {
		mid = append(mid, caldav.CompFilter{Name: n, IsNotDefined: true})
		for _, rg := range inst {
			mid = append(mid, caldav.CompFilter{Name: n, Start: rg[0], End: rg[1]})
			for pi, p := range props {
				if rg[0].IsZero() && rg[1].IsZero() || pi%17 == 0 {
					mid = append(mid, caldav.CompFilter{Name: n, Start: rg[0], End: rg[1], Props: []caldav.PropFilter{p}})
				}
			}
			for _, l := range leaf {
				mid = append(mid, caldav.CompFilter{Name: n, Start: rg[0], End: rg[1], Comps: []caldav.CompFilter{l}})
			}
		}
		if full {
			// strides grow with the family so that the product stays near 80 x 23 per name
			si, sj := 3, 11
			if len(props)/80 > si {
				si = len(props) / 80
			}
			if len(props)/23 > sj {
				sj = len(props)/23 | 1
			}
			for i := 0; i < len(props); i += si {
				for j := 1; j < len(props); j += sj {
					mid = append(mid, caldav.CompFilter{Name: n, Props: []caldav.PropFilter{props[i], props[j]}, Comps: []caldav.CompFilter{leaf[i%len(leaf)]}})
				}
			}
		}
	}
	var out []caldav.CompFilter
	out = append(out, caldav.CompFilter{Name: "VCALENDAR"}, caldav.CompFilter{Name: "VCALENDAR", IsNotDefined: true})
	out = append(out, caldav.CompFilter{Name: "VCALENDAR", Props: []caldav.PropFilter{props[0]}})
	for _, m := range mid {
		out = append(out, caldav.CompFilter{Name: "VCALENDAR", Comps: []caldav.CompFilter{m}})
	}
	mi, mj := 37, 53
	if len(mid)/110 > mi {
		mi = len(mid)/110 | 1
	}
	if len(mid)/75 > mj {
		mj = len(mid)/75 | 1
	}
	for i := 0; i < len(mid); i += mi {
		for j := 5; j < len(mid); j += mj {
			out = append(out, caldav.CompFilter{Name: "VCALENDAR", Comps: []caldav.CompFilter{mid[i], mid[j]}})
		}
	}
	return out
}

func c08CompRequests() []caldav.CalendarCompRequest {
	z := c08Zones[1]
	s, e := time.Date(2021, 3, 4, 23, 30, 0, 0, z), time.Date(2021, 3, 9, 1, 0, 0, 0, z)
	return []caldav.CalendarCompRequest{
		{Name: "VCALENDAR", AllProps: true, AllComps: true},
		{Name: "VCALENDAR", Props: []string{"VERSION"}},
		{Name: "VCALENDAR", Props: []string{"VERSION", "X-é"}, Comps: []caldav.CalendarCompRequest{{Name: "VEVENT", Props: []string{"SUMMARY", "UID"}}, {Name: "VTIMEZONE", AllProps: true, AllComps: true}}},
		{Name: "VCALENDAR", AllProps: true, Comps: []caldav.CalendarCompRequest{{Name: "VEVENT", AllComps: true, Props: []string{"DTSTART"}}}},
		// components that select no property at all (neither allprop nor prop) at the top and below
		{Name: "VCALENDAR", Comps: []caldav.CalendarCompRequest{{Name: "VEVENT", Props: []string{"SUMMARY"}}, {Name: "VTIMEZONE"}}},
		{Name: "VCALENDAR", AllProps: true, AllComps: true, Expand: &caldav.CalendarExpandRequest{Start: s, End: e}},
		// the bare component: none of its properties, none of its sub-components (alone and with expand)
		{Name: "VCALENDAR"},
		{Name: "VCALENDAR", Expand: &caldav.CalendarExpandRequest{Start: s, End: e}},
	}
}

// ---------- direction A: API -> wire ----------

type c08ACase struct {
	Kind  string                   `json:"kind"` // query | multiget
	Query *caldav.CalendarQuery    `json:"query,omitempty"`
	Multi *caldav.CalendarMultiGet `json:"multiget,omitempty"`
	Path  string                   `json:"path"`
}

func c08JudgeA(c c08ACase) (clause, detail string) {
	defer func() {
		if p := recover(); p != nil {
			clause, detail = "panic", fmt.Sprint(p)
		}
	}()
	cap := &harness.Capture{}
	cl, err := caldav.NewClient(cap, "http://h/")
	if err != nil {
		return "client", err.Error()
	}
	// what the caller expresses is fixed BEFORE the call; the call must not change the caller's value
	var want indep.RCalReport
	var before string
	if c.Kind == "query" {
		before = js(c.Query)
		f := rCompFilter(c.Query.CompFilter)
		want = indep.RCalReport{Root: "calendar-query", PropForm: "prop", CalData: rCalData(c.Query.CompRequest), Filter: &f}
		_, err = cl.QueryCalendar(context.Background(), c.Path, c.Query)
		if after := js(c.Query); after != before {
			return "caller-value-modified", fmt.Sprintf("CalendarQuery before %s after %s", before, after)
		}
	} else {
		before = js(c.Multi)
		want = indep.RCalReport{Root: "calendar-multiget", PropForm: "prop", CalData: rCalData(c.Multi.CompRequest), Hrefs: append([]string(nil), c.Multi.Paths...)}
		if len(c.Multi.Paths) == 0 {
			want.Hrefs = []string{c.Path} // documented behaviour: the collection itself
		}
		_, err = cl.MultiGetCalendar(context.Background(), c.Path, c.Multi)
		if after := js(c.Multi); after != before {
			return "caller-value-modified", fmt.Sprintf("CalendarMultiGet before %s after %s", before, after)
		}
	}
	if err != nil {
		return "client-error", err.Error()
	}
	if cap.Method != "REPORT" {
		return "method", cap.Method
	}
	if !strings.Contains(cap.Header.Get("Content-Type"), "xml") {
		return "content-type", cap.Header.Get("Content-Type")
	}
	got, err := indep.ReadCalReport(cap.Body)
	if err != nil {
		return "not-rfc4791", fmt.Sprintf("%v in %s", err, trunc(string(cap.Body), 400))
	}
	got.Other = nil
	// An open bound must be ABSENT on the wire: an independent reader takes start="..." end="00010101T000000Z"
	// (Go's zero time written out) for a range that ends in the year 1, not for an open one. (Until the repair
	// "omit an open bound" this check read that spelling as "absent", which was a loosened oracle.)
	if a, b := js(got), js(want); a != b {
		return "altered", fmt.Sprintf("wire denotes %s; caller meant %s", a, b)
	}
	return "", ""
}

// which feature differs (signature component)
func c08Diff(got, want string) string {
	var g, w map[string]interface{}
	json.Unmarshal([]byte(got), &g)
	json.Unmarshal([]byte(want), &w)
	feats := map[string]bool{}
	var walk func(a, b interface{}, path string)
	walk = func(a, b interface{}, path string) {
		if js(a) == js(b) {
			return
		}
		am, aok := a.(map[string]interface{})
		bm, bok := b.(map[string]interface{})
		if aok && bok {
			keys := map[string]bool{}
			for k := range am {
				keys[k] = true
			}
			for k := range bm {
				keys[k] = true
			}
			for k := range keys {
				walk(am[k], bm[k], k)
			}
			return
		}
		al, aok := a.([]interface{})
		bl, bok := b.([]interface{})
		if aok && bok && len(al) == len(bl) {
			for i := range al {
				walk(al[i], bl[i], path)
			}
			return
		}
		feats[path] = true
	}
	walk(g, w, "root")
	return strings.Join(sortedKeys(feats), "+")
}

// ---------- direction B: wire -> backend ----------

type c08BCase struct {
	Ref        indep.RCalReport `json:"reference"`
	Style      indep.Style      `json:"style"`
	ExplicitNo bool             `json:"explicit_negate_no"`
}

// bVariant picks, by a hash of the reference request, how a direction-B request travels: with its body length
// not announced (chunked), and / or to a handler mounted under the prefix "/dav/" (written with its trailing
// slash) with every path of the request below it.
func bVariant(ref interface{}) (chunked, mount bool) {
	h := fnv.New32a()
	h.Write([]byte(js(ref)))
	v := h.Sum32()
	return v%3 == 1, v%5 == 2
}

func prefixAll(l []string, pfx string) []string {
	if l == nil {
		return nil
	}
	out := make([]string, len(l))
	for i, s := range l {
		out[i] = pfx + s
	}
	return out
}

func c08JudgeB(c c08BCase) (clause, detail string) {
	chunked, mount := bVariant(&c.Ref)
	pfx, hprefix := "", ""
	if mount {
		pfx, hprefix = "/dav", "/dav/"
		c.Ref.Hrefs = prefixAll(c.Ref.Hrefs, pfx)
	}
	body := indep.Render(indep.CalReportEl(&c.Ref, c.ExplicitNo), c.Style)
	// the generated document must be conformant according to the independent reader
	if chk, err := indep.ReadCalReport(body); err != nil {
		return "generator-bug", err.Error() + ": " + string(body)
	} else {
		chk.Other = nil
		ref := c.Ref
		if js(chk) != js(&ref) {
			return "generator-bug", fmt.Sprintf("writer/reader disagree: %s vs %s", js(chk), js(&ref))
		}
	}
	l := c12LayoutFor(pfx)
	b := &harness.CalBackend{Principal: l.Principal, HomeSet: l.HomeSet, Calendars: []caldav.Calendar{{Path: l.Coll1}},
		Objects: []caldav.CalendarObject{{Path: pfx + "/u/c/k1/o1.ics", ETag: "e", Data: harness.SampleCalendar("1", "s")}}}
	resp := harness.Serve(&caldav.Handler{Backend: b, Prefix: hprefix}, harness.Req{Method: "REPORT", Path: l.Coll1, Chunked: chunked, Header: map[string]string{"Content-Type": xmlContentTypes[len(body)%len(xmlContentTypes)], "Depth": "1"}, Body: string(body)})
	if resp.Panic != "" {
		return "panic", resp.Panic
	}
	if resp.Status != 207 {
		return "conformant-request-refused", fmt.Sprintf("status %d %s", resp.Status, trunc(string(resp.Body), 160))
	}
	wantData := indep.RCalData{Comp: &indep.RComp{AllProp: true, AllComp: true}}
	if c.Ref.CalData != nil {
		if c.Ref.CalData.Comp != nil {
			wantData.Comp = c.Ref.CalData.Comp
		}
		wantData.Expand = c.Ref.CalData.Expand
	}
	calls := b.Snapshot()
	if c.Ref.Root == "calendar-query" {
		var q *caldav.CalendarQuery
		for _, cl := range calls {
			if cl.Method == "QueryCalendarObjects" {
				v := cl.Arg.(caldav.CalendarQuery)
				q = &v
				if cl.Path != l.Coll1 {
					return "path", cl.Path
				}
			}
		}
		if q == nil {
			return "backend-not-reached", fmt.Sprint(calls)
		}
		gotF := rCompFilter(q.CompFilter)
		if a, w := js(gotF), js(c.Ref.Filter); a != w {
			return "filter-altered", fmt.Sprintf("backend got %s; document denotes %s", a, w)
		}
		gotD := rCalData(q.CompRequest)
		if c.Ref.PropForm == "prop" {
			if a, w := js(gotD), js(&wantData); a != w {
				return "selection-altered", fmt.Sprintf("backend got %s; document denotes %s", a, w)
			}
		}
		return "", ""
	}
	var paths []string
	for _, cl := range calls {
		if cl.Method == "GetCalendarObject" {
			paths = append(paths, cl.Path)
			if cr, ok := cl.Arg.(caldav.CalendarCompRequest); ok && c.Ref.PropForm == "prop" {
				if a, w := js(rCalData(cr)), js(&wantData); a != w {
					return "selection-altered", fmt.Sprintf("backend got %s; document denotes %s", a, w)
				}
			}
		}
	}
	if js(paths) != js(c.Ref.Hrefs) {
		return "hrefs-altered", fmt.Sprintf("backend asked for %v; document lists %v", paths, c.Ref.Hrefs)
	}
	return "", ""
}

// c08JudgeSeq sends two conformant reports one after the other to ONE handler (same process state)
// and checks that the second reaches the backend as what it denotes: nothing of the first may linger.
func c08JudgeSeq(first, second indep.RCalReport) (clause, detail string) {
	l := c12LayoutFor("")
	b := &harness.CalBackend{Principal: l.Principal, HomeSet: l.HomeSet, Calendars: []caldav.Calendar{{Path: l.Coll1}},
		Objects: []caldav.CalendarObject{{Path: "/u/c/k1/o1.ics", ETag: "e", Data: harness.SampleCalendar("1", "s")}}}
	h := &caldav.Handler{Backend: b}
	send := func(r indep.RCalReport) harness.Resp {
		body := indep.Render(indep.CalReportEl(&r, false), indep.Style{})
		return harness.Serve(h, harness.Req{Method: "REPORT", Path: l.Coll1, Header: map[string]string{"Content-Type": "application/xml", "Depth": "1"}, Body: string(body)})
	}
	if r := send(first); r.Status != 207 {
		return "conformant-request-refused", fmt.Sprint(r.Status)
	}
	b.Reset()
	if r := send(second); r.Status != 207 {
		return "conformant-request-refused", fmt.Sprint(r.Status)
	}
	wantData := indep.RCalData{Comp: &indep.RComp{AllProp: true, AllComp: true}}
	if second.CalData != nil {
		if second.CalData.Comp != nil {
			wantData.Comp = second.CalData.Comp
		}
		wantData.Expand = second.CalData.Expand
	}
	for _, cl := range b.Snapshot() {
		var got *indep.RCalData
		switch cl.Method {
		case "QueryCalendarObjects":
			q := cl.Arg.(caldav.CalendarQuery)
			got = rCalData(q.CompRequest)
			if a, w := js(rCompFilter(q.CompFilter)), js(second.Filter); a != w {
				return "filter-altered-by-previous-request", fmt.Sprintf("backend got %s; document denotes %s", a, w)
			}
		case "GetCalendarObject":
			if cr, ok := cl.Arg.(caldav.CalendarCompRequest); ok {
				got = rCalData(cr)
			}
		}
		if got != nil {
			if a, w := js(got), js(&wantData); a != w {
				return "selection-altered-by-previous-request", fmt.Sprintf("backend got %s; document denotes %s", a, w)
			}
		}
	}
	return "", ""
}

func c08SeqDocs() []indep.RCalReport {
	f := indep.RCompFilter{Name: "VCALENDAR", Comps: []indep.RCompFilter{{Name: "VEVENT", Range: &indep.RRange{HasStart: true, Start: 1577872800}}}}
	f2 := indep.RCompFilter{Name: "VCALENDAR"}
	ex := &indep.RRange{HasStart: true, Start: 1577872800, HasEnd: true, End: 1578000000}
	comp := &indep.RComp{Name: "VCALENDAR", Props: []string{"VERSION"}, Comps: []indep.RComp{{Name: "VEVENT", AllProp: true}}}
	var out []indep.RCalReport
	for _, cd := range []*indep.RCalData{nil, {}, {Expand: ex}, {Comp: comp}, {Comp: comp, Expand: ex}} {
		out = append(out, indep.RCalReport{Root: "calendar-query", PropForm: "prop", CalData: cd, Filter: &f})
		out = append(out, indep.RCalReport{Root: "calendar-query", PropForm: "prop", CalData: cd, Filter: &f2})
		out = append(out, indep.RCalReport{Root: "calendar-multiget", PropForm: "prop", CalData: cd, Hrefs: []string{"/u/c/k1/o1.ics"}})
	}
	return out
}

func c08FeatureClass(f caldav.CompFilter) string {
	feats := map[string]bool{}
	var walk func(f caldav.CompFilter, d int)
	walk = func(f caldav.CompFilter, d int) {
		if f.IsNotDefined {
			feats["comp.is-not-defined"] = true
		}
		if !f.Start.IsZero() || !f.End.IsZero() {
			z := "utc"
			if (!f.Start.IsZero() && f.Start.Location() != time.UTC) || (!f.End.IsZero() && f.End.Location() != time.UTC) {
				z = "non-utc"
			}
			feats["comp.time-range."+z] = true
		}
		for _, p := range f.Props {
			if p.IsNotDefined {
				feats["prop.is-not-defined"] = true
			}
			if p.TextMatch != nil {
				feats[fmt.Sprintf("prop.text-match.negate=%v", p.TextMatch.NegateCondition)] = true
			}
			if !p.Start.IsZero() || !p.End.IsZero() {
				feats["prop.time-range"] = true
			}
			for _, pa := range p.ParamFilter {
				if pa.IsNotDefined {
					feats["param.is-not-defined"] = true
				}
				if pa.TextMatch != nil {
					feats[fmt.Sprintf("param.text-match.negate=%v", pa.TextMatch.NegateCondition)] = true
				}
			}
		}
		for _, c := range f.Comps {
			walk(c, d+1)
		}
	}
	walk(f, 0)
	return strings.Join(sortedKeys(feats), "+")
}

func init() {
	register("C08", func(r *engine.Run) {
		full := thorough(r)
		filters := c08Filters(full)
		crs := c08CompRequests()
		var acases []c08ACase
		for fi, f := range filters {
			for ci, cr := range crs {
				if ci > 0 && fi%5 != 0 && !full {
					continue
				}
				q := &caldav.CalendarQuery{CompRequest: cr, CompFilter: f}
				acases = append(acases, c08ACase{Kind: "query", Query: q, Path: "/u/c/k1/"})
			}
		}
		var pathLists [][]string
		pathLists = append(pathLists, nil)
		for _, a := range c05Names {
			pathLists = append(pathLists, []string{"/u/c/k1/" + a})
			for _, b := range c05Names[:6] {
				pathLists = append(pathLists, []string{"/u/c/k1/" + a, "/u/c/k1/" + b})
			}
		}
		pathLists = append(pathLists, []string{"/u/c/k1/c", "/u/c/k1/a", "/u/c/k1/b"}, []string{"/u/c/k1/a", "/u/c/k1/a"})
		for pi, pl := range pathLists {
			for ci, cr := range crs {
				if ci > 0 && pi%7 != 0 && !full {
					continue
				}
				acases = append(acases, c08ACase{Kind: "multiget", Multi: &caldav.CalendarMultiGet{Paths: pl, CompRequest: cr}, Path: "/u/c/k1/"})
			}
		}
		r.Rule = fmt.Sprintf("direction A: %d CalendarQuery/CalendarMultiGet values (comp-filter trees up to 3 levels over 4 names incl. non-ASCII, is-not-defined at all three levels, time ranges {both, start only, end only} in 3 zones, text-match over {a,' a<b&c ','',é} x negate, param-filters, 5 component selections incl. nested names and expand in a non-UTC zone, href lists over 20 special names) sent by the real client and read by an independent strict RFC 4791 reader; direction B: every reference report of the same space written by an independent writer in lexical styles (3 namespace styles x indent x attribute order x empty-element form x explicit negate-condition=no; quick: one rotating style each + all 24 styles on a sample) and sent to the real handler over a recording backend; non-trivial = every case; distinct by (value, style)", len(acases))
		r.Explanation = "the client's request body must parse under the independent RFC 4791 grammar (namespaces, names, DTD child order, UTC date form) and denote the caller's value; the recorded backend argument must equal what the document denotes"
		r.Assumptions = []string{"the zero CalendarCompRequest (empty component name) is not generated: what it denotes is unspecified"}
		r.Extra["direction_a_cases"] = len(acases)
		r.Parallel(len(acases), func(i int, s *engine.Shard) {
			c := acases[i]
			s.Transition()
			clause, detail := c08JudgeA(c)
			s.Clause("A: client XML is RFC 4791 and denotes the caller's value")
			s.Outcome("A/" + c.Kind + "/" + clause)
			s.Nontrivial(fmt.Sprintf("A/%d", i))
			if i%3001 == 50 {
				s.Sample(map[string]interface{}{"direction": "A", "case": c})
			}
			if clause != "" {
				cls := c.Kind
				if c.Kind == "query" {
					cls += "." + c08FeatureClass(c.Query.CompFilter)
				}
				if clause == "altered" {
					parts := strings.SplitN(detail, "; caller meant ", 2)
					cls = c.Kind + ".differs-in=" + c08Diff(strings.TrimPrefix(parts[0], "wire denotes "), parts[1])
				} else if clause == "not-rfc4791" {
					cls = c.Kind + "." + strings.SplitN(strings.TrimPrefix(detail, "indep: "), " in <", 2)[0]
					if len(cls) > 100 {
						cls = cls[:100]
					}
				}
				s.Violate(engine.Violation{Sig: "C08/client/" + clause + "/" + cls, Clause: clause, Index: int64(i), Kind: "C08-A", Case: c, Expected: "RFC 4791 document denoting the caller's request", Observed: detail})
			}
		})
		// direction B
		styles := indep.AllStyles()
		var bcases []c08BCase
		n := 0
		for _, ac := range acases {
			var ref indep.RCalReport
			if ac.Kind == "query" {
				f := rCompFilter(ac.Query.CompFilter)
				ref = indep.RCalReport{Root: "calendar-query", PropForm: "prop", CalData: rCalData(ac.Query.CompRequest), Filter: &f}
			} else {
				if len(ac.Multi.Paths) == 0 {
					continue
				}
				ref = indep.RCalReport{Root: "calendar-multiget", PropForm: "prop", CalData: rCalData(ac.Multi.CompRequest), Hrefs: ac.Multi.Paths}
			}
			// conformant documents only: is-not-defined must stand alone; (time-range|text-match) exclusive
			if !c08Conformant(ref) {
				continue
			}
			n++
			if full || n%97 == 0 {
				for _, st := range styles {
					bcases = append(bcases, c08BCase{Ref: ref, Style: st, ExplicitNo: st.Indent})
				}
			} else {
				bcases = append(bcases, c08BCase{Ref: ref, Style: styles[n%len(styles)], ExplicitNo: n%2 == 0})
			}
			if n%13 == 0 {
				// variants of the selection: no calendar-data at all, calendar-data without comp, allprop form
				v := ref
				v.CalData = nil
				bcases = append(bcases, c08BCase{Ref: v, Style: styles[n%len(styles)]})
				v2 := ref
				v2.CalData = &indep.RCalData{}
				bcases = append(bcases, c08BCase{Ref: v2, Style: styles[(n+1)%len(styles)]})
				v3 := ref
				v3.CalData, v3.PropForm = nil, "allprop"
				bcases = append(bcases, c08BCase{Ref: v3, Style: styles[(n+2)%len(styles)]})
			}
		}
		r.Extra["direction_b_cases"] = len(bcases)
		// two-request histories on one handler, run BEFORE the parallel part and sequentially, so that
		// state a request might leave behind in the process is observed deterministically
		{
			docs := c08SeqDocs()
			sh := r.Shard()
			for i, d1 := range docs {
				for j, d2 := range docs {
					sh.Transition()
					sh.Transition()
					clause, detail := c08JudgeSeq(d1, d2)
					sh.Clause("history: the second of two reports on one handler is unaffected by the first")
					sh.Outcome("seq/" + clause)
					sh.Nontrivial(fmt.Sprintf("SEQ/%d/%d", i, j))
					if clause != "" {
						sh.Violate(engine.Violation{Sig: "C08/server/" + clause + "/" + d1.Root + "-then-" + d2.Root, Clause: clause, Index: int64(1)<<40 + int64(i*100+j), Kind: "C08-seq",
							Case: map[string]interface{}{"First": d1, "Second": d2}, Expected: "second request decoded independently of the first", Observed: detail})
					}
				}
			}
			r.Merge(sh)
			r.Extra["two_request_histories"] = len(docs) * len(docs)
		}
		base := int64(len(acases))
		r.Parallel(len(bcases), func(i int, s *engine.Shard) {
			c := bcases[i]
			s.Transition()
			clause, detail := c08JudgeB(c)
			s.Clause("B: backend receives the request the document denotes")
			s.Outcome("B/" + c.Ref.Root + "/" + clause)
			s.Nontrivial(fmt.Sprintf("B/%d", i))
			if i%5003 == 50 {
				s.Sample(map[string]interface{}{"direction": "B", "document": string(indep.Render(indep.CalReportEl(&c.Ref, c.ExplicitNo), c.Style))})
			}
			if clause != "" {
				cls := c.Ref.Root
				if strings.Contains(detail, "; document denotes ") {
					parts := strings.SplitN(detail, "; document denotes ", 2)
					cls += ".differs-in=" + c08Diff(strings.TrimPrefix(parts[0], "backend got "), parts[1])
				} else {
					cls += "." + c.Style.String()
				}
				s.Violate(engine.Violation{Sig: "C08/server/" + clause + "/" + cls, Clause: clause, Index: base + int64(i), Kind: "C08-B", Case: c, Expected: "backend receives what the RFC-conformant document denotes", Observed: detail})
			}
		})
	})
	registerReplay("C08-seq", func(raw json.RawMessage) (bool, string) {
		var c struct {
			First, Second indep.RCalReport
		}
		if err := json.Unmarshal(raw, &c); err != nil {
			return false, err.Error()
		}
		clause, detail := c08JudgeSeq(c.First, c.Second)
		return clause == "", clause + " " + detail
	})
	registerReplay("C08-A", func(raw json.RawMessage) (bool, string) {
		var c c08ACase
		if err := json.Unmarshal(raw, &c); err != nil {
			return false, err.Error()
		}
		clause, detail := c08JudgeA(c)
		return clause == "", clause + " " + detail
	})
	registerReplay("C08-B", func(raw json.RawMessage) (bool, string) {
		var c c08BCase
		if err := json.Unmarshal(raw, &c); err != nil {
			return false, err.Error()
		}
		clause, detail := c08JudgeB(c)
		return clause == "", clause + " " + detail
	})
}

func c08Conformant(r indep.RCalReport) bool {
	ok := true
	var walk func(f indep.RCompFilter)
	walk = func(f indep.RCompFilter) {
		if f.IsNotDefined && (f.Range != nil || len(f.Props) > 0 || len(f.Comps) > 0) {
			ok = false
		}
		for _, p := range f.Props {
			if p.IsNotDefined && (p.Range != nil || len(p.TextMatches) > 0 || len(p.Params) > 0) {
				ok = false
			}
			if p.Range != nil && len(p.TextMatches) > 0 {
				ok = false
			}
			for _, pa := range p.Params {
				if pa.IsNotDefined && pa.TextMatch != nil {
					ok = false
				}
			}
		}
		for _, c := range f.Comps {
			walk(c)
		}
	}
	if r.Filter != nil {
		walk(*r.Filter)
	}
	return ok
}
