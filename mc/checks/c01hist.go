package checks

import (
	"fmt"
	"os"
	"sort"
	"strings"

	webdav "github.com/emersion/go-webdav"
	"github.com/emersion/go-webdav/verifmc/engine"
	"github.com/emersion/go-webdav/verifmc/harness"
	"github.com/emersion/go-webdav/verifmc/indep"
)

// C01 histories: breadth-first search from the EMPTY served directory through REAL transitions.
// A state is the request history reaching it (live directories are not cloned: a successor is
// produced by replaying the shortest history on a fresh directory plus one request). Canonical
// trees are hashed to deduplicate. Every step of every replay is compared with the reference
// model, and every newly reached state is compared with a *materialised* instance of the same
// canonical tree on a probe set (differential oracle without hand-written expectations).

func c01Mutators(contents []string) []harness.Req {
	var out []harness.Req
	paths, _ := fsPaths(2, false)
	for _, p := range paths {
		if p == "/" {
			continue
		}
		for _, c := range contents {
			out = append(out, harness.Req{Method: "PUT", Path: p, Body: c})
		}
		out = append(out, harness.Req{Method: "MKCOL", Path: p}, harness.Req{Method: "DELETE", Path: p})
		for _, q := range paths {
			if q == "/" {
				continue
			}
			out = append(out, harness.Req{Method: "MOVE", Path: p, Header: map[string]string{"Destination": q}})
			out = append(out, harness.Req{Method: "COPY", Path: p, Header: map[string]string{"Destination": q}})
			out = append(out, harness.Req{Method: "COPY", Path: p, Header: map[string]string{"Destination": q, "Depth": "0", "Overwrite": "T"}})
		}
	}
	return out
}

// probe returns a fingerprint of what the server reports for the whole tree, modulo tags and dates.
func c01Probe(h *webdav.Handler, t harness.Tree) string {
	var sb strings.Builder
	pf := harness.Serve(h, harness.Req{Method: "PROPFIND", Path: "/", Header: map[string]string{"Depth": "infinity"}})
	fmt.Fprintf(&sb, "PROPFIND %d\n", pf.Status)
	if ms, err := indep.ReadMultiStatus(pf.Body); err != nil {
		fmt.Fprintf(&sb, "unreadable: %v\n", err)
	} else {
		// property order inside a response follows Go map iteration: compare as sorted sets
		var lines []string
		for _, r := range ms.Responses {
			var props []string
			for _, p := range r.Props {
				if p.Node.Local == "getetag" || p.Node.Local == "getlastmodified" {
					props = append(props, fmt.Sprintf("%s/%d", p.Node.Local, p.Status))
					continue
				}
				props = append(props, fmt.Sprintf("%s/%d/%s", p.Node.Local, p.Status, p.Node.Canon()))
			}
			sort.Strings(props)
			lines = append(lines, fmt.Sprintf("%v status=%d %v", r.Hrefs, r.Status, props))
		}
		sort.Strings(lines)
		sb.WriteString(strings.Join(lines, "\n") + "\n")
	}
	var files []string
	for p, n := range t {
		if !n.Dir {
			files = append(files, p)
		}
	}
	sort.Strings(files)
	for _, p := range files {
		g := harness.Serve(h, harness.Req{Method: "GET", Path: p})
		fmt.Fprintf(&sb, "GET %s %d %q %s %s\n", p, g.Status, g.Body, g.Header.Get("Content-Length"), g.Header.Get("Content-Type"))
		o := harness.Serve(h, harness.Req{Method: "OPTIONS", Path: p})
		fmt.Fprintf(&sb, "OPTIONS %s %d %v\n", p, o.Status, sortedKeys(commaSet(o.Header.Values("Allow"))))
	}
	return sb.String()
}

func inUniverse(t harness.Tree) bool {
	for p := range t {
		if strings.Count(p, "/") > 2 {
			return false
		}
	}
	return true
}

type c01HistCase struct {
	History []harness.Req `json:"history"`
}

// c01ReplayHistory runs a history on a fresh empty directory, checking every step against the model.
// It returns the final canonical tree, the worker (still holding the instance) and a violation.
func c01ReplayHistory(hist []harness.Req) (tree harness.Tree, root string, h *webdav.Handler, clause, detail string, failStep int) {
	root = harness.NewDir("hist-")
	h = &webdav.Handler{FileSystem: webdav.LocalFileSystem(root)}
	tree = harness.Tree{"/": {Dir: true}}
	for i, q := range hist {
		e := davModel(tree, q, func(string) string { return "" })
		resp := harness.Serve(h, q)
		after, _ := harness.Snapshot(root)
		if resp.Panic != "" {
			return after, root, h, "history-panic", resp.Panic, i
		}
		if !e.accepts(resp.Status) {
			return after, root, h, "history-status", fmt.Sprintf("step %d %s: got %d want %s", i, q.String(), resp.Status, e.want()), i
		}
		if after.Canon() != e.Next.Canon() {
			return after, root, h, "history-tree", fmt.Sprintf("step %d %s: tree %s model %s", i, q.String(), after.Canon(), e.Next.Canon()), i
		}
		tree = after
	}
	return tree, root, h, "", "", -1
}

func c01Histories(r *engine.Run, quick bool) {
	contents := []string{"x", "yy"}
	if quick {
		contents = []string{"x"}
	}
	muts := c01Mutators(contents)
	type node struct {
		hist []harness.Req
		tree harness.Tree
	}
	start := node{nil, harness.Tree{"/": {Dir: true}}}
	seen := map[string]bool{start.tree.Canon(): true}
	frontier := []node{start}
	depth := 0
	totalStates, outside := 1, 0
	for len(frontier) > 0 {
		type succ struct {
			n     node
			canon string
		}
		results := make([][]succ, len(frontier))
		fr := frontier
		r.Parallel(len(fr), func(i int, s *engine.Shard) {
			cur := fr[i]
			for mi, m := range muts {
				hist := append(append([]harness.Req(nil), cur.hist...), m)
				tree, root, h, clause, detail, _ := c01ReplayHistory(hist)
				s.Transition()
				s.Add("history requests replayed", int64(len(hist)))
				s.Clause("history: every step of a real request sequence from the empty directory agrees with the model")
				if clause != "" {
					s.Violate(engine.Violation{Sig: "C01/" + clause + "/" + m.Method + ".after-history-of-" + fmt.Sprint(min(len(cur.hist), 3)), Clause: clause, Index: 1<<50 + int64(depth)<<40 + int64(i)<<16 + int64(mi), Kind: "C01-history",
						Case: c01HistCase{hist}, Expected: "model", Observed: detail})
					os.RemoveAll(root)
					continue
				}
				canon := tree.Canon()
				if canon != cur.tree.Canon() {
					s.Nontrivial(cur.tree.Canon() + "|" + m.String())
					// differential: the instance reached by history vs a materialised instance of the same tree
					mroot := harness.NewDir("mat-")
					harness.Materialise(mroot, tree)
					a := c01Probe(h, tree)
					b := c01Probe(&webdav.Handler{FileSystem: webdav.LocalFileSystem(mroot)}, tree)
					os.RemoveAll(mroot)
					s.Clause("differential: history-reached instance and materialised instance report the same")
					if a != b {
						s.Violate(engine.Violation{Sig: "C01/history-vs-materialised/" + m.Method, Clause: "history-vs-materialised", Index: 1<<50 + int64(depth)<<40 + int64(i)<<16 + int64(mi), Kind: "C01-history",
							Case: c01HistCase{hist}, Expected: "materialised: " + firstDiff(b, a), Observed: "history: " + firstDiff(a, b)})
					}
					results[i] = append(results[i], succ{node{hist, tree}, canon})
				}
				os.RemoveAll(root)
			}
		})
		var next []node
		for _, l := range results {
			for _, sc := range l {
				if seen[sc.canon] {
					continue
				}
				seen[sc.canon] = true
				totalStates++
				if inUniverse(sc.n.tree) {
					next = append(next, sc.n)
				} else {
					outside++
				}
			}
		}
		frontier = next
		depth++
	}
	sh := r.Shard()
	for i := 0; i < totalStates; i++ {
		sh.State()
	}
	r.Merge(sh)
	r.Extra["history_bfs_reachable_states"] = totalStates
	r.Extra["history_bfs_states_outside_universe_checked_not_expanded"] = outside
	r.Extra["history_bfs_depth"] = depth
	r.Extra["history_bfs_mutating_requests"] = len(muts)
}

// firstDiff shows a around the first position where it differs from b.
func firstDiff(a, b string) string {
	i := 0
	for i < len(a) && i < len(b) && a[i] == b[i] {
		i++
	}
	lo := i - 120
	if lo < 0 {
		lo = 0
	}
	hi := i + 120
	if hi > len(a) {
		hi = len(a)
	}
	return fmt.Sprintf("@%d …%s…", i, a[lo:hi])
}
