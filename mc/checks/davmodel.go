package checks

import (
	"fmt"
	"net/http"
	"net/url"
	"path"
	"sort"
	"strings"

	"github.com/emersion/go-webdav/verifmc/harness"
)

// Reference model of an RFC 4918 resource tree, written from the property statement
// (C01) and the conditional-header truth table (C04). It never looks at go-webdav code.

type davExpect struct {
	Codes   map[int]bool // acceptable status codes
	Any4xx  bool         // any 4xx is acceptable (statement leaves the code open)
	Refused bool         // at least one refusal applies: tree must be unchanged
	Next    harness.Tree // expected tree afterwards
	Class   string       // abstract input class (signature component)
	Reads   string       // "get" | "head" | "options" | "propfind" | ""
	Reasons []string
	// PROPFIND expectations
	Scope []string
	Form  string // allprop | propname | prop
}

func (e *davExpect) refuse(code int, why string) {
	e.Refused = true
	if code == 0 {
		e.Any4xx = true
	} else {
		e.Codes[code] = true
	}
	e.Reasons = append(e.Reasons, why)
}

func (e *davExpect) accepts(status int) bool {
	if e.Codes[status] {
		return true
	}
	return e.Any4xx && status >= 400 && status < 500
}

func (e *davExpect) want() string {
	var l []string
	for c := range e.Codes {
		l = append(l, fmt.Sprint(c))
	}
	sort.Strings(l)
	if e.Any4xx {
		l = append(l, "4xx")
	}
	return strings.Join(l, "|")
}

func cleanP(p string) string {
	if !strings.HasPrefix(p, "/") {
		p = "/" + p
	}
	return path.Clean(p)
}

func kindOf(t harness.Tree, p string) string {
	n, ok := t[p]
	if !ok {
		return "unmapped"
	}
	if !n.Dir {
		return "file"
	}
	for k := range t {
		if k != p && strings.HasPrefix(k, strings.TrimSuffix(p, "/")+"/") {
			return "collection"
		}
	}
	return "empty-collection"
}

func parentKind(t harness.Tree, p string) string {
	if p == "/" {
		return "none"
	}
	// walk up: the nearest existing ancestor decides
	par := path.Dir(p)
	n, ok := t[par]
	if ok {
		if n.Dir {
			return "collection"
		}
		return "file"
	}
	for par != "/" {
		par = path.Dir(par)
		if n, ok := t[par]; ok {
			if !n.Dir {
				return "below-file"
			}
			return "unmapped"
		}
	}
	return "unmapped"
}

func underOrEq(p, anc string) bool {
	if anc == "/" {
		return true
	}
	return p == anc || strings.HasPrefix(p, anc+"/")
}

func subtree(t harness.Tree, p string) []string {
	var l []string
	for k := range t {
		if underOrEq(k, p) {
			l = append(l, k)
		}
	}
	sort.Strings(l)
	return l
}

func depthClass(h string, present bool) string {
	if !present {
		return "absent"
	}
	switch h {
	case "0", "1", "infinity":
		return h
	}
	return "invalid"
}

// condState evaluates If-Match / If-None-Match per the C04 truth table.
// tag is the target's current entity tag ("" if unknown, e.g. collections), exists whether mapped.
// Returns refusal codes to add.
func condRefusals(e *davExpect, hdr map[string]string, exists bool, tag string) string {
	classify := func(v string) string {
		switch {
		case v == "":
			return "unset"
		case v == "*":
			return "*"
		case len(v) >= 2 && v[0] == '"' && v[len(v)-1] == '"' && !strings.Contains(v[1:len(v)-1], `"`):
			if tag != "" && v == `"`+tag+`"` {
				return "current"
			}
			return "other"
		}
		return "malformed"
	}
	im, inm := classify(hdr["If-Match"]), classify(hdr["If-None-Match"])
	if im != "unset" {
		switch {
		case !exists:
			e.refuse(412, "If-Match on an unmapped resource")
		case im == "*" || im == "current":
		case im == "malformed":
			e.refuse(400, "If-Match is not a quoted string")
		default:
			e.refuse(412, "If-Match tag differs")
		}
	}
	if inm != "unset" && exists {
		switch inm {
		case "*", "current":
			e.refuse(412, "If-None-Match matches")
		case "malformed":
			e.refuse(400, "If-None-Match is not a quoted string")
		}
	}
	return "if-match=" + im + ".if-none-match=" + inm
}

// davModel computes the expectation for one request in one state.
// tagOf returns the current entity tag of a mapped file ("" when unknown).
func davModel(t harness.Tree, q harness.Req, tagOf func(string) string) *davExpect {
	e := &davExpect{Codes: map[int]bool{}, Next: t}
	p := cleanP(q.Path)
	k := kindOf(t, p)
	pk := parentKind(t, p)
	hdr := q.Header
	if hdr == nil {
		hdr = map[string]string{}
	}
	condClass := ""
	if hdr["If-Match"] != "" || hdr["If-None-Match"] != "" {
		condClass = "."
	}
	ok := func(codes ...int) {
		if !e.Refused {
			for _, c := range codes {
				e.Codes[c] = true
			}
		}
	}
	switch q.Method {
	case "OPTIONS":
		e.Class = "OPTIONS.target=" + k
		e.Reads = "options"
		ok(200, 204)
	case "GET", "HEAD":
		e.Class = q.Method + ".target=" + k
		switch k {
		case "unmapped":
			e.refuse(404, "target unmapped")
		case "file":
			e.Reads = strings.ToLower(q.Method)
		default:
			e.refuse(405, q.Method+" on a collection")
		}
		if k == "file" && (hdr["Range"] != "" || hdr["If-None-Match"] != "" || hdr["If-Modified-Since"] != "") {
			// conditional and range reads: which of 200/206/304/416 applies is net/http's business; what is
			// judged is that HEAD and GET agree
			e.Reads = "cond-read"
			e.Class += ".conditional-or-range"
			ok(206, 304, 416)
		}
		ok(200)
	case "PUT":
		e.Class = "PUT.target=" + k + ".parent=" + pk
		switch {
		case k == "collection" || k == "empty-collection":
			e.refuse(405, "PUT on a collection")
		case k == "unmapped" && pk == "unmapped":
			e.refuse(409, "parent collection missing")
		case k == "unmapped" && (pk == "file" || pk == "below-file"):
			e.refuse(0, "parent is not a collection")
		}
		if condClass != "" {
			e.Class += "." + condRefusals(e, hdr, k != "unmapped", tagOf(p))
		}
		if !e.Refused {
			nt := t.Clone()
			nt[p] = harness.Node{Content: q.Body}
			e.Next = nt
			if k == "unmapped" {
				ok(201)
			} else {
				ok(200, 204)
			}
		}
	case "DELETE":
		e.Class = "DELETE.target=" + k
		if k == "unmapped" {
			e.refuse(404, "target unmapped")
		}
		if p == "/" {
			e.Class = "DELETE.target=root"
			e.refuse(0, "the served directory itself cannot be deleted through the protocol")
		}
		if condClass != "" {
			e.Class += "." + condRefusals(e, hdr, k != "unmapped", tagOf(p))
		}
		if !e.Refused {
			nt := t.Clone()
			for _, s := range subtree(t, p) {
				delete(nt, s)
			}
			e.Next = nt
			ok(200, 204)
		}
	case "MKCOL":
		body := hdr["Content-Type"] != "" || q.Body != ""
		e.Class = fmt.Sprintf("MKCOL.target=%s.parent=%s.body=%v", k, pk, body)
		if hdr["Content-Type"] == "" && q.Body != "" {
			e.Class += ".untyped"
		}
		if body {
			e.refuse(415, "MKCOL announcing a body")
		}
		switch {
		case k != "unmapped":
			e.refuse(405, "MKCOL on a mapped URL")
		case pk == "unmapped":
			e.refuse(409, "parent collection missing")
		case pk == "file" || pk == "below-file":
			e.refuse(0, "parent is not a collection")
		}
		if !e.Refused {
			nt := t.Clone()
			nt[p] = harness.Node{Dir: true}
			e.Next = nt
			ok(201)
		}
	case "PROPFIND":
		d, dPresent := hdr["Depth"]
		dc := depthClass(d, dPresent)
		form := "allprop"
		switch {
		case q.Body == "":
		case strings.Contains(q.Body, "allprop"):
		case strings.Contains(q.Body, "propname"):
			form = "propname"
		case strings.Contains(q.Body, "<D:prop>") || strings.Contains(q.Body, ":prop "):
			form = "prop"
		default:
			form = "none-of-three"
		}
		e.Class = fmt.Sprintf("PROPFIND.target=%s.depth=%s.form=%s", k, dc, form)
		e.Form = form
		if dc == "invalid" {
			e.refuse(400, "invalid Depth")
		}
		if k == "unmapped" {
			e.refuse(404, "target unmapped")
		}
		if form == "none-of-three" {
			e.refuse(400, "propfind without prop/allprop/propname")
		}
		if !e.Refused {
			e.Reads = "propfind"
			e.Scope = []string{p}
			if t[p].Dir && dc != "0" {
				for _, s := range subtree(t, p) {
					if s == p {
						continue
					}
					if dc == "1" && path.Dir(s) != p {
						continue
					}
					e.Scope = append(e.Scope, s)
				}
			}
			ok(207)
		}
	case "COPY", "MOVE":
		davCopyMove(e, t, q, p, k, hdr)
	case "PROPPATCH":
		e.Class = "PROPPATCH"
		e.refuse(0, "PROPPATCH is refused by design")
	default:
		e.Class = "unknown-method"
		e.refuse(405, "unknown method")
	}
	return e
}

func davCopyMove(e *davExpect, t harness.Tree, q harness.Req, p, k string, hdr map[string]string) {
	d, dPresent := hdr["Depth"]
	dc := depthClass(d, dPresent)
	ow, owPresent := hdr["Overwrite"]
	owc := "absent"
	if owPresent {
		owc = ow
		if ow != "T" && ow != "F" {
			owc = "invalid"
		}
	}
	dest, destPresent := hdr["Destination"]
	destClass := "ok"
	var dp string
	if !destPresent || dest == "" {
		destClass = "missing"
	} else if u, err := url.Parse(dest); err != nil {
		destClass = "unparsable"
	} else if !strings.HasPrefix(u.Path, "/") {
		destClass = "not-absolute"
	} else {
		dp = cleanP(u.Path)
	}
	if destClass != "ok" {
		e.Class = fmt.Sprintf("%s.destination=%s", q.Method, destClass)
		e.refuse(400, "Destination "+destClass)
		// other refusals may also apply; the statement allows any of their codes
	}
	if owc == "invalid" {
		e.refuse(400, "invalid Overwrite")
	}
	depthBad := dc == "invalid" || (q.Method == "COPY" && dc == "1") || (q.Method == "MOVE" && (dc == "0" || dc == "1"))
	if depthBad {
		e.refuse(400, "invalid or unsupported Depth")
	}
	if k == "unmapped" {
		e.refuse(404, "source unmapped")
	}
	if destClass != "ok" {
		if e.Class == "" {
			e.Class = q.Method
		}
		e.Class += fmt.Sprintf(".src=%s.depth=%s.ow=%s", k, dc, owc)
		return
	}
	dk := kindOf(t, dp)
	dpk := parentKind(t, dp)
	rel := "disjoint"
	switch {
	case dp == p:
		rel = "same"
	case underOrEq(dp, p):
		rel = "dst-inside-src"
	case underOrEq(p, dp):
		rel = "src-inside-dst"
	}
	e.Class = fmt.Sprintf("%s.src=%s.dst=%s.rel=%s.dstparent=%s.depth=%s.ow=%s", q.Method, k, dk, rel, dpk, dc, owc)
	switch rel {
	case "same":
		e.refuse(403, "source and destination coincide")
	case "dst-inside-src", "src-inside-dst":
		e.refuse(0, "one of source/destination contains the other")
	}
	if dk == "unmapped" {
		switch dpk {
		case "unmapped":
			e.refuse(409, "destination parent missing")
		case "file", "below-file":
			e.refuse(0, "destination parent is not a collection")
		}
	} else if owc == "F" {
		e.refuse(412, "Overwrite F and destination mapped")
	}
	if e.Refused {
		return
	}
	nt := t.Clone()
	for _, s := range subtree(t, dp) {
		delete(nt, s)
	}
	shallow := q.Method == "COPY" && dc == "0"
	for _, s := range subtree(t, p) {
		if shallow && s != p {
			continue
		}
		nt[dp+strings.TrimPrefix(s, p)] = t[s]
	}
	if q.Method == "MOVE" {
		for _, s := range subtree(t, p) {
			delete(nt, s)
		}
	}
	e.Next = nt
	if dk == "unmapped" {
		e.Codes[http.StatusCreated] = true
	} else {
		e.Codes[http.StatusNoContent] = true
	}
}
