package checks

import (
	"encoding/json"
	"fmt"
	"mime"
	"net/http"
	"strings"
	"time"

	"github.com/emersion/go-ical"
	"github.com/emersion/go-vcard"
	webdav "github.com/emersion/go-webdav"
	"github.com/emersion/go-webdav/caldav"
	"github.com/emersion/go-webdav/verifmc/engine"
	"github.com/emersion/go-webdav/verifmc/harness"
	"github.com/emersion/go-webdav/verifmc/indep"
)

// C13 — servers never panic; malformed input gets 4xx and never reaches a mutating backend call.

type c13Seed struct {
	Handler  string      `json:"handler"` // webdav | caldav | carddav | principal
	Req      harness.Req `json:"request"`
	BodyKind string      `json:"body_kind,omitempty"` // xml | ical | vcard
	// which headers the method reads
	Depth, Overwrite, Dest bool
	NeedsXML               bool // an empty / non-XML body is malformed for this method
}

type c13Mutant struct {
	Handler string      `json:"handler"`
	Op      string      `json:"operator"`
	Tag     string      `json:"malformation,omitempty"` // "" = not (provably) malformed: only no-panic is judged
	Req     harness.Req `json:"request"`
}

func c13Handler(name string) (http.Handler, func() []harness.Call) {
	l := c12LayoutFor("")
	switch name {
	case "webdav":
		fs, _ := c11MemFS()
		return &webdav.Handler{FileSystem: fs}, fs.Snapshot
	case "caldav":
		h, snap := c12Backends("caldav", l)
		return h, snap
	case "carddav":
		h, snap := c12Backends("carddav", l)
		return h, snap
	}
	return http.HandlerFunc(func(w http.ResponseWriter, r *http.Request) {
		webdav.ServePrincipal(w, r, &webdav.ServePrincipalOptions{CurrentUserPrincipalPath: "/u/", HomeSets: []webdav.BackendSuppliedHomeSet{caldav.NewCalendarHomeSet("/u/c/")}})
	}), func() []harness.Call { return nil }
}

func memfsMutating(c harness.Call) bool {
	switch c.Method {
	case "Create", "RemoveAll", "Mkdir", "Copy", "Move":
		return true
	}
	return c.Mutating()
}

const c13CalQuery = `<?xml version="1.0" encoding="utf-8"?>
<C:calendar-query xmlns:D="DAV:" xmlns:C="urn:ietf:params:xml:ns:caldav">
<D:prop><D:getetag/><C:calendar-data><C:comp name="VCALENDAR"><C:prop name="VERSION"/><C:comp name="VEVENT"><C:prop name="SUMMARY"/></C:comp></C:comp><C:expand start="20200101T000000Z" end="20200201T000000Z"/></C:calendar-data></D:prop>
<C:filter><C:comp-filter name="VCALENDAR"><C:comp-filter name="VEVENT"><C:time-range start="20200101T000000Z" end="20200201T000000Z"/><C:prop-filter name="SUMMARY"><C:text-match negate-condition="yes">x</C:text-match><C:param-filter name="LANGUAGE"><C:text-match>en</C:text-match></C:param-filter></C:prop-filter><C:prop-filter name="ATTENDEE"><C:is-not-defined/></C:prop-filter></C:comp-filter></C:comp-filter></C:filter>
</C:calendar-query>`

const c13CalMultiget = `<?xml version="1.0" encoding="utf-8"?>
<C:calendar-multiget xmlns:D="DAV:" xmlns:C="urn:ietf:params:xml:ns:caldav"><D:prop><D:getetag/><C:calendar-data><C:comp name="VCALENDAR"><C:allprop/><C:allcomp/></C:comp><C:expand start="20200101T000000Z" end="20200201T000000Z"/></C:calendar-data></D:prop><D:href>/u/c/k1/o1.ics</D:href><D:href>/u/c/k1/missing.ics</D:href></C:calendar-multiget>`

const c13CardQuery = `<?xml version="1.0" encoding="utf-8"?>
<C:addressbook-query xmlns:D="DAV:" xmlns:C="urn:ietf:params:xml:ns:carddav">
<D:prop><D:getetag/><C:address-data><C:prop name="FN"/><C:prop name="EMAIL"/></C:address-data></D:prop>
<C:filter test="anyof"><C:prop-filter name="FN" test="allof"><C:text-match collation="i;unicode-casemap" match-type="starts-with" negate-condition="no">a</C:text-match><C:param-filter name="TYPE"><C:text-match match-type="equals">home</C:text-match></C:param-filter></C:prop-filter><C:prop-filter name="NICKNAME"><C:is-not-defined/></C:prop-filter></C:filter>
<C:limit><C:nresults>5</C:nresults></C:limit>
</C:addressbook-query>`

const c13CardMultiget = `<?xml version="1.0" encoding="utf-8"?>
<C:addressbook-multiget xmlns:D="DAV:" xmlns:C="urn:ietf:params:xml:ns:carddav"><D:prop><D:getetag/><C:address-data><C:allprop/></C:address-data></D:prop><D:href>/u/c/k1/o1.vcf</D:href></C:addressbook-multiget>`

const c13Proppatch = `<?xml version="1.0"?><D:propertyupdate xmlns:D="DAV:"><D:set><D:prop><D:displayname>x</D:displayname></D:prop></D:set><D:remove><D:prop><D:getetag/></D:prop></D:remove></D:propertyupdate>`

// the dependencies' own decoders are the judges of "unparseable"; a text on which a decoder panics is
// unparseable too (the go-ical decoder does, on a content line that ends inside a parameter)
func icalParses(b string) (ok bool) {
	defer func() {
		if recover() != nil {
			ok = false
		}
	}()
	_, err := ical.NewDecoder(strings.NewReader(b)).Decode()
	return err == nil
}

func vcardParses(b string) (ok bool) {
	defer func() {
		if recover() != nil {
			ok = false
		}
	}()
	_, err := vcard.NewDecoder(strings.NewReader(b)).Decode()
	return err == nil
}

// panicAt extracts the "[at function]" suffix recorded with a recovered panic, for use in a signature.
func panicAt(detail string) string {
	if i := strings.LastIndex(detail, "[at "); i >= 0 && strings.HasSuffix(detail, "]") {
		return "/at=" + detail[i+4:len(detail)-1]
	}
	return ""
}

func c13Seeds() []c13Seed {
	var out []c13Seed
	xmlH := func() map[string]string { return map[string]string{"Content-Type": "application/xml; charset=utf-8"} }
	with := func(h map[string]string, k, v string) map[string]string { h[k] = v; return h }
	// webdav
	for _, p := range []string{"/", "/d", "/d/full.txt", "/missing", "/d/"} {
		for _, m := range []string{"OPTIONS", "GET", "HEAD", "DELETE", "MKCOL", "FOO", "LOCK"} {
			// (a DELETE may carry Depth: infinity; any value that is no Depth is invalid there as anywhere)
			out = append(out, c13Seed{Handler: "webdav", Depth: m == "DELETE", Req: harness.Req{Method: m, Path: p, Header: map[string]string{}}})
		}
		out = append(out, c13Seed{Handler: "webdav", Req: harness.Req{Method: "PUT", Path: p, Body: "data"}})
		for _, b := range []string{"", pfAllprop, pfPropname, pfProp} {
			s := c13Seed{Handler: "webdav", Depth: true, Req: harness.Req{Method: "PROPFIND", Path: p, Body: b, Header: map[string]string{"Depth": "1"}}}
			if b != "" {
				s.BodyKind = "xml"
				s.Req.Header["Content-Type"] = "application/xml"
			}
			out = append(out, s)
		}
		out = append(out, c13Seed{Handler: "webdav", BodyKind: "xml", NeedsXML: true, Req: harness.Req{Method: "PROPPATCH", Path: p, Header: xmlH(), Body: c13Proppatch}})
		for _, m := range []string{"COPY", "MOVE"} {
			out = append(out, c13Seed{Handler: "webdav", Depth: true, Overwrite: true, Dest: true, Req: harness.Req{Method: m, Path: p, Header: map[string]string{"Destination": "/d/new", "Overwrite": "T", "Depth": "infinity"}}})
			// refused: the destination exists and must not be overwritten; the parent of the destination is missing
			out = append(out, c13Seed{Handler: "webdav", Req: harness.Req{Method: m, Path: p, Header: map[string]string{"Destination": "/d/bare", "Overwrite": "F"}}})
			out = append(out, c13Seed{Handler: "webdav", Req: harness.Req{Method: m, Path: p, Header: map[string]string{"Destination": "/nowhere/x"}}})
		}
	}
	// caldav / carddav
	for _, kind := range []string{"caldav", "carddav"} {
		ext, ctype, body, bk := ".ics", "text/calendar", calBody, "ical"
		query, multiget := c13CalQuery, c13CalMultiget
		if kind == "carddav" {
			ext, ctype, body, bk = ".vcf", "text/vcard", cardBody, "vcard"
			query, multiget = c13CardQuery, c13CardMultiget
		}
		// discovery entry point
		for _, m := range []string{"GET", "PROPFIND", "OPTIONS"} {
			out = append(out, c13Seed{Handler: kind, Req: harness.Req{Method: m, Path: "/.well-known/" + kind}})
		}
		paths := []string{"/", "/u/", "/u/c/", "/u/c/k1/", "/u/c/k3", "/u/c/k1/o1" + ext, "/u/c/k1/new" + ext}
		for _, p := range paths {
			for _, m := range []string{"OPTIONS", "GET", "HEAD", "DELETE", "FOO"} {
				out = append(out, c13Seed{Handler: kind, Depth: m == "DELETE", Req: harness.Req{Method: m, Path: p, Header: map[string]string{}}})
			}
			out = append(out, c13Seed{Handler: kind, BodyKind: bk, Req: harness.Req{Method: "PUT", Path: p, Body: body, Header: map[string]string{"Content-Type": ctype}}})
			out = append(out, c13Seed{Handler: kind, Req: harness.Req{Method: "MKCOL", Path: p}})
			out = append(out, c13Seed{Handler: kind, BodyKind: "xml", Req: c12Req(c12Case{Kind: kind, Method: "MKCOL", Var: "body", Path: p})})
			for _, b := range []string{"", pfAllprop, pfPropname, pfProp} {
				s := c13Seed{Handler: kind, Depth: true, Req: harness.Req{Method: "PROPFIND", Path: p, Body: b, Header: map[string]string{"Depth": "1"}}}
				if b != "" {
					s.BodyKind = "xml"
					s.Req.Header["Content-Type"] = "application/xml"
				}
				out = append(out, s)
			}
			out = append(out, c13Seed{Handler: kind, BodyKind: "xml", NeedsXML: true, Depth: true, Req: harness.Req{Method: "REPORT", Path: p, Header: with(xmlH(), "Depth", "1"), Body: query}})
			out = append(out, c13Seed{Handler: kind, BodyKind: "xml", NeedsXML: true, Depth: true, Req: harness.Req{Method: "REPORT", Path: p, Header: with(xmlH(), "Depth", "1"), Body: multiget}})
			out = append(out, c13Seed{Handler: kind, BodyKind: "xml", NeedsXML: true, Req: harness.Req{Method: "PROPPATCH", Path: p, Header: xmlH(), Body: c13Proppatch}})
			for _, m := range []string{"COPY", "MOVE"} {
				out = append(out, c13Seed{Handler: kind, Depth: true, Overwrite: true, Dest: true, Req: harness.Req{Method: m, Path: p, Header: map[string]string{"Destination": p + "x", "Overwrite": "T", "Depth": "infinity"}}})
			}
		}
	}
	// further selection shapes of calendar-data (expand without comp, empty, absent) and address-data
	for _, cd := range []string{`<C:calendar-data><C:expand start="20200101T000000Z" end="20200201T000000Z"/></C:calendar-data>`, `<C:calendar-data/>`, ``} {
		q := `<?xml version="1.0"?><C:calendar-query xmlns:D="DAV:" xmlns:C="urn:ietf:params:xml:ns:caldav"><D:prop><D:getetag/>` + cd + `</D:prop><C:filter><C:comp-filter name="VCALENDAR"/></C:filter></C:calendar-query>`
		m := `<?xml version="1.0"?><C:calendar-multiget xmlns:D="DAV:" xmlns:C="urn:ietf:params:xml:ns:caldav"><D:prop><D:getetag/>` + cd + `</D:prop><D:href>/u/c/k1/o1.ics</D:href></C:calendar-multiget>`
		for _, b := range []string{q, m} {
			out = append(out, c13Seed{Handler: "caldav", BodyKind: "xml", NeedsXML: true, Depth: true, Req: harness.Req{Method: "REPORT", Path: "/u/c/k1/", Header: with(xmlH(), "Depth", "1"), Body: b}})
		}
	}
	for _, ad := range []string{`<C:address-data><C:allprop/></C:address-data>`, `<C:address-data/>`, ``} {
		q := `<?xml version="1.0"?><C:addressbook-query xmlns:D="DAV:" xmlns:C="urn:ietf:params:xml:ns:carddav"><D:prop><D:getetag/>` + ad + `</D:prop><C:filter><C:prop-filter name="FN"/></C:filter></C:addressbook-query>`
		out = append(out, c13Seed{Handler: "carddav", BodyKind: "xml", NeedsXML: true, Depth: true, Req: harness.Req{Method: "REPORT", Path: "/u/c/k1/", Header: with(xmlH(), "Depth", "1"), Body: q}})
	}
	// the reports under the other Depth values (a Depth-dependent shortcut must not skip validation)
	for _, d := range []string{"0", "infinity"} {
		out = append(out, c13Seed{Handler: "caldav", BodyKind: "xml", NeedsXML: true, Depth: true, Req: harness.Req{Method: "REPORT", Path: "/u/c/k1/", Header: with(xmlH(), "Depth", d), Body: c13CalQuery}})
		out = append(out, c13Seed{Handler: "caldav", BodyKind: "xml", NeedsXML: true, Depth: true, Req: harness.Req{Method: "REPORT", Path: "/u/c/k1/", Header: with(xmlH(), "Depth", d), Body: c13CalMultiget}})
		out = append(out, c13Seed{Handler: "carddav", BodyKind: "xml", NeedsXML: true, Depth: true, Req: harness.Req{Method: "REPORT", Path: "/u/c/k1/", Header: with(xmlH(), "Depth", d), Body: c13CardQuery}})
		out = append(out, c13Seed{Handler: "carddav", BodyKind: "xml", NeedsXML: true, Depth: true, Req: harness.Req{Method: "REPORT", Path: "/u/c/k1/", Header: with(xmlH(), "Depth", d), Body: c13CardMultiget}})
	}
	// requests that report NO resource (an empty collection, a multiget of missing members, somebody else's
	// principal, a level below an object): validation must not hang on the first reported resource
	for _, kind := range []string{"caldav", "carddav"} {
		query, multiget, ext := c13CalQuery, c13CalMultiget, ".ics"
		if kind == "carddav" {
			query, multiget, ext = c13CardQuery, c13CardMultiget, ".vcf"
		}
		out = append(out, c13Seed{Handler: kind, BodyKind: "xml", NeedsXML: true, Depth: true, Req: harness.Req{Method: "REPORT", Path: "/u/c/k2", Header: with(xmlH(), "Depth", "1"), Body: query}})
		out = append(out, c13Seed{Handler: kind, BodyKind: "xml", NeedsXML: true, Depth: true, Req: harness.Req{Method: "REPORT", Path: "/u/c/k2", Header: with(xmlH(), "Depth", "1"), Body: strings.ReplaceAll(multiget, "/u/c/k1/o1"+ext, "/u/c/k2/nothing-here"+ext)}})
		for _, p := range []string{"/v/", "/u/c/k1/o1" + ext + "/x/y"} {
			for _, b := range []string{pfAllprop, pfProp} {
				out = append(out, c13Seed{Handler: kind, Depth: true, BodyKind: "xml", Req: harness.Req{Method: "PROPFIND", Path: p, Body: b, Header: map[string]string{"Depth": "0", "Content-Type": "application/xml"}}})
			}
		}
	}
	// a multiget that names no resource at all
	out = append(out, c13Seed{Handler: "caldav", BodyKind: "xml", NeedsXML: true, Depth: true, Req: harness.Req{Method: "REPORT", Path: "/u/c/k1/", Header: with(xmlH(), "Depth", "1"),
		Body: `<?xml version="1.0"?><C:calendar-multiget xmlns:D="DAV:" xmlns:C="urn:ietf:params:xml:ns:caldav"><D:prop><D:getetag/><C:calendar-data><C:comp name="VCALENDAR"><C:allprop/><C:allcomp/></C:comp></C:calendar-data></D:prop></C:calendar-multiget>`}})
	out = append(out, c13Seed{Handler: "carddav", BodyKind: "xml", NeedsXML: true, Depth: true, Req: harness.Req{Method: "REPORT", Path: "/u/c/k1/", Header: with(xmlH(), "Depth", "1"),
		Body: `<?xml version="1.0"?><C:addressbook-multiget xmlns:D="DAV:" xmlns:C="urn:ietf:params:xml:ns:carddav"><D:prop><D:getetag/><C:address-data><C:prop name="FN"/></C:address-data></D:prop></C:addressbook-multiget>`}})
	// a query that asks for no results at all (valid; the filter must still be a filter)
	out = append(out, c13Seed{Handler: "carddav", BodyKind: "xml", NeedsXML: true, Depth: true, Req: harness.Req{Method: "REPORT", Path: "/u/c/k1/", Header: with(xmlH(), "Depth", "1"),
		Body: strings.Replace(c13CardQuery, "<C:nresults>5</C:nresults>", "<C:nresults>0</C:nresults>", 1)}})
	// principal helper
	for _, m := range []string{"OPTIONS", "GET", "DELETE", "FOO", "REPORT"} {
		out = append(out, c13Seed{Handler: "principal", Req: harness.Req{Method: m, Path: "/u/"}})
	}
	for _, b := range []string{"", pfAllprop, pfPropname, pfProp} {
		s := c13Seed{Handler: "principal", Depth: true, Req: harness.Req{Method: "PROPFIND", Path: "/u/", Body: b, Header: map[string]string{"Depth": "0"}}}
		if b != "" {
			s.BodyKind = "xml"
			s.Req.Header["Content-Type"] = "application/xml"
		}
		out = append(out, s)
	}
	return out
}

func cloneReq(q harness.Req) harness.Req {
	n := q
	n.Header = map[string]string{}
	for k, v := range q.Header {
		n.Header[k] = v
	}
	return n
}

// ---- XML tree serialisation for structural mutation ----

func xmlSerialize(n *indep.Node) string {
	ns := map[string]string{}
	var collect func(n *indep.Node)
	collect = func(n *indep.Node) {
		if _, ok := ns[n.Space]; !ok && n.Space != "" {
			ns[n.Space] = fmt.Sprintf("n%d", len(ns))
		}
		for _, c := range n.Children {
			collect(c)
		}
	}
	collect(n)
	var sb strings.Builder
	var write func(n *indep.Node, root bool)
	write = func(n *indep.Node, root bool) {
		name := n.Local
		if n.Space != "" {
			name = ns[n.Space] + ":" + n.Local
		}
		sb.WriteString("<" + name)
		if root {
			for sp, pf := range ns {
				fmt.Fprintf(&sb, ` xmlns:%s="%s"`, pf, sp)
			}
		}
		for _, a := range n.Attrs {
			if a.Space == indep.XMLNS {
				fmt.Fprintf(&sb, ` xml:%s="%s"`, a.Local, xmlEsc(a.Value))
			} else {
				fmt.Fprintf(&sb, ` %s="%s"`, a.Local, xmlEsc(a.Value))
			}
		}
		sb.WriteString(">")
		if len(n.Children) == 0 {
			sb.WriteString(xmlEsc(n.Text))
		}
		for _, c := range n.Children {
			write(c, false)
		}
		sb.WriteString("</" + name + ">")
	}
	write(n, true)
	return `<?xml version="1.0" encoding="utf-8"?>` + sb.String()
}

func xmlEsc(s string) string {
	return strings.NewReplacer("&", "&amp;", "<", "&lt;", ">", "&gt;", `"`, "&quot;").Replace(s)
}

func cloneTree(n *indep.Node) *indep.Node {
	m := *n
	m.Attrs = append([]indep.Attr(nil), n.Attrs...)
	m.Children = nil
	for _, c := range n.Children {
		m.Children = append(m.Children, cloneTree(c))
	}
	return &m
}

// visit every node with a path of child indexes
func walkTree(n *indep.Node, path []int, f func(n *indep.Node, path []int)) {
	f(n, path)
	for i, c := range n.Children {
		walkTree(c, append(append([]int(nil), path...), i), f)
	}
}

func nodeAt(root *indep.Node, path []int) (*indep.Node, *indep.Node, int) {
	var parent *indep.Node
	idx := -1
	n := root
	for _, i := range path {
		parent, idx = n, i
		n = n.Children[i]
	}
	return n, parent, idx
}

var c13DateAttrs = map[string]bool{"time-range/start": true, "time-range/end": true, "expand/start": true, "expand/end": true}
var c13EnumAttrs = map[string]bool{"filter/test": true, "prop-filter/test": true, "text-match/match-type": true, "text-match/negate-condition": true}

func c13Mutants(seeds []c13Seed, pairs bool) []c13Mutant {
	var out []c13Mutant
	add := func(s c13Seed, op, tag string, q harness.Req) {
		out = append(out, c13Mutant{Handler: s.Handler, Op: op, Tag: tag, Req: q})
	}
	for _, s := range seeds {
		add(s, "seed", "", s.Req)
		body := s.Req.Body
		// M1 / M7 truncation at every offset
		if s.BodyKind != "" {
			for k := 0; k < len(body); k++ {
				q := cloneReq(s.Req)
				q.Body = body[:k]
				tag := ""
				switch s.BodyKind {
				case "xml":
					if k == 0 {
						if s.NeedsXML {
							tag = "empty-xml"
						}
					} else if _, err := indep.Parse([]byte(q.Body)); err != nil {
						tag = "unparseable-xml"
					}
				case "ical":
					if !icalParses(q.Body) {
						tag = "unparseable-icalendar"
					}
				case "vcard":
					if !vcardParses(q.Body) {
						tag = "unparseable-vcard"
					}
				}
				add(s, "M1-truncate", tag, q)
			}
		}
		// M2 tiny bodies
		if s.BodyKind == "xml" {
			alpha := []string{"<", ">", "a", "&", "\x00", "\xff"}
			var tiny []string
			for _, a := range alpha {
				tiny = append(tiny, a)
				for _, b := range alpha {
					tiny = append(tiny, a+b)
				}
			}
			for _, t := range tiny {
				q := cloneReq(s.Req)
				q.Body = t
				add(s, "M2-tiny-body", "unparseable-xml", q)
			}
		}
		// structural XML mutation
		if s.BodyKind == "xml" {
			root, err := indep.Parse([]byte(body))
			if err != nil {
				panic("seed body not well-formed: " + err.Error())
			}
			// M3 wrong root
			for _, alt := range [][2]string{{root.Space, "bogus-root"}, {"urn:other", root.Local}, {"", root.Local}, {indep.DAV, "multistatus"}} {
				t := cloneTree(root)
				t.Space, t.Local = alt[0], alt[1]
				q := cloneReq(s.Req)
				q.Body = xmlSerialize(t)
				add(s, "M3-wrong-root", "wrongly-rooted-xml", q)
			}
			var paths [][]int
			walkTree(root, nil, func(n *indep.Node, p []int) { paths = append(paths, p) })
			for _, p := range paths {
				if len(p) == 0 {
					continue
				}
				// M4 delete / duplicate / rename / namespace swap (untagged: RFC 4918 says to ignore unknown elements)
				for _, op := range []string{"delete", "duplicate", "rename", "ns-dav", "ns-caldav", "ns-carddav", "ns-none"} {
					t := cloneTree(root)
					n, parent, idx := nodeAt(t, p)
					switch op {
					case "delete":
						parent.Children = append(parent.Children[:idx:idx], parent.Children[idx+1:]...)
					case "duplicate":
						parent.Children = append(parent.Children[:idx+1:idx+1], append([]*indep.Node{cloneTree(n)}, parent.Children[idx+1:]...)...)
					case "rename":
						n.Local = "renamed-" + n.Local
					case "ns-dav":
						n.Space = indep.DAV
					case "ns-caldav":
						n.Space = nsCal
					case "ns-carddav":
						n.Space = nsCard
					case "ns-none":
						n.Space = ""
					}
					q := cloneReq(s.Req)
					q.Body = xmlSerialize(t)
					add(s, "M4-"+op, "", q)
				}
			}
			for _, p := range paths {
				n0, _, _ := nodeAt(root, p)
				// mutually exclusive elements
				if (n0.Local == "comp-filter" || n0.Local == "prop-filter" || n0.Local == "param-filter") && (n0.Space == nsCal || n0.Space == nsCard) && len(n0.Children) > 0 && n0.First(n0.Space, "is-not-defined") == nil {
					for _, first := range []bool{true, false} {
						t := cloneTree(root)
						n, _, _ := nodeAt(t, p)
						ind := &indep.Node{Space: n.Space, Local: "is-not-defined"}
						if first {
							n.Children = append([]*indep.Node{ind}, n.Children...)
						} else {
							n.Children = append(n.Children, ind)
						}
						q := cloneReq(s.Req)
						q.Body = xmlSerialize(t)
						add(s, "M4-is-not-defined-beside-siblings", "mutually-exclusive-elements", q)
					}
				}
				if n0.Local == "comp" && n0.Space == nsCal && (n0.First(nsCal, "prop") != nil || n0.First(nsCal, "comp") != nil) {
					for _, el := range []string{"allprop", "allcomp"} {
						need := map[string]string{"allprop": "prop", "allcomp": "comp"}[el]
						if n0.First(nsCal, need) == nil {
							continue
						}
						t := cloneTree(root)
						n, _, _ := nodeAt(t, p)
						n.Children = append([]*indep.Node{{Space: nsCal, Local: el}}, n.Children...)
						q := cloneReq(s.Req)
						q.Body = xmlSerialize(t)
						add(s, "M4-"+el+"-beside-"+need, "mutually-exclusive-elements", q)
					}
				}
				if n0.Local == "address-data" && n0.Space == nsCard && n0.First(nsCard, "prop") != nil {
					t := cloneTree(root)
					n, _, _ := nodeAt(t, p)
					n.Children = append(n.Children, &indep.Node{Space: nsCard, Local: "allprop"})
					q := cloneReq(s.Req)
					q.Body = xmlSerialize(t)
					add(s, "M4-allprop-beside-prop", "mutually-exclusive-elements", q)
				}
				// a propfind selects by exactly one of propname / allprop / prop (RFC 4918 14.20)
				// (the same rule for the selection of a report: RFC 4791 9.5 / 9.10, RFC 6352 10.3 / 10.7)
				isReportRoot := (n0.Space == nsCal && (n0.Local == "calendar-query" || n0.Local == "calendar-multiget")) || (n0.Space == nsCard && (n0.Local == "addressbook-query" || n0.Local == "addressbook-multiget"))
				if ((n0.Local == "propfind" && n0.Space == indep.DAV) || isReportRoot) && len(p) == 0 {
					have := ""
					for _, k := range []string{"propname", "allprop", "prop"} {
						if n0.First(indep.DAV, k) != nil {
							have = k
						}
					}
					for _, k := range []string{"propname", "allprop", "prop"} {
						if have == "" || k == have {
							continue
						}
						for _, first := range []bool{true, false} {
							t := cloneTree(root)
							n, _, _ := nodeAt(t, p)
							extra := &indep.Node{Space: indep.DAV, Local: k}
							if k == "prop" {
								extra.Children = []*indep.Node{{Space: indep.DAV, Local: "getetag"}}
							}
							if first {
								n.Children = append([]*indep.Node{extra}, n.Children...)
							} else {
								n.Children = append(n.Children, extra)
							}
							q := cloneReq(s.Req)
							q.Body = xmlSerialize(t)
							add(s, "M4-"+k+"-beside-"+have, "mutually-exclusive-elements", q)
						}
					}
				}
				// M5 attribute corruption
				for ai, a := range n0.Attrs {
					key := n0.Local + "/" + a.Local
					for _, v := range []string{"", "bogus", "-1", "20200230T000000Z", "2020", "20200101T000000,5Z", "20200101T000000.0Z", "20200101T000000,000Z"} {
						t := cloneTree(root)
						n, _, _ := nodeAt(t, p)
						n.Attrs[ai].Value = v
						tag := ""
						switch {
						case c13DateAttrs[key]:
							tag = "invalid-date"
						case c13EnumAttrs[key]:
							tag = "invalid-enumeration"
						}
						q := cloneReq(s.Req)
						q.Body = xmlSerialize(t)
						add(s, "M5-attr-"+key, tag, q)
					}
					t := cloneTree(root)
					n, _, _ := nodeAt(t, p)
					n.Attrs = append(n.Attrs[:ai:ai], n.Attrs[ai+1:]...)
					q := cloneReq(s.Req)
					q.Body = xmlSerialize(t)
					add(s, "M5-attr-delete-"+key, "", q)
				}
				if n0.Local == "nresults" {
					for _, v := range []string{"", "bogus", "-1", "x", "1.5", "99999999999999999999999"} {
						t := cloneTree(root)
						n, _, _ := nodeAt(t, p)
						n.Text = v
						q := cloneReq(s.Req)
						q.Body = xmlSerialize(t)
						cls := "non-numeric"
						if v == "" {
							cls = "empty"
						}
						add(s, "M5-nresults-"+cls, "invalid-limit", q)
					}
					// legal limits, only very large: no malformation, but the handler must answer (no allocation
					// by the announced number)
					for _, v := range []string{"9007199254740993", "9223372036854775807", "4611686018427387904"} {
						t := cloneTree(root)
						n, _, _ := nodeAt(t, p)
						n.Text = v
						q := cloneReq(s.Req)
						q.Body = xmlSerialize(t)
						add(s, "M5-nresults-huge-but-legal", "", q)
					}
				}
			}
		}
		// M7 line-level mutation of iCalendar / vCard bodies
		if s.BodyKind == "ical" || s.BodyKind == "vcard" {
			lines := strings.SplitAfter(body, "\r\n")
			rejects := func(b string) bool {
				if s.BodyKind == "ical" {
					return !icalParses(b)
				}
				return !vcardParses(b)
			}
			for i := range lines {
				del := strings.Join(append(append([]string(nil), lines[:i]...), lines[i+1:]...), "")
				dup := strings.Join(append(append(append([]string(nil), lines[:i+1]...), lines[i]), lines[i+1:]...), "")
				for op, b := range map[string]string{"M7-delete-line": del, "M7-duplicate-line": dup} {
					q := cloneReq(s.Req)
					q.Body = b
					tag := ""
					if rejects(b) {
						tag = "unparseable-" + map[string]string{"ical": "icalendar", "vcard": "vcard"}[s.BodyKind]
					}
					add(s, op, tag, q)
				}
			}
		}
		// M6 headers
		hdrMut := func(name string, values []string, invalid func(string) bool, tagName string, reads bool) {
			for _, v := range values {
				q := cloneReq(s.Req)
				if v == "\x00missing" {
					delete(q.Header, name)
				} else {
					q.Header[name] = v
				}
				tag := ""
				if reads && invalid(v) {
					tag = tagName
				}
				op := "M6-" + name
				if name == "Content-Type" {
					switch {
					case v == "\x00missing":
						op += "-missing"
					case strings.Contains(v, "/") && strings.Contains(v, ";") && tag != "":
						op += "-malformed-parameter"
					default:
						op += "-other"
					}
				}
				add(s, op, tag, q)
			}
		}
		hdrMut("Depth", []string{"0", "1", "infinity", "Infinity", "2", "-1", "0, 1"}, func(v string) bool {
			return v != "0" && v != "1" && v != "infinity" && !strings.EqualFold(v, "infinity")
		}, "invalid-depth", s.Depth)
		hdrMut("Overwrite", []string{"T", "F", "t", "X", "TT"}, func(v string) bool { return v != "T" && v != "F" && v != "t" }, "invalid-overwrite", s.Overwrite)
		hdrMut("Destination", []string{"\x00missing", "%zz", "http://[::1", "/d/ok"}, func(v string) bool { return v != "/d/ok" }, "invalid-destination", s.Dest)
		// RFC 4918 9.3.1: a MKCOL announcing a body of a type the server does not understand must be refused (415)
		ctReads := (s.BodyKind == "ical" || s.BodyKind == "vcard") || s.NeedsXML || (s.Req.Method == "MKCOL" && s.Req.Body != "")
		ctVals := []string{"\x00missing", "text/plain", ";;", "text/xml; charset=x", "application/xml;"}
		if base, ok := s.Req.Header["Content-Type"]; ok {
			// the right media type with malformed parameters
			mt := strings.TrimSpace(strings.SplitN(base, ";", 2)[0])
			ctVals = append(ctVals, mt+"; charset", mt+"; =utf-8", mt+`; a="b`, mt+";;; x=", mt+"; charset=utf-8")
		}
		hdrMut("Content-Type", ctVals, func(v string) bool {
			if v == "\x00missing" || v == "text/plain" {
				return true
			}
			// the standard library's RFC 2045/7231 media-type parser is the independent judge
			_, _, err := mime.ParseMediaType(v)
			return err != nil
		}, "invalid-content-type", ctReads)
		// pairs: one header operator x one body operator (thorough)
		if pairs && s.BodyKind == "xml" && s.Depth {
			for _, d := range []string{"2", "-1"} {
				for _, b := range []string{"<", body[:len(body)/2]} {
					q := cloneReq(s.Req)
					q.Header["Depth"] = d
					q.Body = b
					add(s, "M6xM1-depth-and-truncated-body", "invalid-depth", q)
				}
			}
		}
	}
	// M10 / M11: lexical operators on XML bodies
	for _, s := range seeds {
		if s.BodyKind != "xml" || s.Req.Body == "" {
			continue
		}
		body := s.Req.Body
		// tag boundaries
		type tagPos struct {
			lo, hi int // body[lo:hi] = "<...>"
		}
		var tags []tagPos
		for i := 0; i < len(body); i++ {
			if body[i] == '<' {
				j := strings.IndexByte(body[i:], '>')
				if j < 0 {
					break
				}
				tags = append(tags, tagPos{i, i + j + 1})
				i += j
			}
		}
		for _, t := range tags {
			tag := body[t.lo:t.hi]
			switch {
			case strings.HasPrefix(tag, "<?"), strings.HasPrefix(tag, "<!"):
			case strings.HasPrefix(tag, "</"):
				// M11a: this end tag alone renamed (no longer matches its start tag)
				q := cloneReq(s.Req)
				q.Body = body[:t.hi-1] + "s" + body[t.hi-1:]
				if _, err := indep.Parse([]byte(q.Body)); err != nil {
					add(s, "M11-end-tag-mismatch", "unparseable-xml", q)
				}
			default:
				// M10: a comment / a processing instruction as first content of this element (well-formed:
				// only the no-panic oracle applies, and the answer class must stay that of the seed)
				if !strings.HasSuffix(tag, "/>") {
					for _, ins := range []string{"<!-- c -->", "<?pi x?>"} {
						q := cloneReq(s.Req)
						q.Body = body[:t.hi] + ins + body[t.hi:]
						add(s, "M10-comment-or-pi-inside", "", q)
					}
				}
				// M11b: attribute values without quotes
				if strings.Contains(tag, `="`) {
					q := cloneReq(s.Req)
					q.Body = body[:t.lo] + strings.Replace(strings.Replace(tag, `="`, `=`, 1), `"`, ``, 1) + body[t.hi:]
					if _, err := indep.Parse([]byte(q.Body)); err != nil {
						add(s, "M11-unquoted-attribute", "unparseable-xml", q)
					}
				}
				// M11c: an entity XML does not define, after this tag
				q := cloneReq(s.Req)
				q.Body = body[:t.hi] + "&nbsp;" + body[t.hi:]
				if _, err := indep.Parse([]byte(q.Body)); err != nil {
					add(s, "M11-undefined-entity", "unparseable-xml", q)
				}
			}
		}
	}
	// M12: content after the root element (a document has ONE root and nothing but white space, comments and
	// processing instructions after it)
	for _, s := range seeds {
		if s.BodyKind != "xml" || s.Req.Body == "" {
			continue
		}
		for _, tail := range []string{"<<<garbage", "<x/>", "junk", "<D:propfind xmlns:D=\"DAV:\"><D:allprop/></D:propfind>", "</x>", "&amp;"} {
			q := cloneReq(s.Req)
			q.Body = strings.TrimRight(s.Req.Body, " \r\n\t") + tail
			if _, err := indep.Parse([]byte(q.Body)); err != nil {
				add(s, "M12-content-after-the-root", "unparseable-xml", q)
			} else {
				add(s, "M12-content-after-the-root", "generator-accepted-trailing-content", q)
			}
		}
	}
	// M9: every request that carries a body once more with the body length not announced (chunked)
	n := len(out)
	for i := 0; i < n; i++ {
		if out[i].Req.Fault != nil {
			continue
		}
		if out[i].Req.Body == "" && !(out[i].Op == "seed" && (out[i].Req.Method == "PROPFIND" || out[i].Req.Method == "MKCOL" || out[i].Req.Method == "REPORT" || out[i].Req.Method == "PROPPATCH")) {
			continue
		}
		m := out[i]
		m.Req = cloneReq(m.Req)
		m.Req.Chunked = true
		m.Op += "+chunked"
		out = append(out, m)
	}
	return out
}

func c13Judge(m c13Mutant) (clause, detail string) {
	h, snap := c13Handler(m.Handler)
	done := make(chan harness.Resp, 1)
	go func() { done <- harness.Serve(h, m.Req) }()
	var resp harness.Resp
	select {
	case resp = <-done:
	case <-time.After(60 * time.Second):
		return "hang", "handler did not return within 60s"
	}
	if resp.Panic != "" {
		return "panic", resp.Panic
	}
	if resp.Status < 100 || resp.Status > 599 {
		return "incomplete-response", fmt.Sprint(resp.Status)
	}
	if resp.Status == 207 {
		// (well-formedness and the root element only: whether the multistatus also follows the content model
		// is C10/C11's business)
		if root, err := indep.Parse(resp.Body); err != nil || !root.Is(indep.DAV, "multistatus") {
			return "incomplete-response", fmt.Sprintf("status 207 with a body that is no multistatus document: %v: %q", err, trunc(string(resp.Body), 120))
		}
	}
	if m.Req.Chunked {
		// whether the length of the body is announced changes nothing: same status, same backend calls
		twin := m.Req
		twin.Chunked = false
		h2, snap2 := c13Handler(m.Handler)
		r2 := harness.Serve(h2, twin)
		a, b := fmt.Sprint(snap()), fmt.Sprint(snap2())
		if r2.Status != resp.Status || a != b {
			return "unannounced-length-differs", fmt.Sprintf("chunked: status %d calls %s; with Content-Length: status %d calls %s", resp.Status, trunc(a, 200), r2.Status, trunc(b, 200))
		}
	}
	if m.Tag == "" {
		// The doubles never fail by themselves: a 500 that the unmutated seed does not get is caused by what
		// the request says, i.e. it is a client error reported as a server error (501 Not Implemented and
		// the like are answers in their own right)
		if resp.Status == 500 && m.Op != "seed" {
			return "request-content-answered-500", fmt.Sprintf("status 500 body %q", trunc(string(resp.Body), 160))
		}
		return "", ""
	}
	if resp.Status < 400 || resp.Status > 499 {
		return "malformed-not-4xx", fmt.Sprintf("status %d body %q", resp.Status, trunc(string(resp.Body), 120))
	}
	for _, c := range snap() {
		if memfsMutating(c) {
			return "malformed-reached-mutation", c.String()
		}
	}
	return "", ""
}

func init() {
	register("C13", func(r *engine.Run) {
		seeds := c13Seeds()
		muts := c13Mutants(seeds, thorough(r))
		r.Rule = fmt.Sprintf("%d valid seed requests (handler x method x hierarchy level x body variant) x deterministic single-mutation operators applied at every position: M1 truncate the body at every byte offset, M2 every 1-2 byte body over 6 bytes, M3 wrong root name/namespace, M4 delete/duplicate/rename/namespace-swap every element + insert mutually exclusive elements (is-not-defined beside siblings, allprop beside prop, allcomp beside comp), M5 every attribute set to 5 invalid values / deleted, nresults corrupted, M6 Depth/Overwrite/Destination/Content-Type value sets, M7 iCalendar/vCard truncation at every offset and line deletion/duplication, M8 unknown methods, M10 a comment / processing instruction inserted as first content of every element, M11 every end tag renamed alone, attribute values unquoted, an undefined entity after every tag, M9 every body-carrying request above once more with the body length not announced (chunked), which must be answered exactly like its twin; a mutant is tagged malformed only when an independent judge says so (strict XML parser, the dependency's own iCalendar/vCard decoder, the header grammar); non-trivial = mutant carries a malformation tag (4xx + no-mutation oracle applies); distinct by full request", len(seeds))
		r.Explanation = "every mutant is served by the real handler over a recording backend: no panic, a complete response, and for tagged mutants a 4xx status and no create/update/delete call"
		r.Extra["seeds"] = len(seeds)
		r.Extra["mutants"] = len(muts)
		r.Parallel(len(muts), func(i int, s *engine.Shard) {
			m := muts[i]
			s.Transition()
			clause, detail := c13Judge(m)
			if m.Tag != "" {
				s.Clause("tagged " + m.Tag + ": 4xx and no mutating backend call")
				s.Nontrivial(js(m))
			} else {
				s.Clause("untagged: no panic, complete response")
			}
			s.Outcome(m.Handler + "/" + m.Req.Method + "/" + strings.SplitN(m.Op, "-", 2)[0] + "/" + clause)
			if i%15013 == 7 {
				s.Sample(m)
			}
			if clause != "" {
				at := ""
				if clause == "panic" {
					at = panicAt(detail)
				}
				s.Violate(engine.Violation{Sig: fmt.Sprintf("C13/%s/%s.%s/%s/%s", clause, m.Handler, m.Req.Method, m.Tag, opClass(m.Op)) + at, Clause: clause, Index: int64(i), Kind: "C13", Case: m,
					Expected: "no panic; malformed => 4xx and no mutation", Observed: detail})
			}
		})
	})
	registerReplay("C13", func(raw json.RawMessage) (bool, string) {
		var m c13Mutant
		if err := json.Unmarshal(raw, &m); err != nil {
			return false, err.Error()
		}
		clause, detail := c13Judge(m)
		return clause == "", clause + " " + detail
	})
}

func opClass(op string) string {
	op = strings.TrimSuffix(op, "+chunked") // the transfer coding is not part of the root cause
	if (strings.HasPrefix(op, "M5-attr-") && !strings.HasPrefix(op, "M5-attr-delete")) || strings.HasPrefix(op, "M5-nresults") {
		return op
	}
	parts := strings.SplitN(op, "-", 3)
	if len(parts) >= 2 && (parts[0] == "M4" || parts[0] == "M6") {
		return op
	}
	return parts[0]
}
