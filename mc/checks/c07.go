package checks

import (
	"encoding/json"
	"fmt"
	"math"
	"sort"
	"strconv"
	"strings"
	"time"

	"github.com/emersion/go-vcard"
	"github.com/emersion/go-webdav/carddav"
	"github.com/emersion/go-webdav/verifmc/engine"
)

// C07 — CardDAV match, limit and projection per RFC 6352 §10.5.

type rCard map[string]string // property -> single value (VERSION always present)

func (c rCard) build() vcard.Card {
	out := vcard.Card{}
	keys := make([]string, 0, len(c))
	for k := range c {
		keys = append(keys, k)
	}
	sort.Strings(keys)
	for _, k := range keys {
		if strings.HasSuffix(k, "\x01") || strings.HasSuffix(k, "\x02") {
			continue
		}
		out[k] = []*vcard.Field{{Value: c[k]}}
		if n, err := strconv.Atoi(c[k+"\x02"]); err == nil {
			// key + \x02 holds a count: that many further instances with the first value, before the last one
			for i := 0; i < n; i++ {
				out[k] = append(out[k], &vcard.Field{Value: c[k]})
			}
		}
		if v2, ok := c[k+"\x01"]; ok {
			// the property occurs a second time (key + \x01 holds the second value)
			out[k] = append(out[k], &vcard.Field{Value: v2})
		}
	}
	return out
}

var c07Tests = []carddav.FilterTest{"", carddav.FilterAnyOf, carddav.FilterAllOf, "bogus", "AllOf", "ANYOF"}
var c07Types = []carddav.MatchType{"", carddav.MatchEquals, carddav.MatchContains, carddav.MatchStartsWith, carddav.MatchEndsWith, "bogus", "Equals"}
var c07Texts = []string{"alice", "ali", ".com", "bob", "", "ali ", "\tbob"}
var c07Values = []string{"alice", "alice@example.com", "bob", ""}

func c07Cards() []rCard {
	var out []rCard
	opts := append([]string{"\x00absent"}, c07Values...)
	for _, fn := range opts {
		for _, em := range opts {
			c := rCard{"VERSION": "4.0"}
			if fn != "\x00absent" {
				c["FN"] = fn
			}
			if em != "\x00absent" {
				c["EMAIL"] = em
			}
			out = append(out, c)
		}
	}
	// a property that occurs twice (the usual case for EMAIL and TEL): a filter holds if SOME instance
	// satisfies it (RFC 6352 10.5.1)
	for _, a := range c07Values {
		for _, b := range c07Values {
			if a != b {
				out = append(out, rCard{"VERSION": "4.0", "FN": "alice", "EMAIL": a, "EMAIL\x01": b})
			}
		}
	}
	// a property with very many instances of which only the last differs (no cap on how many are looked at)
	for _, n := range []string{"127", "128", "300"} {
		out = append(out, rCard{"VERSION": "4.0", "FN": "alice", "EMAIL": "bob", "EMAIL\x02": n, "EMAIL\x01": "alice@example.com"})
	}
	return out
}

// three-valued reference; triOpen = depends on an unknown enumeration value
func refCardText(tm carddav.TextMatch, v string) tri {
	var ok bool
	switch tm.MatchType {
	case carddav.MatchEquals:
		ok = v == tm.Text
	case carddav.MatchContains, "":
		ok = strings.Contains(v, tm.Text)
	case carddav.MatchStartsWith:
		ok = strings.HasPrefix(v, tm.Text)
	case carddav.MatchEndsWith:
		ok = strings.HasSuffix(v, tm.Text)
	default:
		return triOpen
	}
	return triOf(ok != tm.NegateCondition)
}

func refCombine(test carddav.FilterTest, l []tri) tri {
	any, all := triFalse, triTrue
	for _, x := range l {
		any = triOr(any, x)
		all = triAnd(all, x)
	}
	switch test {
	case carddav.FilterAnyOf, "":
		return any
	case carddav.FilterAllOf:
		return all
	}
	if any == all && any != triOpen {
		return any
	}
	return triOpen
}

func refCardProp(pf carddav.PropFilter, c rCard) tri {
	v, ok := c[pf.Name]
	if pf.IsNotDefined {
		return triOf(!ok)
	}
	if !ok {
		return triFalse
	}
	if len(pf.TextMatches) == 0 {
		return triTrue
	}
	vals := []string{v}
	if v2, ok := c[pf.Name+"\x01"]; ok {
		vals = append(vals, v2)
	}
	res := triFalse
	for _, val := range vals {
		var l []tri
		for _, tm := range pf.TextMatches {
			l = append(l, refCardText(tm, val))
		}
		res = triOr(res, refCombine(pf.Test, l))
	}
	return res
}

func refCardMatch(q *carddav.AddressBookQuery, c rCard) tri {
	if q == nil {
		return triTrue
	}
	var l []tri
	for _, pf := range q.PropFilters {
		l = append(l, refCardProp(pf, c))
	}
	return refCombine(q.FilterTest, l)
}

func c07HasUnknown(q *carddav.AddressBookQuery) bool {
	if q == nil {
		return false
	}
	known := func(t carddav.FilterTest) bool {
		return t == "" || t == carddav.FilterAnyOf || t == carddav.FilterAllOf
	}
	if !known(q.FilterTest) {
		return true
	}
	for _, pf := range q.PropFilters {
		if !known(pf.Test) {
			return true
		}
		for _, tm := range pf.TextMatches {
			switch tm.MatchType {
			case "", carddav.MatchEquals, carddav.MatchContains, carddav.MatchStartsWith, carddav.MatchEndsWith:
			default:
				return true
			}
		}
	}
	return false
}

type c07Case struct {
	Query *carddav.AddressBookQuery `json:"query"`
	Card  rCard                     `json:"card"`
}

func c07Judge(q *carddav.AddressBookQuery, c rCard) (held bool, expected, observed string) {
	want := refCardMatch(q, c)
	unknown := c07HasUnknown(q)
	ao := &carddav.AddressObject{Path: "/c.vcf", ETag: "e", Card: c.build()}
	qb, cb := js(q), js(ao)
	var got bool
	var err error
	pan := ""
	func() {
		defer func() {
			if p := recover(); p != nil {
				pan = fmt.Sprint(p)
			}
		}()
		got, err = carddav.Match(q, ao)
	}()
	switch want {
	case triOpen:
		expected = "error (verdict depends on an unknown test/match-type)"
	default:
		expected = fmt.Sprintf("Match=%v", want == triTrue)
		if unknown {
			expected += " or error (query contains an unknown enumeration value)"
		}
	}
	if pan != "" {
		return false, expected, "panic: " + pan
	}
	if js(q) != qb || js(ao) != cb {
		return false, "arguments unmodified", "arguments modified"
	}
	if err != nil {
		observed = "error"
		return unknown, expected, observed
	}
	observed = fmt.Sprintf("Match=%v", got)
	if want == triOpen {
		return false, expected, observed
	}
	return got == (want == triTrue), expected, observed
}

func c07CloneQ(q *carddav.AddressBookQuery) *carddav.AddressBookQuery {
	g := *q
	g.PropFilters = make([]carddav.PropFilter, len(q.PropFilters))
	for i, pf := range q.PropFilters {
		g.PropFilters[i] = pf
		g.PropFilters[i].TextMatches = append([]carddav.TextMatch(nil), pf.TextMatches...)
	}
	if len(g.PropFilters) == 0 {
		g.PropFilters = nil
	}
	return &g
}

func c07Simplify(q *carddav.AddressBookQuery) []*carddav.AddressBookQuery {
	var out []*carddav.AddressBookQuery
	for i, pf := range q.PropFilters {
		g := c07CloneQ(q)
		g.PropFilters = append(g.PropFilters[:i:i], g.PropFilters[i+1:]...)
		out = append(out, g)
		for j, tm := range pf.TextMatches {
			g := c07CloneQ(q)
			g.PropFilters[i].TextMatches = append(g.PropFilters[i].TextMatches[:j:j], g.PropFilters[i].TextMatches[j+1:]...)
			if len(g.PropFilters[i].TextMatches) == 0 {
				g.PropFilters[i].TextMatches = nil
			}
			out = append(out, g)
			if tm.NegateCondition {
				g := c07CloneQ(q)
				g.PropFilters[i].TextMatches[j].NegateCondition = false
				out = append(out, g)
			}
			if tm.MatchType != "" {
				g := c07CloneQ(q)
				g.PropFilters[i].TextMatches[j].MatchType = ""
				out = append(out, g)
			}
		}
		if pf.Test != "" {
			g := c07CloneQ(q)
			g.PropFilters[i].Test = ""
			out = append(out, g)
		}
	}
	if q.FilterTest != "" {
		g := c07CloneQ(q)
		g.FilterTest = ""
		out = append(out, g)
	}
	return out
}

func c07Shrink(q *carddav.AddressBookQuery, c rCard) *carddav.AddressBookQuery {
	for changed := true; changed; {
		changed = false
		for _, g := range c07Simplify(q) {
			if held, _, _ := c07Judge(g, c); !held {
				q, changed = g, true
				break
			}
		}
	}
	return q
}

func c07Features(q *carddav.AddressBookQuery, c rCard) string {
	set := map[string]bool{}
	set[fmt.Sprintf("outer=%q.filters=%d", q.FilterTest, len(q.PropFilters))] = true
	for _, pf := range q.PropFilters {
		_, present := c[pf.Name]
		if pf.IsNotDefined {
			set[fmt.Sprintf("is-not-defined.present=%v", present)] = true
			continue
		}
		if !present {
			set["prop-absent"] = true
		}
		if len(pf.TextMatches) > 0 {
			set[fmt.Sprintf("inner=%q.matches=%d", pf.Test, len(pf.TextMatches))] = true
		} else if present {
			set["exists-only"] = true
		}
		for _, tm := range pf.TextMatches {
			set[fmt.Sprintf("type=%q.negate=%v", tm.MatchType, tm.NegateCondition)] = true
		}
	}
	var l []string
	for k := range set {
		l = append(l, k)
	}
	sort.Strings(l)
	return strings.Join(l, "+")
}

func c07TextMatches() []carddav.TextMatch {
	var out []carddav.TextMatch
	for _, ty := range c07Types {
		for _, neg := range []bool{false, true} {
			for _, tx := range c07Texts {
				out = append(out, carddav.TextMatch{Text: tx, MatchType: ty, NegateCondition: neg})
			}
		}
	}
	return out
}

func c07PropFilters(twoMatches bool) []carddav.PropFilter {
	var out []carddav.PropFilter
	tms := c07TextMatches()
	for _, n := range []string{"FN", "EMAIL", "X-NONE"} {
		out = append(out, carddav.PropFilter{Name: n, IsNotDefined: true})
		// is-not-defined decides by absence whatever text-matches stand next to it
		for ti := 0; ti < len(tms); ti += 9 {
			out = append(out, carddav.PropFilter{Name: n, IsNotDefined: true, TextMatches: []carddav.TextMatch{tms[ti]}},
				carddav.PropFilter{Name: n, IsNotDefined: true, Test: carddav.FilterAllOf, TextMatches: []carddav.TextMatch{tms[ti], tms[(ti+1)%len(tms)]}})
		}
		for _, t := range c07Tests {
			out = append(out, carddav.PropFilter{Name: n, Test: t})
			for _, a := range tms {
				out = append(out, carddav.PropFilter{Name: n, Test: t, TextMatches: []carddav.TextMatch{a}})
			}
			if twoMatches {
				for _, a := range tms {
					for _, b := range tms {
						out = append(out, carddav.PropFilter{Name: n, Test: t, TextMatches: []carddav.TextMatch{a, b}})
					}
				}
			} else if n == "EMAIL" && (t == carddav.FilterAllOf || t == carddav.FilterAnyOf) {
				// quick tier: pairs of text-matches over a reduced set, on the property that occurs twice in the
				// card family (both text-matches must hold for ONE instance under allof)
				var red []carddav.TextMatch
				for _, ty := range []carddav.MatchType{"", carddav.MatchEquals} {
					for _, neg := range []bool{false, true} {
						for _, tx := range []string{"alice", "bob"} {
							red = append(red, carddav.TextMatch{Text: tx, MatchType: ty, NegateCondition: neg})
						}
					}
				}
				for _, a := range red {
					for _, b := range red {
						out = append(out, carddav.PropFilter{Name: n, Test: t, TextMatches: []carddav.TextMatch{a, b}})
					}
				}
			}
		}
	}
	return out
}

// ---------- Filter(): limit, order, projection ----------

type c07FilterCase struct {
	Query *carddav.AddressBookQuery `json:"query"`
	Cards []rCard                   `json:"cards"`
}

func c07FilterJudge(q *carddav.AddressBookQuery, cards []rCard) (held bool, clause, expected, observed string) {
	aos := make([]carddav.AddressObject, len(cards))
	for i, c := range cards {
		aos[i] = carddav.AddressObject{Path: fmt.Sprintf("/c%d.vcf", i), ETag: fmt.Sprintf("t%d", i), ModTime: time.Unix(int64(1000+i), 0).UTC(), ContentLength: int64(10 + i), Card: c.build()}
	}
	// expected
	type exp struct {
		idx  int
		keys []string
	}
	var want []exp
	open := false
	for i, c := range cards {
		m := refCardMatch(q, c)
		if m == triOpen {
			open = true
		}
		if m != triTrue {
			continue
		}
		if q != nil && q.Limit > 0 && len(want) >= q.Limit {
			break
		}
		var keys []string
		if q == nil || q.DataRequest.AllProp || len(q.DataRequest.Props) == 0 {
			for k := range c {
				keys = append(keys, k)
			}
		} else {
			set := map[string]bool{"VERSION": true}
			for _, p := range q.DataRequest.Props {
				if _, ok := c[p]; ok {
					set[p] = true
				}
			}
			for k := range set {
				keys = append(keys, k)
			}
		}
		sort.Strings(keys)
		want = append(want, exp{i, keys})
	}
	qb, ab := js(q), js(aos)
	var got []carddav.AddressObject
	var err error
	pan := ""
	func() {
		defer func() {
			if p := recover(); p != nil {
				pan = fmt.Sprint(p)
			}
		}()
		got, err = carddav.Filter(q, aos)
	}()
	var wl []string
	for _, w := range want {
		wl = append(wl, fmt.Sprintf("c%d%v", w.idx, w.keys))
	}
	expected = strings.Join(wl, " ")
	if pan != "" {
		return false, "panic", expected, "panic: " + pan
	}
	if js(q) != qb || js(aos) != ab {
		return false, "arguments-modified", "arguments unmodified", "arguments modified"
	}
	if open || c07HasUnknown(q) {
		if err == nil && open {
			return false, "unknown-enum-guessed", "error", "no error"
		}
		if err != nil {
			return true, "", expected, "error"
		}
	}
	if err != nil {
		return false, "unexpected-error", expected, "error: " + err.Error()
	}
	var gl []string
	ok := len(got) == len(want)
	for i, g := range got {
		var keys []string
		for k := range g.Card {
			keys = append(keys, k)
		}
		sort.Strings(keys)
		gl = append(gl, fmt.Sprintf("%s%v", strings.TrimSuffix(strings.TrimPrefix(g.Path, "/"), ".vcf"), keys))
		if i < len(want) {
			w := want[i]
			src := aos[w.idx]
			if g.Path != src.Path || g.ETag != src.ETag || !g.ModTime.Equal(src.ModTime) || fmt.Sprint(keys) != fmt.Sprint(w.keys) {
				ok = false
			}
			for _, k := range keys {
				if len(g.Card[k]) != 1 || g.Card[k][0].Value != cards[w.idx][k] {
					ok = false
				}
			}
		}
	}
	observed = strings.Join(gl, " ")
	if !ok {
		return false, "selection-limit-projection", expected, observed
	}
	return true, "", expected, observed
}

func init() {
	register("C07", c07Run)
	registerReplay("C07", func(raw json.RawMessage) (bool, string) {
		var c c07Case
		if err := json.Unmarshal(raw, &c); err != nil {
			return false, err.Error()
		}
		held, exp, obs := c07Judge(c.Query, c.Card)
		return held, "expected " + exp + " observed " + obs
	})
	registerReplay("C07-filter", func(raw json.RawMessage) (bool, string) {
		var c c07FilterCase
		if err := json.Unmarshal(raw, &c); err != nil {
			return false, err.Error()
		}
		held, _, exp, obs := c07FilterJudge(c.Query, c.Cards)
		return held, "expected " + exp + " observed " + obs
	})
}

func c07Run(r *engine.Run) {
	full := thorough(r)
	cards := c07Cards()
	pfs := c07PropFilters(full)
	r.Rule = "Match: every query = outer test{'',anyof,allof,bogus} x 0..2 prop-filters, each name{FN,EMAIL,X-NONE} x [is-not-defined | inner test x 0..1 (thorough 0..2) text-matches over 7 texts (two with leading or trailing white space) x 6 match types (incl. bogus) x negate], on every card with FN/EMAIL each absent or one of 4 values (25 cards); pairs of prop-filters over a strided subset (quick) / denser subset (thorough). Filter: every ordered list of 0..4 cards from a 4-card pool x Limit{-1..5, MaxInt64/2, MaxInt64} x DataRequest{none,AllProp, every subset of {FN,EMAIL,X-NONE}} x representative queries. Non-trivial = the query's verdict differs across cards (Match) / at least one card matches (Filter); distinct by (query, card)."
	r.Explanation = "carddav.Match and carddav.Filter run on every generated case and are compared with a three-valued RFC 6352 reference (unknown enumeration => error required unless the verdict is the same either way); arguments are deep-compared before/after"
	r.Assumptions = []string{"param-filters are not part of matching in the statement"}
	r.Extra["prop_filters"] = len(pfs)
	r.Extra["cards"] = len(cards)

	evalQuery := func(s *engine.Shard, idx int64, q *carddav.AddressBookQuery) {
		nt, nf := 0, 0
		for ci, c := range cards {
			s.Transition()
			held, exp, obs := c07Judge(q, c)
			s.Outcome(obs)
			if strings.HasPrefix(exp, "Match=true") {
				nt++
			} else if strings.HasPrefix(exp, "Match=false") {
				nf++
			}
			if c07HasUnknown(q) {
				s.Clause("unknown enumeration: error or resolution-independent verdict")
			} else {
				s.Clause("verdict compared with RFC reference")
			}
			if !held {
				min := c07Shrink(q, c)
				_, exp, obs = c07Judge(min, c)
				s.Violate(engine.Violation{Sig: "C07/match/" + c07Features(min, c) + "/got=" + obs, Clause: "match", Index: idx*32 + int64(ci), Kind: "C07",
					Case: c07Case{Query: min, Card: c}, Expected: exp, Observed: obs})
			}
		}
		if nt > 0 && nf > 0 {
			for ci := range cards {
				s.Nontrivial(fmt.Sprintf("M/%d/%d", idx, ci))
			}
		}
	}

	// singles and zero filters
	n1 := len(pfs)
	r.Parallel((n1+1)*4, func(i int, s *engine.Shard) {
		t := c07Tests[i%4]
		k := i / 4
		q := &carddav.AddressBookQuery{FilterTest: t}
		if k > 0 {
			q.PropFilters = []carddav.PropFilter{pfs[k-1]}
		}
		evalQuery(s, int64(i), q)
		if i%1777 == 5 {
			_, exp, obs := c07Judge(q, cards[7])
			s.Sample(map[string]interface{}{"query": q, "card": cards[7], "expected": exp, "observed": obs})
		}
	})
	base := int64((n1 + 1) * 4)
	// pairs over a strided subset of the one-text-match filters
	single := c07PropFilters(false)
	stride := 7
	if full {
		stride = 3
	}
	var sub []carddav.PropFilter
	for i := 0; i < len(single); i += stride {
		sub = append(sub, single[i])
	}
	r.Extra["pair_subset"] = len(sub)
	r.Parallel(len(sub)*len(sub), func(i int, s *engine.Shard) {
		a, b := sub[i/len(sub)], sub[i%len(sub)]
		for ti, t := range c07Tests {
			q := &carddav.AddressBookQuery{FilterTest: t, PropFilters: []carddav.PropFilter{a, b}}
			evalQuery(s, base+int64(i)*4+int64(ti), q)
		}
	})
	base += int64(len(sub)*len(sub)) * 4

	// byte-level values and texts: a text is compared with a value byte for byte - ill-formed UTF-8, the
	// replacement character, characters outside the BMP and their decomposed forms are all different strings
	{
		sh := r.Shard()
		odd := []string{"Ren\xe9", "Ren\xfc", "Ren\ufffd", "Rene\u0301", "Ren\u00e9", "\U0001F382", "\xf0\x9f\x8e", "\xe9", "\ufffd", "K", "\u212a", "k"}
		k := 0
		for _, v := range odd {
			card := rCard{"VERSION": "4.0", "FN": v}
			for _, tx := range odd {
				for _, mt := range []carddav.MatchType{"", carddav.MatchEquals, carddav.MatchStartsWith, carddav.MatchEndsWith} {
					for _, neg := range []bool{false, true} {
						q := &carddav.AddressBookQuery{PropFilters: []carddav.PropFilter{{Name: "FN", TextMatches: []carddav.TextMatch{{Text: tx, MatchType: mt, NegateCondition: neg}}}}}
						sh.Transition()
						held, exp, obs := c07Judge(q, card)
						sh.Clause("byte-level texts and values")
						sh.Nontrivial(fmt.Sprintf("B/%d", k))
						if !held {
							sh.Violate(engine.Violation{Sig: fmt.Sprintf("C07/match/byte-level/type=%q.negate=%v/got=%s", mt, neg, obs), Index: base + int64(k), Kind: "C07", Case: c07Case{Query: q, Card: card}, Expected: exp, Observed: obs})
						}
						k++
					}
				}
			}
		}
		r.Merge(sh)
		base += int64(k)
	}

	// nil query
	r.Parallel(len(cards), func(i int, s *engine.Shard) {
		s.Transition()
		held, exp, obs := c07Judge(nil, cards[i])
		s.Clause("nil query matches everything")
		if !held {
			s.Violate(engine.Violation{Sig: "C07/match/nil-query/got=" + obs, Index: base + int64(i), Kind: "C07", Case: c07Case{Card: cards[i]}, Expected: exp, Observed: obs})
		}
	})
	base += int64(len(cards))

	// Filter()
	pool := []rCard{
		{"VERSION": "4.0", "FN": "alice", "EMAIL": "alice@example.com", "NICKNAME": "al"},
		{"VERSION": "3.0", "FN": "bob"},
		{"VERSION": "4.0", "EMAIL": "bob"},
		{"VERSION": "4.0", "FN": "alice", "NICKNAME": "x"},
	}
	var lists [][]rCard
	var gen func(cur []rCard, used int)
	gen = func(cur []rCard, used int) {
		lists = append(lists, append([]rCard(nil), cur...))
		if len(cur) == 4 {
			return
		}
		for i := range pool {
			if used&(1<<i) == 0 {
				gen(append(cur, pool[i]), used|1<<i)
			}
		}
	}
	gen(nil, 0)
	var reqs []carddav.AddressDataRequest
	reqs = append(reqs, carddav.AddressDataRequest{}, carddav.AddressDataRequest{AllProp: true}, carddav.AddressDataRequest{AllProp: true, Props: []string{"FN"}},
		carddav.AddressDataRequest{Props: []string{}}, carddav.AddressDataRequest{Props: make([]string, 0, 4)})
	names := []string{"FN", "EMAIL", "X-NONE"}
	for m := 1; m < 8; m++ {
		var ps []string
		for b := 0; b < 3; b++ {
			if m&(1<<b) != 0 {
				ps = append(ps, names[b])
			}
		}
		reqs = append(reqs, carddav.AddressDataRequest{Props: ps})
	}
	queries := []*carddav.AddressBookQuery{
		nil,
		{FilterTest: carddav.FilterAllOf}, // matches all
		{PropFilters: []carddav.PropFilter{{Name: "FN", TextMatches: []carddav.TextMatch{{Text: "alice"}}}}},
		{PropFilters: []carddav.PropFilter{{Name: "EMAIL"}}},
		{PropFilters: []carddav.PropFilter{{Name: "EMAIL", IsNotDefined: true}}},
		{FilterTest: carddav.FilterAllOf, PropFilters: []carddav.PropFilter{{Name: "FN"}, {Name: "NICKNAME", IsNotDefined: true}}},
		{PropFilters: []carddav.PropFilter{{Name: "FN", Test: "bogus", TextMatches: []carddav.TextMatch{{Text: "a"}}}}},
		{}, // anyof over nothing: matches none
	}
	limits := []int{-1, 0, 1, 2, 3, 4, 5, math.MaxInt64 / 2, math.MaxInt64} // (no limits around 2^31..2^40: a change that allocates by the limit would take the checker down with it instead of panicking)
	nCase := len(lists) * len(limits) * len(reqs) * len(queries)
	r.Extra["filter_cases"] = nCase
	r.Parallel(nCase, func(i int, s *engine.Shard) {
		k := i
		qi := k % len(queries)
		k /= len(queries)
		ri := k % len(reqs)
		k /= len(reqs)
		li := k % len(limits)
		k /= len(limits)
		cards := lists[k]
		var q *carddav.AddressBookQuery
		if queries[qi] != nil {
			q = c07CloneQ(queries[qi])
			q.Limit = limits[li]
			q.DataRequest = reqs[ri]
		} else if li != 0 || ri != 0 {
			return
		}
		s.Transition()
		held, clause, exp, obs := c07FilterJudge(q, cards)
		s.Clause("Filter: selection, order, limit, projection, immutability")
		s.Outcome(fmt.Sprintf("filter/returned=%d", len(strings.Fields(obs))))
		if exp != "" {
			s.Nontrivial(fmt.Sprintf("F/%d", i))
		}
		if i%30011 == 3 {
			s.Sample(map[string]interface{}{"filter_query": q, "cards": cards, "expected": exp, "observed": obs})
		}
		if !held {
			lim := "none"
			if q != nil {
				switch {
				case q.Limit <= 0:
					lim = "nonpositive"
				case q.Limit < len(cards):
					lim = "below-len"
				case q.Limit == len(cards):
					lim = "equal-len"
				default:
					lim = "above-len"
				}
			}
			proj := "nil-query"
			if q != nil {
				proj = fmt.Sprintf("allprop=%v.props=%d", q.DataRequest.AllProp, len(q.DataRequest.Props))
			}
			s.Violate(engine.Violation{Sig: fmt.Sprintf("C07/filter/%s/limit=%s/%s/query=%d", clause, lim, proj, qi), Clause: clause, Index: base + int64(i), Kind: "C07-filter",
				Case: c07FilterCase{Query: q, Cards: cards}, Expected: exp, Observed: obs})
		}
	})
}
