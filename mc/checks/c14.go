package checks

import (
	"context"
	"encoding/json"
	"errors"
	"fmt"
	"io"
	"net/http"
	"strings"
	"sync"
	"sync/atomic"
	"time"

	webdav "github.com/emersion/go-webdav"
	"github.com/emersion/go-webdav/caldav"
	"github.com/emersion/go-webdav/carddav"
	"github.com/emersion/go-webdav/internal"
	"github.com/emersion/go-webdav/verifmc/engine"
	"github.com/emersion/go-webdav/verifmc/harness"
	"github.com/emersion/go-webdav/verifmc/indep"
)

// C14 — clients survive any response and report failures with their status.

// abstract multistatus content
type c14Prop struct {
	Name   qname
	Status int // propstat status
}

type c14Resp struct {
	Href   string
	Status int // 0: no status element; -1: empty status element; else code
	Props  []c14Prop
	// with a response-level status: a DAV:error holding one condition element and/or a responsedescription
	ErrCond bool `json:",omitempty"`
	Desc    bool `json:",omitempty"`
	// ExtraHref: a status-form response naming a second resource (RFC 4918 14.24: href+ status)
	ExtraHref bool `json:",omitempty"`
}

type c14Method struct {
	Name     string
	Multi    bool // requires a 207 multistatus
	OKStatus int
	OKCT     string
	OKBody   func() string
	// for placement tests
	Base     []c14Resp
	Required map[qname]bool // a non-success status on these must yield an error
	Call     func(hc webdav.HTTPClient) (interface{}, error)
	// Zero reports whether the value of an optional property is the zero value in the result for response i
	Zero func(res interface{}, i int, p qname) (bool, bool) // (isZero, applicable)
	Sync bool
}

// status elements that are not a status line; negative codes -1..-len index this list
var c14BadStatus = []string{"", "HTTP/1.1 404", "HTTP/1.1", "404 Not Found", "HTTP/1.1 abc Not Found", "HTTP/1.1 20 OK", "HTTP/1.1 200", " HTTP/1.1 200 OK", "HTTP/1.1\t200\tOK"}

func statusText(code int) string {
	if code < 0 {
		return c14BadStatus[-code-1]
	}
	return fmt.Sprintf("HTTP/1.1 %d %s", code, http.StatusText(code))
}

var c14Values = map[qname]func() *indep.El{
	dav("resourcetype"):     func() *indep.El { return indep.E(indep.DAV, "resourcetype") },
	dav("getcontentlength"): func() *indep.El { return indep.E(indep.DAV, "getcontentlength").T("4") },
	dav("getlastmodified"):  func() *indep.El { return indep.E(indep.DAV, "getlastmodified").T("Sun, 06 Nov 1994 08:49:37 GMT") },
	dav("getcontenttype"):   func() *indep.El { return indep.E(indep.DAV, "getcontenttype").T("text/plain") },
	dav("getetag"):          func() *indep.El { return indep.E(indep.DAV, "getetag").T(`"tag"`) },
	dav("displayname"):      func() *indep.El { return indep.E(indep.DAV, "displayname").T("name") },
	dav("current-user-principal"): func() *indep.El {
		return indep.E(indep.DAV, "current-user-principal", indep.E(indep.DAV, "href").T("/u/"))
	},
	{nsCal, "calendar-home-set"}: func() *indep.El {
		return indep.E(nsCal, "calendar-home-set", indep.E(indep.DAV, "href").T("/u/c/"))
	},
	{nsCard, "addressbook-home-set"}: func() *indep.El {
		return indep.E(nsCard, "addressbook-home-set", indep.E(indep.DAV, "href").T("/u/c/"))
	},
	{nsCal, "calendar-description"}:     func() *indep.El { return indep.E(nsCal, "calendar-description").T("d") },
	{nsCard, "addressbook-description"}: func() *indep.El { return indep.E(nsCard, "addressbook-description").T("d") },
	{nsCal, "max-resource-size"}:        func() *indep.El { return indep.E(nsCal, "max-resource-size").T("100") },
	{nsCard, "max-resource-size"}:       func() *indep.El { return indep.E(nsCard, "max-resource-size").T("100") },
	{nsCal, "supported-calendar-component-set"}: func() *indep.El {
		return indep.E(nsCal, "supported-calendar-component-set", indep.E(nsCal, "comp").A("name", "VEVENT"))
	},
	{nsCard, "supported-address-data"}: func() *indep.El {
		return indep.E(nsCard, "supported-address-data", indep.E(nsCard, "address-data-type").A("content-type", "text/vcard").A("version", "4.0"))
	},
	{nsCal, "calendar-data"}: func() *indep.El { return indep.E(nsCal, "calendar-data").T(calBody) },
	{nsCard, "address-data"}: func() *indep.El { return indep.E(nsCard, "address-data").T(cardBody) },
	{"x", "calendar-rt"}: func() *indep.El {
		return indep.E(indep.DAV, "resourcetype", indep.E(indep.DAV, "collection"), indep.E(nsCal, "calendar"))
	},
	{"x", "addressbook-rt"}: func() *indep.El {
		return indep.E(indep.DAV, "resourcetype", indep.E(indep.DAV, "collection"), indep.E(nsCard, "addressbook"))
	},
}

func c14Doc(resps []c14Resp, syncToken bool) string {
	ms := indep.E(indep.DAV, "multistatus")
	for _, r := range resps {
		re := indep.E(indep.DAV, "response", indep.E(indep.DAV, "href").T(r.Href))
		if r.Status != 0 {
			if r.ExtraHref {
				re.Add(indep.E(indep.DAV, "href").T(r.Href + "-second"))
			}
			re.Add(indep.E(indep.DAV, "status").T(statusText(r.Status)))
			if r.ErrCond {
				re.Add(indep.E(indep.DAV, "error", indep.E(indep.DAV, "lock-token-submitted", indep.E(indep.DAV, "href").T("/locked"))))
			}
			if r.Desc {
				re.Add(indep.E(indep.DAV, "responsedescription").T("the resource is locked"))
			}
		} else {
			byStatus := map[int][]*indep.El{}
			var order []int
			for _, p := range r.Props {
				el := c14Values[p.Name]()
				if p.Status != 200 {
					el = indep.E(el.Space, el.Local)
				}
				if _, ok := byStatus[p.Status]; !ok {
					order = append(order, p.Status)
				}
				byStatus[p.Status] = append(byStatus[p.Status], el)
			}
			for _, st := range order {
				re.Add(indep.E(indep.DAV, "propstat", indep.E(indep.DAV, "prop", byStatus[st]...), indep.E(indep.DAV, "status").T(statusText(st))))
			}
		}
		ms.Add(re)
	}
	if syncToken {
		ms.Add(indep.E(indep.DAV, "sync-token").T("tok-2"))
	}
	return string(indep.Render(ms, indep.Style{Decl: true}))
}

func props200(names ...qname) []c14Prop {
	var out []c14Prop
	for _, n := range names {
		out = append(out, c14Prop{n, 200})
	}
	return out
}

func c14Methods() []c14Method {
	ctx := context.Background()
	fileProps := props200(dav("resourcetype"), dav("getcontentlength"), dav("getlastmodified"), dav("getcontenttype"), dav("getetag"))
	calProps := props200(qname{"x", "calendar-rt"}, dav("displayname"), qname{nsCal, "calendar-description"}, qname{nsCal, "max-resource-size"}, qname{nsCal, "supported-calendar-component-set"})
	abProps := props200(qname{"x", "addressbook-rt"}, dav("displayname"), qname{nsCard, "addressbook-description"}, qname{nsCard, "max-resource-size"}, qname{nsCard, "supported-address-data"})
	calObj := props200(qname{nsCal, "calendar-data"}, dav("getlastmodified"), dav("getetag"))
	abObj := props200(qname{nsCard, "address-data"}, dav("getlastmodified"), dav("getetag"))
	xmlCT := "application/xml; charset=utf-8"
	wd := func(hc webdav.HTTPClient) *webdav.Client { c, _ := webdav.NewClient(hc, "http://h/"); return c }
	cd := func(hc webdav.HTTPClient) *caldav.Client { c, _ := caldav.NewClient(hc, "http://h/"); return c }
	ad := func(hc webdav.HTTPClient) *carddav.Client { c, _ := carddav.NewClient(hc, "http://h/"); return c }
	fiZero := func(fi webdav.FileInfo, p qname) (bool, bool) {
		switch p.Local {
		case "getlastmodified":
			return fi.ModTime.IsZero(), true
		case "getcontenttype":
			return fi.MIMEType == "", true
		case "getetag":
			return fi.ETag == "", true
		}
		return false, false
	}
	multi := func(name string, base []c14Resp, req map[qname]bool, call func(hc webdav.HTTPClient) (interface{}, error), zero func(res interface{}, i int, p qname) (bool, bool)) c14Method {
		return c14Method{Name: name, Multi: true, OKStatus: 207, OKCT: xmlCT, OKBody: func() string { return c14Doc(base, false) }, Base: base, Required: req, Call: call, Zero: zero}
	}
	plain := func(name string, st int, ct, body string, call func(hc webdav.HTTPClient) (interface{}, error)) c14Method {
		return c14Method{Name: name, OKStatus: st, OKCT: ct, OKBody: func() string { return body }, Call: call}
	}
	var out []c14Method
	out = append(out,
		multi("webdav.FindCurrentUserPrincipal", []c14Resp{{Href: "/", Props: props200(dav("current-user-principal"))}}, map[qname]bool{dav("current-user-principal"): true},
			func(hc webdav.HTTPClient) (interface{}, error) { return wd(hc).FindCurrentUserPrincipal(ctx) }, nil),
		multi("webdav.Stat", []c14Resp{{Href: "/f", Props: fileProps}}, map[qname]bool{dav("resourcetype"): true, dav("getcontentlength"): true},
			func(hc webdav.HTTPClient) (interface{}, error) { return wd(hc).Stat(ctx, "/f") },
			func(res interface{}, i int, p qname) (bool, bool) { return fiZero(*res.(*webdav.FileInfo), p) }),
		multi("webdav.ReadDir", []c14Resp{{Href: "/d/f1", Props: fileProps}, {Href: "/d/f2", Props: fileProps}}, map[qname]bool{dav("resourcetype"): true, dav("getcontentlength"): true},
			func(hc webdav.HTTPClient) (interface{}, error) { return wd(hc).ReadDir(ctx, "/d", true) },
			func(res interface{}, i int, p qname) (bool, bool) {
				l := res.([]webdav.FileInfo)
				if i >= len(l) {
					return false, false
				}
				return fiZero(l[i], p)
			}),
		plain("webdav.Open", 200, "text/plain", "DATA", func(hc webdav.HTTPClient) (interface{}, error) {
			rc, err := wd(hc).Open(ctx, "/f")
			if err != nil {
				return nil, err
			}
			b, err := io.ReadAll(rc)
			rc.Close()
			return string(b), err
		}),
		plain("webdav.Create", 201, "", "", func(hc webdav.HTTPClient) (interface{}, error) {
			wc, err := wd(hc).Create(ctx, "/f")
			if err != nil {
				return nil, err
			}
			wc.Write([]byte("abc"))
			return nil, wc.Close()
		}),
		plain("webdav.RemoveAll", 204, "", "", func(hc webdav.HTTPClient) (interface{}, error) { return nil, wd(hc).RemoveAll(ctx, "/f") }),
		plain("webdav.Mkdir", 201, "", "", func(hc webdav.HTTPClient) (interface{}, error) { return nil, wd(hc).Mkdir(ctx, "/d") }),
		plain("webdav.Copy", 201, "", "", func(hc webdav.HTTPClient) (interface{}, error) { return nil, wd(hc).Copy(ctx, "/a", "/b", nil) }),
		plain("webdav.Move", 204, "", "", func(hc webdav.HTTPClient) (interface{}, error) { return nil, wd(hc).Move(ctx, "/a", "/b", nil) }),
		multi("caldav.FindCalendarHomeSet", []c14Resp{{Href: "/u/", Props: props200(qname{nsCal, "calendar-home-set"})}}, map[qname]bool{{nsCal, "calendar-home-set"}: true},
			func(hc webdav.HTTPClient) (interface{}, error) { return cd(hc).FindCalendarHomeSet(ctx, "/u/") }, nil),
		multi("caldav.FindCalendars", []c14Resp{{Href: "/u/c/k1/", Props: calProps}, {Href: "/u/c/k2/", Props: calProps}}, map[qname]bool{{"x", "calendar-rt"}: true},
			func(hc webdav.HTTPClient) (interface{}, error) { return cd(hc).FindCalendars(ctx, "/u/c/") },
			func(res interface{}, i int, p qname) (bool, bool) {
				l := res.([]caldav.Calendar)
				if i >= len(l) {
					return false, false
				}
				switch p.Local {
				case "displayname":
					return l[i].Name == "", true
				case "calendar-description":
					return l[i].Description == "", true
				case "max-resource-size":
					return l[i].MaxResourceSize == 0, true
				case "supported-calendar-component-set":
					return len(l[i].SupportedComponentSet) == 0, true
				}
				return false, false
			}),
		multi("caldav.QueryCalendar", []c14Resp{{Href: "/u/c/k1/o1.ics", Props: calObj}, {Href: "/u/c/k1/o2.ics", Props: calObj}}, map[qname]bool{{nsCal, "calendar-data"}: true},
			func(hc webdav.HTTPClient) (interface{}, error) {
				return cd(hc).QueryCalendar(ctx, "/u/c/k1/", &caldav.CalendarQuery{CompFilter: caldav.CompFilter{Name: "VCALENDAR"}})
			},
			func(res interface{}, i int, p qname) (bool, bool) {
				l := res.([]caldav.CalendarObject)
				if i >= len(l) {
					return false, false
				}
				switch p.Local {
				case "getlastmodified":
					return l[i].ModTime.IsZero(), true
				case "getetag":
					return l[i].ETag == "", true
				}
				return false, false
			}),
		multi("caldav.MultiGetCalendar", []c14Resp{{Href: "/u/c/k1/o1.ics", Props: calObj}}, map[qname]bool{{nsCal, "calendar-data"}: true},
			func(hc webdav.HTTPClient) (interface{}, error) {
				return cd(hc).MultiGetCalendar(ctx, "/u/c/k1/", &caldav.CalendarMultiGet{Paths: []string{"/u/c/k1/o1.ics"}})
			}, nil),
		plain("caldav.GetCalendarObject", 200, "text/calendar; charset=utf-8", calBody, func(hc webdav.HTTPClient) (interface{}, error) {
			return cd(hc).GetCalendarObject(ctx, "/u/c/k1/o1.ics")
		}),
		plain("caldav.PutCalendarObject", 201, "", "", func(hc webdav.HTTPClient) (interface{}, error) {
			return cd(hc).PutCalendarObject(ctx, "/u/c/k1/o1.ics", harness.SampleCalendar("1", "s"))
		}),
		plain("carddav.HasSupport", 204, "", "", func(hc webdav.HTTPClient) (interface{}, error) { return nil, ad(hc).HasSupport(ctx) }),
		multi("carddav.FindAddressBookHomeSet", []c14Resp{{Href: "/u/", Props: props200(qname{nsCard, "addressbook-home-set"})}}, map[qname]bool{{nsCard, "addressbook-home-set"}: true},
			func(hc webdav.HTTPClient) (interface{}, error) { return ad(hc).FindAddressBookHomeSet(ctx, "/u/") }, nil),
		multi("carddav.FindAddressBooks", []c14Resp{{Href: "/u/c/k1/", Props: abProps}, {Href: "/u/c/k2/", Props: abProps}}, map[qname]bool{{"x", "addressbook-rt"}: true},
			func(hc webdav.HTTPClient) (interface{}, error) { return ad(hc).FindAddressBooks(ctx, "/u/c/") },
			func(res interface{}, i int, p qname) (bool, bool) {
				l := res.([]carddav.AddressBook)
				if i >= len(l) {
					return false, false
				}
				switch p.Local {
				case "displayname":
					return l[i].Name == "", true
				case "addressbook-description":
					return l[i].Description == "", true
				case "max-resource-size":
					return l[i].MaxResourceSize == 0, true
				}
				return false, false
			}),
		multi("carddav.QueryAddressBook", []c14Resp{{Href: "/u/c/k1/o1.vcf", Props: abObj}, {Href: "/u/c/k1/o2.vcf", Props: abObj}}, map[qname]bool{{nsCard, "address-data"}: true},
			func(hc webdav.HTTPClient) (interface{}, error) {
				return ad(hc).QueryAddressBook(ctx, "/u/c/k1/", &carddav.AddressBookQuery{PropFilters: []carddav.PropFilter{{Name: "FN"}}})
			},
			func(res interface{}, i int, p qname) (bool, bool) {
				l := res.([]carddav.AddressObject)
				if i >= len(l) {
					return false, false
				}
				switch p.Local {
				case "getlastmodified":
					return l[i].ModTime.IsZero(), true
				case "getetag":
					return l[i].ETag == "", true
				}
				return false, false
			}),
		multi("carddav.MultiGetAddressBook", []c14Resp{{Href: "/u/c/k1/o1.vcf", Props: abObj}}, map[qname]bool{{nsCard, "address-data"}: true},
			func(hc webdav.HTTPClient) (interface{}, error) {
				return ad(hc).MultiGetAddressBook(ctx, "/u/c/k1/", &carddav.AddressBookMultiGet{Paths: []string{"/u/c/k1/o1.vcf"}})
			}, nil),
		plain("carddav.GetAddressObject", 200, "text/vcard; charset=utf-8", cardBody, func(hc webdav.HTTPClient) (interface{}, error) { return ad(hc).GetAddressObject(ctx, "/u/c/k1/o1.vcf") }),
		plain("carddav.PutAddressObject", 201, "", "", func(hc webdav.HTTPClient) (interface{}, error) {
			return ad(hc).PutAddressObject(ctx, "/u/c/k1/o1.vcf", harness.SampleCard("s"))
		}),
	)
	syncBase := []c14Resp{{Href: "/u/c/k1/o1.vcf", Props: props200(dav("getlastmodified"), dav("getetag"))}, {Href: "/u/c/k1/o2.vcf", Props: props200(dav("getlastmodified"), dav("getetag"))}}
	out = append(out, c14Method{Name: "carddav.SyncCollection", Multi: true, Sync: true, OKStatus: 207, OKCT: xmlCT, OKBody: func() string { return c14Doc(syncBase, true) }, Base: syncBase, Required: map[qname]bool{},
		Call: func(hc webdav.HTTPClient) (interface{}, error) {
			return ad(hc).SyncCollection(ctx, "/u/c/k1/", &carddav.SyncQuery{SyncToken: "t"})
		},
		Zero: func(res interface{}, i int, p qname) (bool, bool) {
			sr := res.(*carddav.SyncResponse)
			if i >= len(sr.Updated) {
				return false, false
			}
			switch p.Local {
			case "getlastmodified":
				return sr.Updated[i].ModTime.IsZero(), true
			case "getetag":
				return sr.Updated[i].ETag == "", true
			}
			return false, false
		}})
	// HasSupport needs a DAV header: handled by the scripted client (always sends DAV: 1, addressbook on 2xx)
	// the multistatus also reports the synchronized collection itself (RFC 6578 3.6: 507 on the request-URI)
	syncBase_self := append(append([]c14Resp{}, syncBase...), c14Resp{Href: "/u/c/k1/", Props: props200(dav("getetag"))})
	out = append(out, c14Method{Name: "carddav.SyncCollection/self", Multi: true, Sync: true, OKStatus: 207, OKCT: xmlCT, OKBody: func() string { return c14Doc(syncBase_self, true) }, Base: syncBase_self, Required: map[qname]bool{},
		Call: func(hc webdav.HTTPClient) (interface{}, error) {
			return ad(hc).SyncCollection(ctx, "/u/c/k1/", &carddav.SyncQuery{SyncToken: "t"})
		},
		Zero: func(res interface{}, i int, p qname) (bool, bool) {
			sr := res.(*carddav.SyncResponse)
			if i >= len(sr.Updated) {
				return false, false
			}
			switch p.Local {
			case "getlastmodified":
				return sr.Updated[i].ModTime.IsZero(), true
			case "getetag":
				return sr.Updated[i].ETag == "", true
			}
			return false, false
		}})
	// HasSupport needs a DAV header: handled by the scripted client (always sends DAV: 1, addressbook on 2xx)
	// the multistatus also reports the synchronized collection itself (RFC 6578 3.6: 507 on the request-URI)
	syncBase_self_noslash := append(append([]c14Resp{}, syncBase...), c14Resp{Href: "/u/c/k1", Props: props200(dav("getetag"))})
	out = append(out, c14Method{Name: "carddav.SyncCollection/self-noslash", Multi: true, Sync: true, OKStatus: 207, OKCT: xmlCT, OKBody: func() string { return c14Doc(syncBase_self_noslash, true) }, Base: syncBase_self_noslash, Required: map[qname]bool{},
		Call: func(hc webdav.HTTPClient) (interface{}, error) {
			return ad(hc).SyncCollection(ctx, "/u/c/k1/", &carddav.SyncQuery{SyncToken: "t"})
		},
		Zero: func(res interface{}, i int, p qname) (bool, bool) {
			sr := res.(*carddav.SyncResponse)
			if i >= len(sr.Updated) {
				return false, false
			}
			switch p.Local {
			case "getlastmodified":
				return sr.Updated[i].ModTime.IsZero(), true
			case "getetag":
				return sr.Updated[i].ETag == "", true
			}
			return false, false
		}})
	// HasSupport needs a DAV header: handled by the scripted client (always sends DAV: 1, addressbook on 2xx)
	return out
}

type scripted struct {
	Status int
	CT     string
	Body   string
	Split  int               // 1, 2: the DAV and Allow headers arrive on several lines, in two orders
	Hdr    map[string]string // further response headers
	mu     sync.Mutex
	bodies []*c14Body // every response body handed to the library
}

// c14Body records whether the library released the response body (an unreleased body pins the
// connection: on a connection-limited transport the next call hangs)
type c14Body struct {
	io.Reader
	closed atomic.Bool
}

func (b *c14Body) Close() error { b.closed.Store(true); return nil }

func (s *scripted) Do(req *http.Request) (*http.Response, error) {
	if req.Body != nil {
		io.Copy(io.Discard, req.Body)
		req.Body.Close()
	}
	h := http.Header{}
	if s.CT != "" {
		h.Set("Content-Type", s.CT)
	}
	h.Set("DAV", "1, 3, addressbook, calendar-access")
	h.Set("Allow", "OPTIONS, PROPFIND")
	switch s.Split {
	case 1:
		h["Dav"] = []string{"1, 3", "addressbook", "calendar-access"}
		h["Allow"] = []string{"OPTIONS", "PROPFIND"}
	case 2:
		h["Dav"] = []string{"addressbook", "calendar-access, 3", "1"}
		h["Allow"] = []string{"PROPFIND", "OPTIONS"}
	}
	for k, v := range s.Hdr {
		h.Set(k, v)
	}
	if s.Status/100 == 3 {
		h.Set("Location", "http://h/elsewhere")
	}
	body := &c14Body{Reader: strings.NewReader(s.Body)}
	s.mu.Lock()
	s.bodies = append(s.bodies, body)
	s.mu.Unlock()
	return &http.Response{StatusCode: s.Status, Status: fmt.Sprintf("%d %s", s.Status, http.StatusText(s.Status)), Proto: "HTTP/1.1", ProtoMajor: 1, ProtoMinor: 1,
		Header: h, Body: body, ContentLength: int64(len(s.Body)), Request: req}, nil
}

type c14Case struct {
	Method string    `json:"method"`
	Kind   string    `json:"kind"` // http | placement
	Status int       `json:"status,omitempty"`
	CT     string    `json:"content_type,omitempty"`
	Body   string    `json:"body,omitempty"`
	BodyID string    `json:"body_id,omitempty"`
	Resps  []c14Resp `json:"responses,omitempty"`
	// expectation for placement cases
	WantErr  bool              `json:"want_err,omitempty"`
	ZeroResp int               `json:"zero_resp,omitempty"`
	ZeroProp *qname            `json:"zero_prop,omitempty"`
	Deleted  string            `json:"deleted,omitempty"`
	Deleted2 string            `json:"deleted_second,omitempty"`
	WantCond string            `json:"want_condition,omitempty"` // local name of the DAV:error condition the error must carry
	WantCode int               `json:"want_code,omitempty"`      // HTTP status the error of the failed resource must carry
	Split    int               `json:"split_headers,omitempty"`
	Hdr      map[string]string `json:"response_headers,omitempty"`
}

func c14Run1(m c14Method, sc *scripted) (res interface{}, err error, pan string, hung bool) {
	type out struct {
		res interface{}
		err error
		pan string
	}
	ch := make(chan out, 1)
	go func() {
		var o out
		defer func() {
			if p := recover(); p != nil {
				o.pan = fmt.Sprint(p) + " [at " + harness.PanicOrigin() + "]"
			}
			ch <- o
		}()
		o.res, o.err = m.Call(sc)
	}()
	select {
	case o := <-ch:
		return o.res, o.err, o.pan, false
	case <-time.After(60 * time.Second):
		return nil, nil, "", true
	}
}

func davErrorDoc(n int) string {
	e := indep.E(indep.DAV, "error")
	if n >= 1 {
		e.Add(indep.E(nsCal, "no-uid-conflict", indep.E(indep.DAV, "href").T("/x")))
	}
	if n >= 2 {
		e.Add(indep.E(indep.DAV, "lock-token-submitted"))
	}
	return string(indep.Render(e, indep.Style{Decl: true}))
}

func c14Judge(m c14Method, c c14Case) (clause, detail string) {
	sc := &scripted{Status: c.Status, CT: c.CT, Body: c.Body, Split: c.Split, Hdr: c.Hdr}
	if c.Kind == "placement" {
		sc = &scripted{Status: 207, CT: "application/xml", Body: c14Doc(c.Resps, m.Sync)}
	}
	res, err, pan, hung := c14Run1(m, sc)
	if hung {
		return "hang", "call did not return within 60s"
	}
	if pan != "" {
		return "panic", pan
	}
	sc.mu.Lock()
	for i, b := range sc.bodies {
		if !b.closed.Load() {
			sc.mu.Unlock()
			return "response-body-not-released", fmt.Sprintf("response %d of the call was never closed (error: %v)", i, err)
		}
	}
	sc.mu.Unlock()
	if c.Kind == "placement" {
		if c.WantErr {
			if err == nil {
				return "non-success-status-served-as-valid-data", fmt.Sprintf("result %s", trunc(js(res), 300))
			}
			if c.WantCode != 0 {
				var he *internal.HTTPError
				if !errors.As(err, &he) || he.Code != c.WantCode {
					return "resource-error-without-status", fmt.Sprintf("error %q does not carry status %d", err.Error(), c.WantCode)
				}
			}
			if c.WantCond != "" {
				var de *internal.Error
				found := false
				if errors.As(err, &de) {
					for _, r := range de.Raw {
						if n, ok := r.XMLName(); ok && n.Space == "DAV:" && n.Local == c.WantCond {
							found = true
						}
					}
				}
				if !found {
					return "resource-error-without-condition", fmt.Sprintf("error %q does not carry DAV:%s", err.Error(), c.WantCond)
				}
			}
			return "", ""
		}
		if err != nil {
			return "unexpected-error", err.Error()
		}
		if c.Deleted != "" {
			sr := res.(*carddav.SyncResponse)
			found := false
			for _, d := range sr.Deleted {
				if d == c.Deleted {
					found = true
				}
			}
			for _, u := range sr.Updated {
				if u.Path == c.Deleted {
					return "deleted-resource-listed-as-updated", c.Deleted
				}
			}
			if !found {
				return "deletion-not-reported", fmt.Sprint(sr.Deleted)
			}
			if c.Deleted2 != "" {
				found2 := false
				for _, d := range sr.Deleted {
					if d == c.Deleted2 {
						found2 = true
					}
					if d == "" {
						return "deletion-of-nothing-reported", fmt.Sprintf("%q", sr.Deleted)
					}
				}
				if !found2 {
					return "deletion-not-reported", fmt.Sprintf("%q lacks %q", sr.Deleted, c.Deleted2)
				}
			}
		}
		if c.ZeroProp != nil && m.Zero != nil {
			if z, ok := m.Zero(res, c.ZeroResp, *c.ZeroProp); ok && !z {
				return "absent-optional-property-has-value", fmt.Sprintf("%s of response %d", *c.ZeroProp, c.ZeroResp)
			}
		}
		return "", ""
	}
	// HTTP-level
	if c.Status/100 != 2 {
		if err == nil {
			return "non-2xx-no-error", fmt.Sprintf("status %d", c.Status)
		}
		var he *internal.HTTPError
		if !errors.As(err, &he) {
			return "error-without-status", fmt.Sprintf("%T %v", err, err)
		}
		if he.Code != c.Status {
			return "error-wrong-status", fmt.Sprintf("code %d for status %d", he.Code, c.Status)
		}
		if strings.HasPrefix(c.BodyID, "dav-error-") && (strings.HasPrefix(c.CT, "application/xml") || strings.HasPrefix(c.CT, "text/xml")) {
			var de *internal.Error
			if !errors.As(err, &de) {
				return "dav-error-not-surfaced", err.Error()
			}
			want := int(c.BodyID[len(c.BodyID)-1] - '0')
			n := 0
			for _, r := range de.Raw {
				if _, ok := r.XMLName(); ok {
					n++
				}
			}
			if n != want {
				return "dav-error-conditions", fmt.Sprintf("%d condition elements, want %d", n, want)
			}
		}
		return "", ""
	}
	// 2xx
	if m.Multi && c.Status != 207 {
		if err == nil {
			return "2xx-not-207-accepted", fmt.Sprintf("status %d", c.Status)
		}
		return "", ""
	}
	switch c.BodyID {
	case "member-failure":
		if err == nil {
			return "non-success-status-served-as-valid-data", "the call returns nil although the multistatus reports a member that could not be handled"
		}
		var he *internal.HTTPError
		if !errors.As(err, &he) || he.Code != c.WantCode {
			return "resource-error-without-status", fmt.Sprintf("error %q does not carry status %d", err.Error(), c.WantCode)
		}
	case "valid":
		if c.Status == 207 && (m.Name == "webdav.RemoveAll" || m.Name == "webdav.Copy" || m.Name == "webdav.Move") {
			break // a 207 answer to DELETE/COPY/MOVE must carry a multistatus; their usual (empty) body is none: not judged
		}
		if err != nil && c.CT == m.OKCT {
			return "valid-response-refused", err.Error()
		}
	default:
		if m.Multi {
			root, perr := indep.Parse([]byte(c.Body))
			if perr != nil || !root.Is(indep.DAV, "multistatus") {
				if err == nil {
					return "uninterpretable-body-accepted", fmt.Sprintf("body %s (%v)", c.BodyID, perr)
				}
			}
		} else if strings.HasPrefix(m.Name, "caldav.Get") || strings.HasPrefix(m.Name, "carddav.Get") {
			if (c.BodyID == "empty" || c.BodyID == "text-2MiB") && err == nil {
				return "uninterpretable-body-accepted", c.BodyID
			}
		}
	}
	return "", ""
}

func c14HTTPCases(m c14Method, full bool) []c14Case {
	var out []c14Case
	statuses := []int{100, 199, 200, 201, 204, 206, 207, 299, 300, 301, 308, 400, 401, 403, 404, 409, 412, 423, 500, 503, 599}
	if full {
		statuses = nil
		for s := 100; s <= 599; s++ {
			statuses = append(statuses, s)
		}
	}
	cts := []string{"", "text/plain", "text/xml", "application/xml; charset=utf-8", "text/calendar", "text/vcard", ";;"}
	valid := m.OKBody()
	bodies := map[string]string{"valid": valid, "empty": "", "dav-error-0": davErrorDoc(0), "dav-error-1": davErrorDoc(1), "dav-error-2": davErrorDoc(2)}
	order := []string{"valid", "empty", "dav-error-0", "dav-error-1", "dav-error-2"}
	for _, st := range statuses {
		for _, ct := range cts {
			for _, id := range order {
				out = append(out, c14Case{Method: m.Name, Kind: "http", Status: st, CT: ct, Body: bodies[id], BodyID: id})
			}
		}
	}
	// DELETE, COPY and MOVE on a collection answer 207 when a MEMBER could not be handled (RFC 4918 9.6.1,
	// 9.8.5, 9.9.4): the failure of that member is the failure of the call
	if m.Name == "webdav.RemoveAll" || m.Name == "webdav.Copy" || m.Name == "webdav.Move" {
		for _, st := range []int{423, 403, 507} {
			doc := c14Doc([]c14Resp{{Href: "/f/locked-member", Status: st, ErrCond: st == 423}}, false)
			for _, ct := range []string{"application/xml; charset=utf-8", "text/xml", `text/xml; charset="utf-8"`, ""} {
				out = append(out, c14Case{Method: m.Name, Kind: "http", Status: 207, CT: ct, Body: doc, BodyID: "member-failure", WantCode: st})
			}
		}
	}
	// the DAV and Allow headers on several lines; entity-tag, date and location headers in unusual forms
	for sp := 1; sp <= 2; sp++ {
		out = append(out, c14Case{Method: m.Name, Kind: "http", Status: m.OKStatus, CT: m.OKCT, Body: valid, BodyID: "valid", Split: sp})
	}
	for _, et := range []string{`"x"`, `"`, `""`, `W/"x"`, "abc", `'a'`, `"a"b"`, `\`} {
		out = append(out, c14Case{Method: m.Name, Kind: "http", Status: m.OKStatus, CT: m.OKCT, Body: valid, BodyID: "header-variant", Hdr: map[string]string{"ETag": et}})
	}
	for _, lm := range []string{"Sun, 06 Nov 1994 08:49:37 GMT", "garbage", "", "Sun, 06 Nov 1994 08:49:37"} {
		out = append(out, c14Case{Method: m.Name, Kind: "http", Status: m.OKStatus, CT: m.OKCT, Body: valid, BodyID: "header-variant", Hdr: map[string]string{"Last-Modified": lm, "ETag": `"x"`}})
	}
	for _, loc := range []string{"/u/c/k1/stored", "%zz", "http://other/x y", ""} {
		out = append(out, c14Case{Method: m.Name, Kind: "http", Status: m.OKStatus, CT: m.OKCT, Body: valid, BodyID: "header-variant", Hdr: map[string]string{"Location": loc, "ETag": `"x"`}})
	}
	// truncation of the valid body at every offset, for the success status and one error status
	for _, st := range []int{m.OKStatus, 404} {
		for k := 1; k < len(valid); k++ {
			out = append(out, c14Case{Method: m.Name, Kind: "http", Status: st, CT: m.OKCT, Body: valid[:k], BodyID: fmt.Sprintf("truncated@%d", k)})
		}
	}
	// structural single mutations of the valid multistatus
	if m.Multi {
		root, err := indep.Parse([]byte(valid))
		if err == nil {
			var paths [][]int
			walkTree(root, nil, func(n *indep.Node, p []int) { paths = append(paths, p) })
			for _, p := range paths {
				if len(p) == 0 {
					continue
				}
				for _, op := range []string{"delete", "duplicate", "rename"} {
					t := cloneTree(root)
					n, parent, idx := nodeAt(t, p)
					switch op {
					case "delete":
						parent.Children = append(parent.Children[:idx:idx], parent.Children[idx+1:]...)
					case "duplicate":
						parent.Children = append(parent.Children[:idx+1:idx+1], append([]*indep.Node{cloneTree(n)}, parent.Children[idx+1:]...)...)
					case "rename":
						n.Local = "renamed-" + n.Local
					}
					out = append(out, c14Case{Method: m.Name, Kind: "http", Status: 207, CT: m.OKCT, Body: xmlSerialize(t), BodyID: "mutated-" + op})
				}
			}
		}
	}
	// a DAV:error document of some 150 KiB (one condition listing 3000 resources): the condition must still
	// reach the caller with the status
	{
		cond := indep.E(indep.DAV, "no-conflicting-lock")
		for i := 0; i < 3000; i++ {
			cond.Add(indep.E(indep.DAV, "href").T(fmt.Sprintf("/locked/collection/member-%04d-with-a-long-name.ics", i)))
		}
		doc := string(indep.Render(indep.E(indep.DAV, "error", cond), indep.Style{Decl: true}))
		for _, st := range []int{423, 409, 507} {
			out = append(out, c14Case{Method: m.Name, Kind: "http", Status: st, CT: "application/xml; charset=utf-8", Body: doc, BodyID: "dav-error-big-1"})
		}
	}
	// oversized bodies
	big := strings.Repeat("lorem ipsum dolor\n", 2<<20/18)
	deep := strings.Repeat("<a>", 20000) + strings.Repeat("</a>", 20000)
	wide := `<?xml version="1.0"?><D:multistatus xmlns:D="DAV:"><D:response><D:href>/x</D:href><D:propstat><D:prop>` + deep + strings.Repeat("<D:x/>", 200000) + `</D:prop><D:status>HTTP/1.1 200 OK</D:status></D:propstat></D:response></D:multistatus>`
	for _, st := range []int{m.OKStatus, 500} {
		out = append(out, c14Case{Method: m.Name, Kind: "http", Status: st, CT: "text/plain", Body: big, BodyID: "text-2MiB"})
		out = append(out, c14Case{Method: m.Name, Kind: "http", Status: st, CT: "application/xml", Body: wide, BodyID: "nested-xml-2MiB"})
	}
	return out
}

// placements of non-success statuses inside a multistatus: single deviations (+ pairs when full)
func c14PlacementCases(m c14Method, full bool) []c14Case {
	if !m.Multi {
		return nil
	}
	var out []c14Case
	clone := func(b []c14Resp) []c14Resp {
		n := make([]c14Resp, len(b))
		for i, r := range b {
			n[i] = r
			n[i].Props = append([]c14Prop(nil), r.Props...)
		}
		return n
	}
	bases := [][]c14Resp{m.Base}
	if len(m.Base) >= 2 {
		bases = append(bases, m.Base[:1])
		third := m.Base[1]
		third.Href += "-3"
		bases = append(bases, append(clone(m.Base), third))
	}
	flat := strings.Contains(m.Name, "Stat") || strings.Contains(m.Name, "HomeSet") || strings.Contains(m.Name, "FindCurrentUserPrincipal")
	for _, base := range bases {
		if flat && len(base) != 1 {
			continue
		}
		out = append(out, c14Case{Method: m.Name, Kind: "placement", Resps: clone(base)})
		for ri := range base {
			respStatuses := []int{404, 403, 500, -1, 207, 199, 507, 401, 409, 412, 302, 100, 599}
			if full {
				for st := 101; st < 599; st += 7 {
					respStatuses = append(respStatuses, st)
				}
			}
			for k := 2; k <= len(c14BadStatus); k++ {
				respStatuses = append(respStatuses, -k)
			}
			// a failed resource with a DAV:error condition and/or a description: the error carries the condition
			for _, st := range []int{403, 423} {
				for v := 1; v <= 3; v++ {
					r := clone(base)
					r[ri].Status, r[ri].ErrCond, r[ri].Desc = st, v&1 != 0, v&2 != 0
					cond := ""
					if v&1 != 0 {
						cond = "lock-token-submitted"
					}
					out = append(out, c14Case{Method: m.Name, Kind: "placement", Resps: r, WantErr: true, WantCond: cond})
					// the same failure reported for two resources in one response
					r2 := clone(r)
					r2[ri].ExtraHref = true
					out = append(out, c14Case{Method: m.Name, Kind: "placement", Resps: r2, WantErr: true, WantCond: cond, WantCode: st})
				}
			}
			for _, st := range respStatuses {
				r := clone(base)
				r[ri].Status = st
				// a response carrying only a status has no properties: the required ones are missing
				// even when that status is a success; sync-collection needs none and reads 404 as a deletion
				c := c14Case{Method: m.Name, Kind: "placement", Resps: r, WantErr: !(m.Sync && st/100 == 2)}
				if m.Sync && st == 404 {
					c.WantErr, c.Deleted = false, r[ri].Href
				}
				out = append(out, c)
				if m.Sync && st == 404 {
					// two deleted members reported in one status-form response (href+ status)
					r2 := clone(r)
					r2[ri].ExtraHref = true
					out = append(out, c14Case{Method: m.Name, Kind: "placement", Resps: r2, Deleted: r[ri].Href, Deleted2: r[ri].Href + "-second"})
				}
			}
			if m.Sync && strings.HasPrefix("/u/c/k1/", base[ri].Href) {
				// the synchronized collection's own response: SyncCollection has no place for its
				// properties and does not read them, so only its response-level status is judged
				continue
			}
			for pi, p := range base[ri].Props {
				propStatuses := []int{404, 403, 500, 507, 401, 424, 302}
				if pi == 0 || full {
					for k := 1; k <= len(c14BadStatus); k++ {
						propStatuses = append(propStatuses, -k)
					}
				}
				for _, st := range propStatuses {
					r := clone(base)
					r[ri].Props[pi].Status = st
					c := c14Case{Method: m.Name, Kind: "placement", Resps: r}
					if st < 0 {
						// a status element that is no status line: the document cannot be interpreted
						c.WantErr = true
					} else if m.Required[p.Name] || st != 404 {
						c.WantErr = true
					} else {
						n := p.Name
						c.ZeroResp, c.ZeroProp = ri, &n
					}
					out = append(out, c)
					if full {
						for pj := pi + 1; pj < len(base[ri].Props); pj++ {
							r2 := clone(r)
							r2[ri].Props[pj].Status = 404
							c2 := c14Case{Method: m.Name, Kind: "placement", Resps: r2, WantErr: c.WantErr || m.Required[base[ri].Props[pj].Name]}
							out = append(out, c2)
						}
					}
				}
			}
		}
	}
	return out
}

func init() {
	register("C14", func(r *engine.Run) {
		full := thorough(r)
		methods := c14Methods()
		byName := map[string]c14Method{}
		var cases []c14Case
		for _, m := range methods {
			byName[m.Name] = m
			cases = append(cases, c14HTTPCases(m, full)...)
			cases = append(cases, c14PlacementCases(m, full)...)
		}
		r.Rule = fmt.Sprintf("%d public client methods of the three packages x {status codes (quick: 21 boundary codes; thorough: every code 100..599) x 7 content types x {valid body, empty, DAV:error with 0/1/2 conditions}, the valid body truncated at every offset (success and 404), every single element deletion/duplication/rename of the valid multistatus, 2 MiB of text, 2 MiB of nested/wide XML}; plus every single placement of a non-success status inside a multistatus: per response {404,403,500,507,401,409,412,302,100,599,empty status,207,199; thorough: every 7th code 101..598} and per property {404,403,500,507,401,424,302} for 1..3 responses (thorough: pairs of property deviations); non-trivial = every case", len(methods))
		r.Explanation = "each call runs against a scripted HTTPClient under recover() and a 60 s watchdog; non-2xx => errors.As(*HTTPError) with the status (and the DAV:error condition elements); 2xx-not-207 and uninterpretable bodies (by the independent parser) => error; valid => nil; a resource or required property under a non-success status => error (SyncCollection: 404 => Deleted), an optional property under 404 => zero value"
		r.Assumptions = []string{"the error type for '2xx but not 207' is not judged", "nesting depth of the oversized XML is 20000 levels (deeper documents risk exhausting the checker's own stack)"}
		r.Extra["methods"] = len(methods)
		c14Redirects(r)
		r.Parallel(len(cases), func(i int, s *engine.Shard) {
			c := cases[i]
			m := byName[c.Method]
			s.Transition()
			clause, detail := c14Judge(m, c)
			if c.Kind == "placement" {
				s.Clause("placement: non-success status inside a multistatus")
			} else {
				s.Clause("http: status / content type / body")
			}
			s.Outcome(fmt.Sprintf("%s/%dxx/%s/%s", c.Kind, c.Status/100, strings.SplitN(c.BodyID, "@", 2)[0], clause))
			if len(c.Body) < 4096 {
				s.Nontrivial(js(c))
			} else {
				s.Nontrivial(fmt.Sprintf("%s/%d/%s/%s", c.Method, c.Status, c.CT, c.BodyID))
			}
			if i%20011 == 500 {
				cc := c
				cc.Body = trunc(cc.Body, 200)
				s.Sample(cc)
			}
			if clause != "" {
				cls := fmt.Sprintf("%s/status=%dxx.body=%s", c.Method, c.Status/100, strings.SplitN(c.BodyID, "@", 2)[0])
				if c.Kind == "placement" {
					cls = c.Method + "/placement"
				}
				cc := c
				if len(cc.Body) > 8192 {
					cc.Body = "(regenerated from body_id)"
				}
				if clause == "panic" {
					cls += panicAt(detail)
				}
				s.Violate(engine.Violation{Sig: "C14/" + clause + "/" + cls, Clause: clause, Index: int64(i), Kind: "C14", Case: cc, Expected: "error iff not 2xx / not 207 / uninterpretable, carrying the status", Observed: detail})
			}
		})
	})
	registerReplay("C14", func(raw json.RawMessage) (bool, string) {
		var c c14Case
		if err := json.Unmarshal(raw, &c); err != nil {
			return false, err.Error()
		}
		for _, m := range c14Methods() {
			if m.Name == c.Method {
				if c.Body == "(regenerated from body_id)" {
					for _, x := range c14HTTPCases(m, false) {
						if x.BodyID == c.BodyID && x.Status == c.Status {
							c.Body = x.Body
						}
					}
				}
				clause, detail := c14Judge(m, c)
				return clause == "", clause + " " + detail
			}
		}
		return false, "unknown method"
	})
}
