package checks

import (
	"encoding/json"
	"fmt"
	"sort"
	"strings"
	"time"

	"github.com/emersion/go-ical"
	"github.com/emersion/go-webdav/caldav"
	"github.com/emersion/go-webdav/verifmc/engine"
)

// C06 — CalDAV filter evaluation follows RFC 4791 §9.7–9.9.
//
// Three exhaustive sub-spaces (structure, interval overlap, recurrence) plus the
// Filter() selection contract, each compared with an evaluator written from the RFC
// text that works on the generator's own neutral object description (it never parses
// iCalendar and never calls go-ical).

// ---------- neutral object description ----------

type rProp struct {
	Name   string            `json:"name"`
	Value  string            `json:"value"`
	Params map[string]string `json:"params,omitempty"`
}

type rComp struct {
	Name     string  `json:"name"`
	Props    []rProp `json:"props,omitempty"`
	Children []rComp `json:"children,omitempty"`
	// Interval of the component when it is an event built by the interval/recurrence
	// generators: instances as [start,end) in unix seconds, ZeroLen per RFC row.
	Instances [][2]int64 `json:"instances,omitempty"`
	HasTime   bool       `json:"has_time,omitempty"`
}

func (c rComp) build() *ical.Component {
	out := ical.NewComponent(c.Name)
	for _, p := range c.Props {
		ip := ical.NewProp(p.Name)
		ip.Value = p.Value
		keys := make([]string, 0, len(p.Params))
		for k := range p.Params {
			keys = append(keys, k)
		}
		sort.Strings(keys)
		for _, k := range keys {
			ip.Params.Set(k, p.Params[k])
		}
		out.Props.Add(ip)
	}
	for _, ch := range c.Children {
		out.Children = append(out.Children, ch.build())
	}
	return out
}

func (c rComp) prop(name string) (rProp, int) {
	n := 0
	var first rProp
	for _, p := range c.Props {
		if p.Name == name {
			if n == 0 {
				first = p
			}
			n++
		}
	}
	return first, n
}

// ---------- reference evaluator (three-valued) ----------

type tri int

const (
	triFalse tri = iota
	triTrue
	triOpen // the statement / RFC leaves this case open: not judged
)

func triOf(b bool) tri {
	if b {
		return triTrue
	}
	return triFalse
}

func triAnd(a, b tri) tri {
	if a == triFalse || b == triFalse {
		return triFalse
	}
	if a == triOpen || b == triOpen {
		return triOpen
	}
	return triTrue
}

func triOr(a, b tri) tri {
	if a == triTrue || b == triTrue {
		return triTrue
	}
	if a == triOpen || b == triOpen {
		return triOpen
	}
	return triFalse
}

func refTextMatch(tm *caldav.TextMatch, v string) tri {
	if tm == nil {
		return triTrue
	}
	return triOf(strings.Contains(v, tm.Text) != tm.NegateCondition)
}

func refParamFilter(f caldav.ParamFilter, p rProp) tri {
	v, ok := p.Params[strings.ToUpper(f.Name)] // parameter names are case-insensitive (RFC 5545 2)
	if f.IsNotDefined {
		if f.TextMatch != nil {
			return triOpen // mutually exclusive on the wire
		}
		return triOf(!ok)
	}
	if !ok {
		return triFalse
	}
	return refTextMatch(f.TextMatch, v)
}

// overlap per RFC 4791 §9.9 (VEVENT rows). start/end zero = open.
func refOverlap(start, end time.Time, inst [2]int64) bool {
	s, e := inst[0], inst[1]
	var okStart, okEnd bool
	if e > s {
		okStart = start.IsZero() || start.Unix() < e
	} else {
		okStart = start.IsZero() || start.Unix() <= s
	}
	okEnd = end.IsZero() || end.Unix() > s
	return okStart && okEnd
}

func refPropFilter(f caldav.PropFilter, c rComp) tri {
	p, n := c.prop(f.Name)
	hasRange := !f.Start.IsZero() || !f.End.IsZero()
	if f.IsNotDefined {
		if f.TextMatch != nil || hasRange || len(f.ParamFilter) > 0 {
			return triOpen
		}
		return triOf(n == 0)
	}
	if n == 0 {
		return triFalse
	}
	// (time-range | text-match) are alternatives in the DTD, but Match takes the public struct, which can carry
	// both: the statement demands that text-match, time range and parameter filters all hold
	// RFC 4791 9.7.2: the filter matches if A property of that name satisfies the conditions: with several
	// instances (ATTENDEE), some instance
	_ = p
	out := triFalse
	for _, p := range c.Props {
		if p.Name != f.Name {
			continue
		}
		res := triTrue
		if hasRange {
			t, err := time.Parse("20060102T150405Z", p.Value)
			if err != nil && p.Params["VALUE"] == "DATE" && f.Start.Location() == time.UTC && f.End.Location() == time.UTC {
				// RFC 4791 9.9: a DATE value is the start of that day (judged for UTC ranges only: a DATE is floating)
				t, err = time.Parse("20060102", p.Value)
			}
			if err != nil {
				return triOpen // time-range on a non date-time property
			}
			res = triAnd(res, triOf(refOverlap(f.Start, f.End, [2]int64{t.Unix(), t.Unix()})))
		}
		res = triAnd(res, refTextMatch(f.TextMatch, p.Value))
		for _, pf := range f.ParamFilter {
			res = triAnd(res, refParamFilter(pf, p))
		}
		out = triOr(out, res)
	}
	return out
}

// refCompSelf: does component c (whose name equals f.Name) satisfy f's own conditions?
func refCompSelf(f caldav.CompFilter, c rComp) tri {
	res := triTrue
	if !f.Start.IsZero() || !f.End.IsZero() {
		if c.Name != ical.CompEvent || !c.HasTime {
			res = triOpen // the statement covers events only
		} else {
			any := false
			for _, in := range c.Instances {
				if refOverlap(f.Start, f.End, in) {
					any = true
				}
			}
			res = triOf(any)
		}
	}
	for _, cf := range f.Comps {
		res = triAnd(res, refCompFilterIn(cf, c.Children))
	}
	for _, pf := range f.Props {
		res = triAnd(res, refPropFilter(pf, c))
	}
	return res
}

func compFilterHasConds(f caldav.CompFilter) bool {
	return !f.Start.IsZero() || !f.End.IsZero() || len(f.Comps) > 0 || len(f.Props) > 0
}

// refCompFilterIn evaluates f against a scope (list of candidate components).
func refCompFilterIn(f caldav.CompFilter, scope []rComp) tri {
	exists := false
	res := triFalse
	for _, c := range scope {
		if c.Name != f.Name {
			continue
		}
		exists = true
		res = triOr(res, refCompSelf(f, c))
	}
	if f.IsNotDefined {
		if compFilterHasConds(f) {
			return triOpen
		}
		return triOf(!exists)
	}
	return res
}

func refCalMatch(f caldav.CompFilter, cal rComp) tri {
	return refCompFilterIn(f, []rComp{cal})
}

// ---------- evaluation of one case ----------

type c06Case struct {
	Space  string            `json:"space"`
	Filter caldav.CompFilter `json:"filter"`
	Object rComp             `json:"object"`
}

func implMatch(f caldav.CompFilter, obj rComp) (got bool, err error, panicked string) {
	defer func() {
		if p := recover(); p != nil {
			panicked = fmt.Sprint(p)
		}
	}()
	co := &caldav.CalendarObject{Path: "/o.ics", Data: &ical.Calendar{Component: obj.build()}}
	got, err = caldav.Match(f, co)
	return
}

// c06Judge returns held, expected, observed.
func c06Judge(f caldav.CompFilter, obj rComp) (held bool, want tri, observed string) {
	want = refCalMatch(f, obj)
	got, err, pan := implMatch(f, obj)
	if pan != "" {
		return false, want, "panic: " + pan
	}
	if err != nil {
		// An error is never what the RFC prescribes for the well-formed objects generated here.
		return want == triOpen, want, "error: " + err.Error()
	}
	observed = fmt.Sprint(got)
	if want == triOpen {
		return true, want, observed
	}
	return got == (want == triTrue), want, observed
}

// shrink a failing filter greedily to a minimal failing one (keeps the object).
func c06Shrink(f caldav.CompFilter, obj rComp) caldav.CompFilter {
	fails := func(g caldav.CompFilter) bool {
		held, want, _ := c06Judge(g, obj)
		return !held && want != triOpen
	}
	for changed := true; changed; {
		changed = false
		for _, g := range c06Simplify(f) {
			if fails(g) {
				f = g
				changed = true
				break
			}
		}
	}
	return f
}

func cloneCF(f caldav.CompFilter) caldav.CompFilter {
	g := f
	g.Props = append([]caldav.PropFilter(nil), f.Props...)
	for i := range g.Props {
		g.Props[i].ParamFilter = append([]caldav.ParamFilter(nil), g.Props[i].ParamFilter...)
	}
	g.Comps = make([]caldav.CompFilter, len(f.Comps))
	for i := range f.Comps {
		g.Comps[i] = cloneCF(f.Comps[i])
	}
	if len(g.Comps) == 0 {
		g.Comps = nil
	}
	return g
}

func c06Simplify(f caldav.CompFilter) []caldav.CompFilter {
	var out []caldav.CompFilter
	if !f.Start.IsZero() || !f.End.IsZero() {
		g := cloneCF(f)
		g.Start, g.End = time.Time{}, time.Time{}
		out = append(out, g)
	}
	for i := range f.Props {
		g := cloneCF(f)
		g.Props = append(g.Props[:i:i], g.Props[i+1:]...)
		out = append(out, g)
		p := f.Props[i]
		if p.TextMatch != nil {
			g := cloneCF(f)
			g.Props[i].TextMatch = nil
			out = append(out, g)
			if p.TextMatch.NegateCondition {
				g := cloneCF(f)
				g.Props[i].TextMatch = &caldav.TextMatch{Text: p.TextMatch.Text}
				out = append(out, g)
			}
		}
		if !p.Start.IsZero() || !p.End.IsZero() {
			g := cloneCF(f)
			g.Props[i].Start, g.Props[i].End = time.Time{}, time.Time{}
			out = append(out, g)
		}
		for j := range p.ParamFilter {
			g := cloneCF(f)
			g.Props[i].ParamFilter = append(g.Props[i].ParamFilter[:j:j], g.Props[i].ParamFilter[j+1:]...)
			out = append(out, g)
			if p.ParamFilter[j].TextMatch != nil {
				g := cloneCF(f)
				g.Props[i].ParamFilter[j].TextMatch = nil
				out = append(out, g)
			}
		}
	}
	for i := range f.Comps {
		g := cloneCF(f)
		g.Comps = append(g.Comps[:i:i], g.Comps[i+1:]...)
		out = append(out, g)
		for _, sub := range c06Simplify(f.Comps[i]) {
			g := cloneCF(f)
			g.Comps[i] = sub
			out = append(out, g)
		}
	}
	return out
}

// feature signature of a (minimal) failing filter relative to the object
func c06Features(f caldav.CompFilter, obj rComp) string {
	set := map[string]bool{}
	var walk func(f caldav.CompFilter, scope []rComp, depth int)
	walk = func(f caldav.CompFilter, scope []rComp, depth int) {
		present := false
		var next []rComp
		for _, c := range scope {
			if c.Name == f.Name {
				present = true
				next = append(next, c)
			}
		}
		lvl := "comp"
		if depth == 0 {
			lvl = "root"
		}
		if f.IsNotDefined {
			set[fmt.Sprintf("%s.is-not-defined.component-present=%v", lvl, present)] = true
		} else if !present {
			set[lvl+".component-absent"] = true
		}
		if !f.Start.IsZero() || !f.End.IsZero() {
			set[fmt.Sprintf("%s.time-range(start=%v,end=%v)", lvl, !f.Start.IsZero(), !f.End.IsZero())] = true
		}
		for _, p := range f.Props {
			has := false
			for _, c := range next {
				if _, n := c.prop(p.Name); n > 0 {
					has = true
				}
			}
			if p.IsNotDefined {
				set[fmt.Sprintf("prop.is-not-defined.prop-present=%v", has)] = true
			} else if !has {
				set["prop.absent"] = true
			}
			if p.TextMatch != nil {
				set[fmt.Sprintf("prop.text-match.negate=%v", p.TextMatch.NegateCondition)] = true
			}
			if !p.Start.IsZero() || !p.End.IsZero() {
				set[fmt.Sprintf("prop.time-range(start=%v,end=%v)", !p.Start.IsZero(), !p.End.IsZero())] = true
			}
			for _, pa := range p.ParamFilter {
				if pa.IsNotDefined {
					set["param.is-not-defined"] = true
				} else if pa.TextMatch != nil {
					set[fmt.Sprintf("param.text-match.negate=%v", pa.TextMatch.NegateCondition)] = true
				} else {
					set["param.defined"] = true
				}
			}
		}
		var kids []rComp
		for _, c := range next {
			kids = append(kids, c.Children...)
		}
		for _, cf := range f.Comps {
			walk(cf, kids, depth+1)
		}
	}
	walk(f, []rComp{obj}, 0)
	var l []string
	for k := range set {
		l = append(l, k)
	}
	sort.Strings(l)
	if len(l) == 0 {
		return "plain"
	}
	return strings.Join(l, "+")
}

func c06Check(s *engine.Shard, space string, idx int64, f caldav.CompFilter, obj rComp, extraClass string) tri {
	s.Transition()
	held, want, obs := c06Judge(f, obj)
	if want == triOpen {
		s.Count("not-demanded(open)")
		return want
	}
	s.Clause(space + ": verdict compared with RFC reference")
	if !held {
		min := c06Shrink(f, obj)
		sig := "C06/verdict/" + space + "/" + c06Features(min, obj)
		if extraClass != "" {
			sig += "/" + extraClass
		}
		sig += "/got=" + obs
		if strings.HasPrefix(obs, "error") || strings.HasPrefix(obs, "panic") {
			sig = "C06/verdict/" + space + "/" + c06Features(min, obj) + "/" + strings.SplitN(obs, ":", 2)[0]
		}
		s.Violate(engine.Violation{Sig: sig, Clause: "verdict", Index: idx, Kind: "C06", Case: c06Case{Space: space, Filter: min, Object: obj},
			Expected: fmt.Sprintf("Match=%v (RFC 4791 reference)", want == triTrue), Observed: "Match=" + obs})
	}
	return want
}

// ---------- sub-space 1: structure ----------

var c06T0 = time.Date(2020, 3, 10, 0, 0, 0, 0, time.UTC)

func c06fmt(t time.Time) string { return t.UTC().Format("20060102T150405Z") }

func c06Objects() []rComp {
	ev := func(h0, h1 int, props ...rProp) rComp {
		s, e := c06T0.Add(time.Duration(h0)*time.Hour), c06T0.Add(time.Duration(h1)*time.Hour)
		p := append([]rProp{{Name: "DTSTART", Value: c06fmt(s)}, {Name: "DTEND", Value: c06fmt(e)}}, props...)
		return rComp{Name: "VEVENT", Props: p, HasTime: true, Instances: [][2]int64{{s.Unix(), e.Unix()}}}
	}
	e1 := ev(2, 4, rProp{Name: "UID", Value: "e1"}, rProp{Name: "SUMMARY", Value: "hello"})
	e2 := ev(10, 12, rProp{Name: "UID", Value: "e2"}, rProp{Name: "SUMMARY", Value: "world", Params: map[string]string{"LANGUAGE": "en"}},
		rProp{Name: "ATTENDEE", Value: "mailto:hello@example.com", Params: map[string]string{"PARTSTAT": "ACCEPTED"}})
	td := rComp{Name: "VTODO", Props: []rProp{{Name: "UID", Value: "t1"}, {Name: "SUMMARY", Value: "hello"}}}
	ea := ev(2, 4, rProp{Name: "UID", Value: "e3"}, rProp{Name: "SUMMARY", Value: "alarm"})
	ea.Children = []rComp{{Name: "VALARM", Props: []rProp{{Name: "ACTION", Value: "DISPLAY"}, {Name: "DESCRIPTION", Value: "hello"}}}}
	tz := rComp{Name: "VTIMEZONE", Props: []rProp{{Name: "TZID", Value: "X/Y"}}}
	// a property that is present with an empty value (LOCATION-like); text-match on it is decided by the
	// substring test and negate-condition like on any other value
	ee := ev(2, 4, rProp{Name: "UID", Value: "e5"}, rProp{Name: "SUMMARY", Value: "", Params: map[string]string{"LANGUAGE": ""}})
	// a property that occurs twice with different values and parameters
	e6 := ev(10, 12, rProp{Name: "UID", Value: "e6"}, rProp{Name: "SUMMARY", Value: "two attendees"},
		rProp{Name: "ATTENDEE", Value: "mailto:cyrus@example.com", Params: map[string]string{"PARTSTAT": "NEEDS-ACTION"}},
		rProp{Name: "ATTENDEE", Value: "mailto:hello@example.com", Params: map[string]string{"PARTSTAT": "ACCEPTED", "LANGUAGE": "en"}})
	kinds := []rComp{e1, e2, td, ea, tz, ee, e6}
	root := func(ch ...rComp) rComp {
		return rComp{Name: "VCALENDAR", Props: []rProp{{Name: "VERSION", Value: "2.0"}, {Name: "PRODID", Value: "-//verif//EN"}}, Children: ch}
	}
	out := []rComp{root()}
	for _, a := range kinds {
		out = append(out, root(a))
	}
	for _, a := range kinds {
		for _, b := range kinds {
			out = append(out, root(a, b))
		}
	}
	return out
}

func c06ParamFilters() []caldav.ParamFilter {
	var out []caldav.ParamFilter
	for _, n := range []string{"LANGUAGE", "PARTSTAT", "X-NONE"} {
		out = append(out, caldav.ParamFilter{Name: n, IsNotDefined: true})
		out = append(out, caldav.ParamFilter{Name: n})
		out = append(out, caldav.ParamFilter{Name: n, TextMatch: &caldav.TextMatch{Text: "en"}})
		out = append(out, caldav.ParamFilter{Name: n, TextMatch: &caldav.TextMatch{Text: "en", NegateCondition: true}})
	}
	// parameter names written in another letter case
	out = append(out, caldav.ParamFilter{Name: "language"}, caldav.ParamFilter{Name: "PartStat", TextMatch: &caldav.TextMatch{Text: "ACC"}})
	return out
}

func c06TextMatches() []*caldav.TextMatch {
	return []*caldav.TextMatch{nil, {Text: "ell"}, {Text: "ell", NegateCondition: true}, {Text: "zzz"}, {Text: "zzz", NegateCondition: true}, {Text: ""}, {Text: "", NegateCondition: true}}
}

func c06PropFilters(full bool) []caldav.PropFilter {
	var out []caldav.PropFilter
	params := c06ParamFilters()
	for _, n := range []string{"SUMMARY", "ATTENDEE", "X-NONE"} {
		out = append(out, caldav.PropFilter{Name: n, IsNotDefined: true})
		for _, tm := range c06TextMatches() {
			out = append(out, caldav.PropFilter{Name: n, TextMatch: tm})
			if !full && tm != nil {
				continue
			}
			for _, pa := range params {
				out = append(out, caldav.PropFilter{Name: n, TextMatch: tm, ParamFilter: []caldav.ParamFilter{pa}})
			}
		}
	}
	if full {
		// two param filters on one property (both must hold)
		for i, a := range params {
			for _, b := range params[i+1:] {
				out = append(out, caldav.PropFilter{Name: "SUMMARY", ParamFilter: []caldav.ParamFilter{a, b}})
			}
		}
	}
	return out
}

func c06Leafs() []caldav.CompFilter {
	var out []caldav.CompFilter
	smallP := []caldav.PropFilter{
		{Name: "DESCRIPTION"}, {Name: "DESCRIPTION", IsNotDefined: true}, {Name: "DESCRIPTION", TextMatch: &caldav.TextMatch{Text: "ell"}},
		{Name: "DESCRIPTION", TextMatch: &caldav.TextMatch{Text: "ell", NegateCondition: true}}, {Name: "X-NONE"},
	}
	for _, n := range []string{"VALARM", "VEVENT"} {
		out = append(out, caldav.CompFilter{Name: n, IsNotDefined: true})
		out = append(out, caldav.CompFilter{Name: n})
		for _, p := range smallP {
			out = append(out, caldav.CompFilter{Name: n, Props: []caldav.PropFilter{p}})
		}
	}
	return out
}

func c06Mid(full bool) []caldav.CompFilter {
	var out []caldav.CompFilter
	props := c06PropFilters(true)
	leafs := c06Leafs()
	hit := [2]time.Time{c06T0.Add(3 * time.Hour), c06T0.Add(5 * time.Hour)}    // overlaps e1/ea, not e2
	miss := [2]time.Time{c06T0.Add(20 * time.Hour), c06T0.Add(22 * time.Hour)} // overlaps nothing
	ranges := [][2]time.Time{{}, hit, miss}
	for _, n := range []string{"VEVENT", "VTODO", "VTIMEZONE"} {
		out = append(out, caldav.CompFilter{Name: n, IsNotDefined: true})
		for ri, rg := range ranges {
			if ri > 0 && n != "VEVENT" {
				continue
			}
			out = append(out, caldav.CompFilter{Name: n, Start: rg[0], End: rg[1]})
			for _, p := range props {
				out = append(out, caldav.CompFilter{Name: n, Start: rg[0], End: rg[1], Props: []caldav.PropFilter{p}})
			}
			for _, l := range leafs {
				out = append(out, caldav.CompFilter{Name: n, Start: rg[0], End: rg[1], Comps: []caldav.CompFilter{l}})
			}
			{
				// a node carrying BOTH property filters and nested component filters (all must hold)
				for pi, p := range props {
					if (full && pi%7 != 0) || (!full && pi%41 != 0) {
						continue
					}
					for _, l := range leafs {
						out = append(out, caldav.CompFilter{Name: n, Start: rg[0], End: rg[1], Props: []caldav.PropFilter{p}, Comps: []caldav.CompFilter{l}})
					}
				}
				if ri == 0 {
					// two property filters on one component (conjunction)
					for i := 0; i < len(props); i += 5 {
						for j := 1; j < len(props); j += 9 {
							out = append(out, caldav.CompFilter{Name: n, Props: []caldav.PropFilter{props[i], props[j]}})
						}
					}
				}
			}
		}
	}
	return out
}

func c06RootProps() []caldav.PropFilter {
	return []caldav.PropFilter{{Name: "VERSION"}, {Name: "X-NONE", IsNotDefined: true}, {Name: "PRODID", TextMatch: &caldav.TextMatch{Text: "zzz"}}, {Name: "VERSION", IsNotDefined: true}}
}

func c06Roots(full bool) []caldav.CompFilter {
	var out []caldav.CompFilter
	mids := c06Mid(full)
	rp := c06RootProps()
	for _, n := range []string{"VCALENDAR", "VEVENT"} {
		out = append(out, caldav.CompFilter{Name: n, IsNotDefined: true})
		out = append(out, caldav.CompFilter{Name: n})
		for _, p := range rp {
			out = append(out, caldav.CompFilter{Name: n, Props: []caldav.PropFilter{p}})
		}
		for mi, m := range mids {
			out = append(out, caldav.CompFilter{Name: n, Comps: []caldav.CompFilter{m}})
			if n == "VCALENDAR" && (full || mi%9 == 0) {
				out = append(out, caldav.CompFilter{Name: n, Props: []caldav.PropFilter{rp[0]}, Comps: []caldav.CompFilter{m}})
				out = append(out, caldav.CompFilter{Name: n, Props: []caldav.PropFilter{rp[3]}, Comps: []caldav.CompFilter{m}})
			}
		}
	}
	// two sibling comp-filters under VCALENDAR (conjunction over different components)
	step := 23
	if full {
		step = 5
	}
	for i := 0; i < len(mids); i += step {
		for j := 1; j < len(mids); j += step + 2 {
			out = append(out, caldav.CompFilter{Name: "VCALENDAR", Comps: []caldav.CompFilter{mids[i], mids[j]}})
		}
	}
	return out
}

// ---------- sub-space 2: interval overlap ----------

type c06Event struct {
	Style string `json:"style"`
	D, F  int    `json:"d_f"`
	obj   rComp
}

func c06IntervalEvents() []c06Event {
	var out []c06Event
	hour := func(i int) time.Time { return c06T0.Add(time.Duration(2*i+1) * time.Hour) }
	day := func(i int) time.Time { return c06T0.AddDate(0, 0, i) }
	root := func(ev rComp) rComp {
		return rComp{Name: "VCALENDAR", Props: []rProp{{Name: "VERSION", Value: "2.0"}}, Children: []rComp{ev}}
	}
	for d := 0; d < 6; d++ {
		for f := d; f < 6; f++ {
			s, e := hour(d), hour(f)
			if f > d {
				out = append(out, c06Event{"DTEND", d, f, root(rComp{Name: "VEVENT", HasTime: true, Instances: [][2]int64{{s.Unix(), e.Unix()}},
					Props: []rProp{{Name: "DTSTART", Value: c06fmt(s)}, {Name: "DTEND", Value: c06fmt(e)}}})})
			}
			dur := fmt.Sprintf("PT%dH", 2*(f-d))
			out = append(out, c06Event{"DURATION", d, f, root(rComp{Name: "VEVENT", HasTime: true, Instances: [][2]int64{{s.Unix(), e.Unix()}},
				Props: []rProp{{Name: "DTSTART", Value: c06fmt(s)}, {Name: "DURATION", Value: dur}}})})
		}
		s := hour(d)
		out = append(out, c06Event{"INSTANT", d, d, root(rComp{Name: "VEVENT", HasTime: true, Instances: [][2]int64{{s.Unix(), s.Unix()}},
			Props: []rProp{{Name: "DTSTART", Value: c06fmt(s)}}})})
	}
	// all-day forms on a day grid
	for d := 0; d < 4; d++ {
		s := day(d)
		out = append(out, c06Event{"DATE-NOEND", d, d + 1, root(rComp{Name: "VEVENT", HasTime: true, Instances: [][2]int64{{s.Unix(), s.AddDate(0, 0, 1).Unix()}},
			Props: []rProp{{Name: "DTSTART", Value: s.Format("20060102"), Params: map[string]string{"VALUE": "DATE"}}}})})
		for f := d + 1; f < 5; f++ {
			e := day(f)
			out = append(out, c06Event{"DATE-DTEND", d, f, root(rComp{Name: "VEVENT", HasTime: true, Instances: [][2]int64{{s.Unix(), e.Unix()}},
				Props: []rProp{{Name: "DTSTART", Value: s.Format("20060102"), Params: map[string]string{"VALUE": "DATE"}},
					{Name: "DTEND", Value: e.Format("20060102"), Params: map[string]string{"VALUE": "DATE"}}}})})
		}
	}
	return out
}

// ranges: every S<E on a grid interleaved with the event grid (even and odd hours so
// that every ordering incl. equality with D and F occurs), plus open sides.
func c06Ranges(zone *time.Location) [][2]time.Time {
	var pts []time.Time
	for h := 0; h <= 12; h++ {
		pts = append(pts, c06T0.Add(time.Duration(h)*time.Hour).In(zone))
	}
	for d := 1; d <= 5; d++ {
		pts = append(pts, c06T0.AddDate(0, 0, d).In(zone), c06T0.AddDate(0, 0, d).Add(12*time.Hour).In(zone))
	}
	pts = append(pts, c06T0.Add(-time.Hour).In(zone))
	sort.Slice(pts, func(i, j int) bool { return pts[i].Before(pts[j]) })
	var out [][2]time.Time
	for i, a := range pts {
		out = append(out, [2]time.Time{a, {}})
		out = append(out, [2]time.Time{{}, a})
		for _, b := range pts[i+1:] {
			out = append(out, [2]time.Time{a, b})
		}
	}
	return out
}

func c06Relation(rg [2]time.Time, inst [2]int64) string {
	cmp := func(a time.Time, b int64) string {
		if a.IsZero() {
			return "open"
		}
		switch {
		case a.Unix() < b:
			return "<"
		case a.Unix() == b:
			return "="
		}
		return ">"
	}
	zl := "len>0"
	if inst[0] == inst[1] {
		zl = "len=0"
	}
	return fmt.Sprintf("%s.S%sD.S%sF.E%sD.E%sF", zl, cmp(rg[0], inst[0]), cmp(rg[0], inst[1]), cmp(rg[1], inst[0]), cmp(rg[1], inst[1]))
}

// ---------- sub-space 3: recurrence ----------

type c06Rec struct {
	Freq     string `json:"freq"`
	Interval int    `json:"interval"`
	Count    int    `json:"count"`
	DurH     int    `json:"dur_h"`
	obj      rComp
}

func c06Recurring() []c06Rec {
	var out []c06Rec
	start := c06T0.Add(9 * time.Hour)
	for _, freq := range []string{"DAILY", "WEEKLY"} {
		for _, iv := range []int{1, 2} {
			for _, cnt := range []int{1, 2, 3} {
				for _, dh := range []int{0, 1, 25} {
					step := 24 * time.Hour
					if freq == "WEEKLY" {
						step *= 7
					}
					var inst [][2]int64
					for k := 0; k < cnt; k++ {
						s := start.Add(time.Duration(k*iv) * step)
						inst = append(inst, [2]int64{s.Unix(), s.Add(time.Duration(dh) * time.Hour).Unix()})
					}
					props := []rProp{{Name: "DTSTART", Value: c06fmt(start)}, {Name: "RRULE", Value: fmt.Sprintf("FREQ=%s;INTERVAL=%d;COUNT=%d", freq, iv, cnt)}}
					if dh > 0 {
						props = append(props, rProp{Name: "DURATION", Value: fmt.Sprintf("PT%dH", dh)})
					}
					out = append(out, c06Rec{freq, iv, cnt, dh, rComp{Name: "VCALENDAR", Props: []rProp{{Name: "VERSION", Value: "2.0"}},
						Children: []rComp{{Name: "VEVENT", HasTime: true, Instances: inst, Props: props}}}})
				}
				// all-day series: DTSTART is a DATE; no end (every instance lasts one day), DTEND two days later,
				// DURATION of one day. DurH is negative: -24 / -48 / -25 (= one day stated as DURATION)
				day := c06T0
				date := map[string]string{"VALUE": "DATE"}
				for _, v := range []int{-24, -48, -25} {
					step := 24 * time.Hour
					if freq == "WEEKLY" {
						step *= 7
					}
					length := 24 * time.Hour
					props := []rProp{{Name: "DTSTART", Value: day.Format("20060102"), Params: date}, {Name: "RRULE", Value: fmt.Sprintf("FREQ=%s;INTERVAL=%d;COUNT=%d", freq, iv, cnt)}}
					switch v {
					case -48:
						length = 48 * time.Hour
						props = append(props, rProp{Name: "DTEND", Value: day.Add(length).Format("20060102"), Params: date})
					case -25:
						props = append(props, rProp{Name: "DURATION", Value: "P1D"})
					}
					var inst [][2]int64
					for k := 0; k < cnt; k++ {
						s := day.Add(time.Duration(k*iv) * step)
						inst = append(inst, [2]int64{s.Unix(), s.Add(length).Unix()})
					}
					out = append(out, c06Rec{freq, iv, cnt, v, rComp{Name: "VCALENDAR", Props: []rProp{{Name: "VERSION", Value: "2.0"}},
						Children: []rComp{{Name: "VEVENT", HasTime: true, Instances: inst, Props: props}}}})
				}
			}
		}
	}
	return out
}

func c06RecRanges() [][2]time.Time {
	// points around every instance start/end of the family: day grid x {08,09,10,12} hours
	var pts []time.Time
	for d := -1; d <= 30; d++ {
		if d > 4 && d != 6 && d != 7 && d != 8 && d != 13 && d != 14 && d != 15 && d != 28 && d != 29 {
			continue
		}
		for _, h := range []int{0, 8, 9, 10, 12} {
			pts = append(pts, c06T0.AddDate(0, 0, d).Add(time.Duration(h)*time.Hour))
		}
	}
	var out [][2]time.Time
	for i, a := range pts {
		out = append(out, [2]time.Time{a, {}}, [2]time.Time{{}, a})
		for j := i + 1; j < len(pts) && j <= i+11; j++ {
			out = append(out, [2]time.Time{a, pts[j]})
		}
	}
	return out
}

// ---------- the check ----------

func init() {
	register("C06", c06Run)
	registerReplay("C06", func(raw json.RawMessage) (bool, string) {
		var c c06Case
		if err := json.Unmarshal(raw, &c); err != nil {
			return false, err.Error()
		}
		held, want, obs := c06Judge(c.Filter, c.Object)
		return held, fmt.Sprintf("expected Match=%v observed %s", want == triTrue, obs)
	})
	registerReplay("C06-filter", func(raw json.RawMessage) (bool, string) {
		var c struct {
			Filter *caldav.CompFilter `json:"filter"`
			Objs   []rComp            `json:"objects"`
		}
		if err := json.Unmarshal(raw, &c); err != nil {
			return false, err.Error()
		}
		ok, d := c06FilterContract(c.Filter, c.Objs)
		return ok, d
	})
}

func c06FilterContract(f *caldav.CompFilter, objs []rComp) (bool, string) {
	cos := make([]caldav.CalendarObject, len(objs))
	var wantIdx []int
	open := false
	for i, o := range objs {
		cos[i] = caldav.CalendarObject{Path: fmt.Sprintf("/o%d.ics", i), ETag: fmt.Sprint(i), Data: &ical.Calendar{Component: o.build()}}
		if f != nil {
			switch refCalMatch(*f, o) {
			case triTrue:
				wantIdx = append(wantIdx, i)
			case triOpen:
				open = true
			}
		} else {
			wantIdx = append(wantIdx, i)
		}
	}
	if open {
		return true, "open"
	}
	var q *caldav.CalendarQuery
	if f != nil {
		q = &caldav.CalendarQuery{CompFilter: *f}
	}
	before := js(cos)
	var got []caldav.CalendarObject
	var err error
	pan := ""
	func() {
		defer func() {
			if p := recover(); p != nil {
				pan = fmt.Sprint(p)
			}
		}()
		got, err = caldav.Filter(q, cos)
	}()
	if pan != "" {
		return false, "panic: " + pan
	}
	if err != nil {
		return false, "error: " + err.Error()
	}
	if js(cos) != before {
		return false, "input objects modified"
	}
	var gotIdx []int
	for _, g := range got {
		found := -1
		for i := range cos {
			if g.Data == cos[i].Data && g.Path == cos[i].Path && g.ETag == cos[i].ETag {
				found = i
			}
		}
		if found < 0 {
			return false, "returned an object that is not (pointer-)equal to an input object: " + g.Path
		}
		gotIdx = append(gotIdx, found)
	}
	if fmt.Sprint(gotIdx) != fmt.Sprint(wantIdx) {
		return false, fmt.Sprintf("selected %v want %v", gotIdx, wantIdx)
	}
	return true, fmt.Sprintf("selected %v", gotIdx)
}

func c06Run(r *engine.Run) {
	full := thorough(r)
	r.Rule = "sub-space 1: every filter tree of the generated family (root x is-not-defined x prop-filters[text-match x negate x param-filter] x nested comp-filters up to depth 3, time-range hit/miss) x every VCALENDAR with <=2 children from 5 component kinds; sub-space 2: every (range, event) pair over interleaved hour/day grids incl. all equalities and open sides x 6 ways to state the end, also as prop-filter time-range; sub-space 3: DAILY/WEEKLY x INTERVAL x COUNT x duration x range grid; sub-space 4: Filter() selection on object lists. Non-trivial = the reference verdict is determined (not an RFC-open case) AND the same filter yields both verdicts across objects (structure) / the case is a distinct (relation class, end style) (intervals); distinct by full (filter, object)."
	r.Explanation = "caldav.Match / caldav.Filter are executed on every generated (filter, object) pair and compared with a three-valued evaluator written from RFC 4791 9.7-9.9 that reads the generator's neutral object description; failing filters are shrunk greedily to a minimal failing filter to compute the signature"
	r.Assumptions = []string{"objects have at most one instance of each property per component (multi-instance objects are outside the statement)", "time-range on non-VEVENT components is not judged", "go-ical date/duration parsing and rrule-go expansion are taken as given; instances are computed independently by arithmetic"}

	objs := c06Objects()
	roots := c06Roots(full)
	r.Extra["structure_filters"] = len(roots)
	r.Extra["structure_objects"] = len(objs)

	// sub-space 1
	r.Parallel(len(roots), func(i int, s *engine.Shard) {
		f := roots[i]
		nt, nf := 0, 0
		for oi, o := range objs {
			w := c06Check(s, "structure", int64(i)*64+int64(oi), f, o, "")
			if w == triTrue {
				nt++
			} else if w == triFalse {
				nf++
			}
			s.Outcome(fmt.Sprintf("structure/ref=%d", w))
		}
		if nt > 0 && nf > 0 {
			for oi := range objs {
				s.Nontrivial(fmt.Sprintf("S1/%d/%d", i, oi))
			}
			s.Count("structure filters whose verdict depends on the object")
		}
		if i%4001 == 17 {
			s.Sample(map[string]interface{}{"space": "structure", "filter": f, "object": objs[7], "ref": refCalMatch(f, objs[7]) == triTrue})
		}
	})
	base := int64(len(roots)) * 64

	// sub-space 2
	events := c06IntervalEvents()
	zones := []*time.Location{time.UTC}
	if full {
		zones = append(zones, time.FixedZone("+0530", 5*3600+1800), time.FixedZone("-0300", -3*3600))
	}
	for zi, z := range zones {
		z := z
		ranges := c06Ranges(z)
		r.Extra[fmt.Sprintf("interval_ranges_zone%d", zi)] = len(ranges)
		r.Parallel(len(ranges), func(i int, s *engine.Shard) {
			rg := ranges[i]
			for ei, ev := range events {
				f := caldav.CompFilter{Name: "VCALENDAR", Comps: []caldav.CompFilter{{Name: "VEVENT", Start: rg[0], End: rg[1]}}}
				rel := c06Relation(rg, ev.obj.Children[0].Instances[0])
				if z != time.UTC && strings.HasPrefix(ev.Style, "DATE") {
					// DATE values are floating; which zone they are read in is not part of the statement
					s.Count("not-demanded(floating DATE vs zoned range)")
					continue
				}
				w := c06Check(s, "interval", base+int64(i)*256+int64(ei), f, ev.obj, ev.Style+"."+rel)
				s.Outcome(fmt.Sprintf("interval/%s/ref=%d", ev.Style, w))
				s.Nontrivial("S2/" + ev.Style + "/" + rel)
				if i == 40 && ei == 3 {
					s.Sample(map[string]interface{}{"space": "interval", "start": rg[0], "end": rg[1], "event": ev.obj.Children[0].Props, "relation": rel, "ref": w == triTrue})
				}
			}
			// prop-filter time-range on a DATE-TIME property (DTSTART of each instant event)
			for ei, ev := range events {
				if ev.Style != "INSTANT" && !(strings.HasPrefix(ev.Style, "DATE") && z == time.UTC) {
					continue // DATE-TIME starts, and DATE starts (start of that day) against UTC ranges
				}
				f := caldav.CompFilter{Name: "VCALENDAR", Comps: []caldav.CompFilter{{Name: "VEVENT", Props: []caldav.PropFilter{{Name: "DTSTART", Start: rg[0], End: rg[1]}}}}}
				in := ev.obj.Children[0].Instances[0]
				rel := c06Relation(rg, in)
				w := c06Check(s, "prop-time-range", base+int64(i)*256+128+int64(ei), f, ev.obj, rel)
				s.Outcome(fmt.Sprintf("prop-time-range/ref=%d", w))
				s.Nontrivial("S2p/" + rel)
				// the same range together with a text-match on the property value (both must hold)
				if ei%4 == i%4 {
					for ti, tm := range []caldav.TextMatch{{Text: "2020"}, {Text: "NOPE"}, {Text: "2020", NegateCondition: true}, {Text: "NOPE", NegateCondition: true}} {
						tm := tm
						f2 := caldav.CompFilter{Name: "VCALENDAR", Comps: []caldav.CompFilter{{Name: "VEVENT", Props: []caldav.PropFilter{{Name: "DTSTART", Start: rg[0], End: rg[1], TextMatch: &tm}}}}}
						w2 := c06Check(s, "prop-time-range+text", base+int64(i)*256+128+int64(ei), f2, ev.obj, fmt.Sprintf("%s.text=%d", rel, ti))
						s.Outcome(fmt.Sprintf("prop-time-range+text/ref=%d", w2))
					}
				}
			}
		})
		base += int64(len(ranges)) * 256
	}

	// sub-space 3
	recs := c06Recurring()
	rr := c06RecRanges()
	r.Extra["recurrence_events"] = len(recs)
	r.Extra["recurrence_ranges"] = len(rr)
	r.Parallel(len(rr), func(i int, s *engine.Shard) {
		rg := rr[i]
		for ei, rc := range recs {
			f := caldav.CompFilter{Name: "VCALENDAR", Comps: []caldav.CompFilter{{Name: "VEVENT", Start: rg[0], End: rg[1]}}}
			// class: relation to the nearest instance that decides the verdict
			class := fmt.Sprintf("dur=%dh", rc.DurH)
			w := c06Check(s, "recurrence", base+int64(i)*128+int64(ei), f, rc.obj, class)
			s.Outcome(fmt.Sprintf("recurrence/dur=%d/ref=%d", rc.DurH, w))
			s.Nontrivial(fmt.Sprintf("S3/%d/%d", i, ei))
			if i == 33 && ei == 20 {
				s.Sample(map[string]interface{}{"space": "recurrence", "start": rg[0], "end": rg[1], "event": rc.obj.Children[0].Props, "ref": w == triTrue})
			}
		}
	})
	base += int64(len(rr)) * 128

	// long series: a thousand instances and more, no COUNT at all (the matcher must not stop looking after some
	// fixed number of instances)
	{
		sh := r.Shard()
		start := c06T0.Add(9 * time.Hour)
		k := 0
		for _, rule := range []string{"FREQ=DAILY;COUNT=1100", "FREQ=DAILY", "FREQ=DAILY;INTERVAL=2;COUNT=700"} {
			n, step := 1100, 24*time.Hour
			switch rule {
			case "FREQ=DAILY":
				n = 4000 // as many as the ranges below can reach
			case "FREQ=DAILY;INTERVAL=2;COUNT=700":
				n, step = 700, 48*time.Hour
			}
			var inst [][2]int64
			for i := 0; i < n; i++ {
				s0 := start.Add(time.Duration(i) * step)
				inst = append(inst, [2]int64{s0.Unix(), s0.Add(time.Hour).Unix()})
			}
			obj := rComp{Name: "VCALENDAR", Props: []rProp{{Name: "VERSION", Value: "2.0"}}, Children: []rComp{{Name: "VEVENT", HasTime: true, Instances: inst,
				Props: []rProp{{Name: "DTSTART", Value: c06fmt(start)}, {Name: "DURATION", Value: "PT1H"}, {Name: "RRULE", Value: rule}}}}}
			for _, day := range []int{0, 500, 999, 1000, 1001, 1050, 1099, 1100, 1101, 1398, 1399, 1400, 2000, 3500} {
				for _, hr := range [][2]int{{8, 9}, {9, 10}, {8, 12}, {10, 11}, {0, 24}} {
					f := caldav.CompFilter{Name: "VCALENDAR", Comps: []caldav.CompFilter{{Name: "VEVENT", Start: c06T0.AddDate(0, 0, day).Add(time.Duration(hr[0]) * time.Hour), End: c06T0.AddDate(0, 0, day).Add(time.Duration(hr[1]) * time.Hour)}}}
					w := c06Check(sh, "recurrence-long-series", base+int64(k), f, obj, fmt.Sprintf("rule=%s", rule))
					sh.Outcome(fmt.Sprintf("recurrence-long/ref=%d", w))
					sh.Nontrivial(fmt.Sprintf("S3L/%d", k))
					k++
				}
			}
		}
		// non-ASCII match texts (a text is found in a value by its bytes, whatever their number per character), and
		// property time ranges whose bounds lie centuries away (the customary "for ever": 9999-12-31)
		uobj := rComp{Name: "VCALENDAR", Props: []rProp{{Name: "VERSION", Value: "2.0"}}, Children: []rComp{{Name: "VEVENT", HasTime: true, Instances: [][2]int64{{start.Unix(), start.Add(time.Hour).Unix()}},
			Props: []rProp{{Name: "DTSTART", Value: c06fmt(start)}, {Name: "DURATION", Value: "PT1H"}, {Name: "SUMMARY", Value: "Café 会議室予約 \U0001F382"}, {Name: "LOCATION", Value: "\U0001F382"}}}}}
		for _, pn := range []string{"SUMMARY", "LOCATION"} {
			for _, tx := range []string{"Café", "会議", "\U0001F382", "é", "室予約 \U0001F382", "cafe", "会议", "\U0001F383"} {
				for _, neg := range []bool{false, true} {
					tm := caldav.TextMatch{Text: tx, NegateCondition: neg}
					f := caldav.CompFilter{Name: "VCALENDAR", Comps: []caldav.CompFilter{{Name: "VEVENT", Props: []caldav.PropFilter{{Name: pn, TextMatch: &tm}}}}}
					c06Check(sh, "text-match-non-ascii", base+int64(k), f, uobj, fmt.Sprintf("prop=%s.negate=%v", pn, neg))
					sh.Nontrivial(fmt.Sprintf("S3U/%d", k))
					k++
				}
			}
		}
		far0, far1 := time.Date(1600, 1, 1, 0, 0, 0, 0, time.UTC), time.Date(9999, 12, 31, 23, 59, 59, 0, time.UTC)
		for _, rg := range [][2]time.Time{{far0, far1}, {start.Add(-time.Hour), far1}, {far0, start}, {far0, start.Add(time.Second)}, {time.Date(2300, 1, 1, 0, 0, 0, 0, time.UTC), far1}, {far0, time.Date(1700, 1, 1, 0, 0, 0, 0, time.UTC)}, {start, far1}, {{}, far1}, {far0, {}}} {
			f := caldav.CompFilter{Name: "VCALENDAR", Comps: []caldav.CompFilter{{Name: "VEVENT", Props: []caldav.PropFilter{{Name: "DTSTART", Start: rg[0], End: rg[1]}}}}}
			c06Check(sh, "prop-time-range-far-bounds", base+int64(k), f, uobj, "far")
			k++
			f2 := caldav.CompFilter{Name: "VCALENDAR", Comps: []caldav.CompFilter{{Name: "VEVENT", Start: rg[0], End: rg[1]}}}
			c06Check(sh, "comp-time-range-far-bounds", base+int64(k), f2, uobj, "far")
			k++
		}
		r.Merge(sh)
		base += int64(k)
	}

	// sub-space 4: Filter() contract
	pool := []rComp{objs[1], objs[2], objs[3], objs[5], objs[12]}
	stepF := 7
	if full {
		stepF = 1
	}
	nF := (len(roots) + stepF - 1) / stepF
	r.Parallel(nF+1, func(i int, s *engine.Shard) {
		var f *caldav.CompFilter
		if i < nF {
			f = &roots[i*stepF]
		}
		s.Transition()
		ok, d := c06FilterContract(f, pool)
		if d == "open" {
			s.Count("not-demanded(open)")
			return
		}
		s.Clause("Filter: exact sub-list, order, identity, inputs unmodified")
		s.Outcome("filter/" + strings.SplitN(d, " ", 2)[0])
		s.Nontrivial(fmt.Sprintf("S4/%d", i))
		if !ok {
			kind := "query"
			if f == nil {
				kind = "nil-query"
			}
			s.Violate(engine.Violation{Sig: "C06/filter-contract/" + kind + "/" + strings.SplitN(d, ":", 2)[0], Clause: "filter", Index: base + int64(i), Kind: "C06-filter",
				Case: map[string]interface{}{"filter": f, "objects": pool}, Expected: "exactly the matching objects, in order, unmodified", Observed: d})
		}
	})
}
