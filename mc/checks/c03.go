package checks

import (
	"bufio"
	"encoding/json"
	"fmt"
	"net/http"
	"os"
	"path"
	"path/filepath"
	"sort"
	"strings"

	webdav "github.com/emersion/go-webdav"
	"github.com/emersion/go-webdav/verifmc/engine"
	"github.com/emersion/go-webdav/verifmc/harness"
	"github.com/emersion/go-webdav/verifmc/indep"
)

// C03 — the file server never touches anything outside the served directory.

var c03Tokens = []string{"/", "..", ".", "a", "g", "sib", "served2", "canary-up", "%2e%2e", "%2f", "%2e", `\`, `..\`, "\x00", "//", ";", "?x", "#x",
	// segments that become dot-dot once ill-formed UTF-8 is dropped or replaced
	"/.\xff./", "\xff..\xff/"}
var c03Sub12 = []string{"/", "..", ".", "a", "served2", "canary-up", "%2e%2e", "%2f", `\`, "\x00", "//", "sib"}
var c03Sub6 = []string{"/", "..", "a", "%2e%2e", `\`, "served2"}

func c03Strings(tokens []string, minLen, maxLen int) []string {
	var out []string
	level := []string{""}
	for l := 1; l <= maxLen; l++ {
		var next []string
		for _, p := range level {
			for _, t := range tokens {
				next = append(next, p+t)
			}
		}
		if l >= minLen {
			out = append(out, next...)
		}
		level = next
	}
	return out
}

const (
	canaryUp  = "CANARY-UP-9c1f"
	canarySib = "CANARY-SIB-77e2"
	canaryS2  = "CANARY-SERVED2-b0a4"
)

type c03Worker struct {
	base     string
	sb       string
	served   string
	start    harness.Tree
	stamp    string
	outside  string
	handler  *webdav.Handler
	n        int
	linkBase string
	spell    int    // how the served root is spelled when configuring the file system (fsRootSpellings)
	lastPath string // URL path the handler saw for the last request
}

func c03StartTrees() []harness.Tree {
	return []harness.Tree{
		{"/": {Dir: true}},
		{"/": {Dir: true}, "/a": {Dir: true}, "/a/f": {Content: "inside-af"}, "/g": {Content: "inside-g"}, "/%2e%2e": {Content: "inside-enc-dots"}, "/a%2fb": {Content: "inside-enc-slash"},
			"/a.": {Content: "inside-a-dot"}, "/g.": {Dir: true}, "/g./..x": {Content: "inside-dotdot-x"}, "/..a": {Content: "inside-dotdot-a"}},
		nil, // built by a real MKCOL+PUT+MOVE history
	}
}

func newC03Worker() *c03Worker {
	w := &c03Worker{base: harness.NewDir("h")}
	return w
}

func (w *c03Worker) close() { os.RemoveAll(w.base) }

func outsideSnapshot(sb string) string {
	var sb2 strings.Builder
	filepath.Walk(sb, func(p string, fi os.FileInfo, err error) error {
		if err != nil {
			fmt.Fprintf(&sb2, "ERR %s;", p)
			return nil
		}
		rel, _ := filepath.Rel(sb, p)
		if rel == "served" {
			fmt.Fprintf(&sb2, "served %v;", fi.Mode().IsDir())
			if fi.IsDir() {
				return filepath.SkipDir
			}
			return nil
		}
		if fi.IsDir() {
			fmt.Fprintf(&sb2, "%s/ %v;", rel, fi.Mode())
			if rel != "." {
				fmt.Fprintf(&sb2, "%d;", fi.ModTime().UnixNano())
			}
		} else {
			b, _ := os.ReadFile(p)
			fmt.Fprintf(&sb2, "%s %v %d %q;", rel, fi.Mode(), fi.ModTime().UnixNano(), b)
		}
		return nil
	})
	return sb2.String()
}

// build sets the sandbox up. A server that escapes its directory can take away the ground under this or
// another worker (the scratch directories of all workers share ancestors): setting up is retried on fresh ground.
func (w *c03Worker) build(start harness.Tree) {
	for try := 0; ; try++ {
		ok := func() (ok bool) {
			defer func() {
				if p := recover(); p != nil {
					if try >= 5 {
						panic(p)
					}
					ok = false
				}
			}()
			w.build1(start)
			return true
		}()
		if ok {
			return
		}
		w.base = harness.NewDir("h")
		w.sb = ""
	}
}

func (w *c03Worker) build1(start harness.Tree) {
	if w.sb != "" {
		os.RemoveAll(w.sb)
	}
	w.n++
	w.sb = filepath.Join(w.base, fmt.Sprintf("sb%d", w.n))
	os.MkdirAll(filepath.Join(w.sb, "sib"), 0o755)
	os.MkdirAll(filepath.Join(w.sb, "served2"), 0o755)
	os.WriteFile(filepath.Join(w.sb, "canary-up"), []byte(canaryUp), 0o644)
	os.WriteFile(filepath.Join(w.sb, "sib", "canary-sib"), []byte(canarySib), 0o644)
	os.WriteFile(filepath.Join(w.sb, "served2", "canary"), []byte(canaryS2), 0o644)
	w.served = filepath.Join(w.sb, "served")
	w.handler = &webdav.Handler{FileSystem: webdav.LocalFileSystem(spellRoot(w.served, w.spell))}
	if start == nil {
		harness.Materialise(w.served, harness.Tree{"/": {Dir: true}})
		for _, q := range []harness.Req{{Method: "MKCOL", Path: "/m"}, {Method: "PUT", Path: "/m/x", Body: "hist"}, {Method: "MOVE", Path: "/m", Header: map[string]string{"Destination": "/n"}}, {Method: "PUT", Path: "/g", Body: "hist-g"}} {
			harness.Serve(w.handler, q)
		}
		start, _ = harness.Snapshot(w.served)
		os.RemoveAll(w.served)
	}
	w.start = start
	harness.Materialise(w.served, start)
	_, w.stamp = harness.Snapshot(w.served)
	w.outside = outsideSnapshot(w.sb)
}

func (w *c03Worker) restore() {
	os.RemoveAll(w.served)
	harness.Materialise(w.served, w.start)
	_, w.stamp = harness.Snapshot(w.served)
}

type c03Req struct {
	harness.Req
	Form string `json:"form"` // url-path | request-line | destination
	Line string `json:"line,omitempty"`
}

// serve executes the request; ok=false if the request line does not parse (never reaches a handler).
func (w *c03Worker) serve(q c03Req) (resp harness.Resp, ok bool) {
	if q.Form == "request-line" {
		raw := q.Method + " " + q.Line + " HTTP/1.1\r\nHost: h\r\n"
		for k, v := range q.Header {
			raw += k + ": " + v + "\r\n"
		}
		raw += "Content-Length: 0\r\n\r\n"
		r, err := http.ReadRequest(bufio.NewReader(strings.NewReader(raw)))
		if err != nil {
			return resp, false
		}
		rq := harness.Req{Method: q.Method, Path: r.URL.Path, Raw: true, Header: q.Header}
		// run with exactly the URL the server parsed
		hr, cancel := rq.Build()
		defer cancel()
		hr.URL = r.URL
		hr.RequestURI = r.RequestURI
		w.lastPath = r.URL.Path
		return harness.ServeRequest(w.handler, hr), true
	}
	w.lastPath = q.Path
	return harness.Serve(w.handler, q.Req), true
}

type c03Case struct {
	Start harness.Tree `json:"start"`
	Req   c03Req       `json:"request"`
	Spell int          `json:"root_spelling,omitempty"`
}

// c03Judge runs one request and the oracle; returns clause/detail ("" if fine) and the visit for other oracles.
func (w *c03Worker) judge(q c03Req) (clause, detail string, resp harness.Resp, reached bool) {
	resp, reached = w.serve(q)
	if !reached {
		return "", "", resp, false
	}
	defer func() {
		// The sandbox of a worker is touched by nobody but the handler this worker drives. When it cannot be
		// put back (entries vanish or appear while it is being rebuilt) another handler instance - serving
		// another directory - has reached into it: the library touched something outside ITS served directory.
		defer func() {
			if p := recover(); p != nil {
				if clause == "" {
					clause, detail = "outside-modified", fmt.Sprintf("the sandbox of this worker was changed from outside while it was being restored (another root's handler reached into it): %v", p)
				}
				func() {
					defer func() { recover() }()
					w.build(w.start)
				}()
			}
		}()
		if _, st := harness.Snapshot(w.served); st != w.stamp {
			w.restore()
		}
	}()
	if resp.Panic != "" {
		return "panic", resp.Panic, resp, true
	}
	if out := outsideSnapshot(w.sb); out != w.outside {
		// rebuild everything: the outside was damaged
		defer w.build(w.start)
		return "outside-modified", fmt.Sprintf("outside changed: %s -> %s", trunc(w.outside, 300), trunc(out, 300)), resp, true
	}
	for _, tok := range []string{canaryUp, canarySib, canaryS2} {
		if strings.Contains(string(resp.Body), tok) {
			return "outside-read", "response body contains " + tok, resp, true
		}
		for _, vs := range resp.Header {
			for _, v := range vs {
				if strings.Contains(v, tok) {
					return "outside-read", "response header contains " + tok, resp, true
				}
			}
		}
	}
	if q.Form == "url-path" {
		cp := path.Clean(q.Path)
		if (strings.Contains(q.Path, "\x00") || !path.IsAbs(cp)) && (resp.Status < 400 || resp.Status > 499) {
			return "unmappable-path-not-refused", fmt.Sprintf("status %d", resp.Status), resp, true
		}
	}
	if resp.Status == 207 && q.Method == "PROPFIND" {
		after, _ := harness.Snapshot(w.served)
		ms, err := indep.ReadMultiStatus(resp.Body)
		if err != nil {
			return "multistatus-unreadable", err.Error(), resp, true
		}
		// the reported paths address exactly the resources in scope, each once: the target the request
		// path maps to, and its members down to the requested depth
		if target := path.Clean(w.lastPath); path.IsAbs(target) && q.Form != "destination" {
			var want []string
			if _, ok := after[target]; ok {
				for p := range after {
					rel := strings.TrimPrefix(p, strings.TrimSuffix(target, "/")+"/")
					switch {
					case p == target:
						want = append(want, p)
					case !strings.HasPrefix(p, strings.TrimSuffix(target, "/")+"/") || !after[target].Dir:
					case q.Header["Depth"] == "infinity":
						want = append(want, p)
					case q.Header["Depth"] == "1" && !strings.Contains(rel, "/"):
						want = append(want, p)
					}
				}
			}
			var got []string
			for _, r := range ms.Responses {
				for _, h := range r.Hrefs {
					if hp, err := indep.HrefPath(h); err == nil {
						got = append(got, path.Clean(hp))
					}
				}
			}
			sort.Strings(want)
			sort.Strings(got)
			if len(want) > 0 && strings.Join(got, "\x01") != strings.Join(want, "\x01") {
				return "href-scope", fmt.Sprintf("request path %q maps to %q; hrefs address %q, in scope are %q", w.lastPath, target, got, want), resp, true
			}
		}
		for _, r := range ms.Responses {
			for _, h := range r.Hrefs {
				hp, err := indep.HrefPath(h)
				if err != nil {
					return "href-undecodable", h, resp, true
				}
				cp := path.Clean(hp)
				if !path.IsAbs(hp) {
					return "href-not-absolute", h, resp, true
				}
				n, ok := after[cp]
				if !ok {
					return "href-outside-namespace", fmt.Sprintf("href %q cleans to %q which is not a served resource", h, cp), resp, true
				}
				isCol := false
				if rt := r.Prop(indep.DAV, "resourcetype"); len(rt) == 1 && rt[0].Node.First(indep.DAV, "collection") != nil {
					isCol = true
				}
				if isCol != n.Dir {
					return "href-kind-mismatch", fmt.Sprintf("href %q kind collection=%v but resource dir=%v", h, isCol, n.Dir), resp, true
				}
				// send the href back as a request path (decoded form, exactly as returned)
				back := harness.Serve(w.handler, harness.Req{Method: "PROPFIND", Path: hp, Raw: true, Header: map[string]string{"Depth": "0"}})
				if back.Status != 207 {
					return "href-not-addressable", fmt.Sprintf("PROPFIND %q -> %d", hp, back.Status), resp, true
				}
				ms2, err := indep.ReadMultiStatus(back.Body)
				if err != nil || len(ms2.Responses) != 1 {
					return "href-not-addressable", "second multistatus unreadable", resp, true
				}
				for _, local := range []string{"getcontentlength", "getetag"} {
					a, b := r.Prop(indep.DAV, local), ms2.Responses[0].Prop(indep.DAV, local)
					if len(a) == 1 && a[0].Status == 200 && (len(b) != 1 || strings.TrimSpace(a[0].Node.Text) != strings.TrimSpace(b[0].Node.Text)) {
						return "href-addresses-other-resource", fmt.Sprintf("%s differs for %q", local, h), resp, true
					}
				}
			}
		}
	}
	return "", "", resp, true
}

func c03PathClass(s string) string {
	var f []string
	has := func(sub string) bool { return strings.Contains(s, sub) }
	if has("..") {
		f = append(f, "dotdot")
	}
	if has("%2e") || has("%2f") {
		f = append(f, "pct")
	}
	if has(`\`) {
		f = append(f, "backslash")
	}
	if has("\x00") {
		f = append(f, "nul")
	}
	if has("//") {
		f = append(f, "dblslash")
	}
	if has("?") || has("#") || has(";") {
		f = append(f, "urlmeta")
	}
	if !strings.HasPrefix(s, "/") {
		f = append(f, "relative")
	}
	if len(f) == 0 {
		return "plain"
	}
	sort.Strings(f)
	return strings.Join(f, "+")
}

// c03Requests builds every request form for one hostile string.
func c03Requests(s string) []c03Req {
	var out []c03Req
	add := func(m string, hdr map[string]string, body string) {
		out = append(out, c03Req{Req: harness.Req{Method: m, Path: s, Raw: true, Header: hdr, Body: body}, Form: "url-path"})
		out = append(out, c03Req{Req: harness.Req{Method: m, Path: s, Header: hdr}, Form: "request-line", Line: s})
	}
	for _, m := range []string{"OPTIONS", "GET", "HEAD", "DELETE", "MKCOL"} {
		add(m, nil, "")
	}
	out = append(out, c03Req{Req: harness.Req{Method: "PUT", Path: s, Raw: true, Body: "hostile-put"}, Form: "url-path"})
	add("PROPFIND", map[string]string{"Depth": "0"}, "")
	add("PROPFIND", map[string]string{"Depth": "1"}, "")
	add("PROPFIND", map[string]string{"Depth": "infinity"}, "")
	add("COPY", map[string]string{"Destination": "/dst-copy"}, "")
	add("MOVE", map[string]string{"Destination": "/dst-move"}, "")
	for _, m := range []string{"COPY", "MOVE"} {
		for _, src := range []string{"/g", "/a", "/..a"} {
			for _, ow := range []string{"T", "F"} {
				for _, pre := range []string{"", "http://h", "//h"} {
					if pre != "" && !strings.HasPrefix(s, "/") {
						// keep the authority separated from the path
						continue
					}
					out = append(out, c03Req{Req: harness.Req{Method: m, Path: src, Header: map[string]string{"Destination": pre + s, "Overwrite": ow}}, Form: "destination"})
				}
			}
		}
	}
	return out
}

// c03Explore runs the hostile-path exploration; visit (optional) lets other properties scan the responses.
func c03Explore(r *engine.Run, quick bool, visit func(v *fsVisit)) {
	var strs []string
	if quick {
		strs = append(c03Strings(c03Tokens, 1, 3), c03Strings(c03Sub6, 4, 4)...)
	} else {
		strs = append(c03Strings(c03Tokens, 1, 4), c03Strings(c03Sub6, 5, 5)...)
	}
	r.Extra["hostile_strings"] = len(strs)
	c03ExploreSpell(r, strs, 0, visit)
	// the same sandbox with the served root configured in other spellings, over the short strings
	short := c03Strings(c03Tokens, 1, 2)
	if !quick {
		short = c03Strings(c03Tokens, 1, 3)
	}
	for sp := 1; sp < len(fsRootSpellings); sp++ {
		c03ExploreSpell(r, short, sp, visit)
	}
	r.Extra["root_spellings"] = fsRootSpellings
	r.Extra["hostile_strings_per_other_spelling"] = len(short)
}

func c03ExploreSpell(r *engine.Run, strs []string, spell int, visit func(v *fsVisit)) {
	starts := c03StartTrees()
	const block = 64
	nb := (len(strs) + block - 1) / block
	workers := make(chan *c03Worker, 64)
	r.Parallel(nb*len(starts), func(i int, s *engine.Shard) {
		si, bi := i%len(starts), i/len(starts)
		var w *c03Worker
		select {
		case w = <-workers:
		default:
			w = newC03Worker()
		}
		defer func() { workers <- w }()
		w.spell = spell
		w.build(starts[si])
		if bi == 0 {
			s.State()
		}
		for k := bi * block; k < (bi+1)*block && k < len(strs); k++ {
			for qi, q := range c03Requests(strs[k]) {
				clause, detail, resp, reached := w.judge(q)
				if !reached {
					s.Count("request line rejected by the HTTP parser (never reaches the handler)")
					continue
				}
				s.Transition()
				idx := (int64(spell)<<56 | int64(si)<<40 | int64(k)<<8 | int64(qi)) + 1<<50
				if visit != nil {
					visit(&fsVisit{S: s, Index: idx, State: w.start, Req: q.Req, Resp: resp, After: w.start, Root: w.served, RootReal: w.served, Spell: spell})
					continue
				}
				s.Clause("outside snapshot identical; no canary in response; hrefs inside namespace and addressable; unmappable path refused")
				s.Outcome(fmt.Sprintf("%s/%s/%d", q.Form, q.Method, resp.Status))
				if c03PathClass(strs[k]) != "plain" {
					s.Nontrivial(fmt.Sprintf("%d|%s|%d", si, strs[k], qi))
				}
				if k%4099 == 77 && qi == 3 {
					s.Sample(map[string]interface{}{"start_tree": si, "form": q.Form, "request": q.Req.String(), "status": resp.Status})
				}
				if clause != "" {
					s.Violate(engine.Violation{Sig: fmt.Sprintf("C03/%s/%s.%s/%s/status=%d%s", clause, q.Method, q.Form, c03PathClass(strs[k]), resp.Status, map[bool]string{false: "", true: "/root=" + fsRootSpellings[spell]}[spell != 0]), Clause: clause, Index: idx, Kind: "C03",
						Case: c03Case{Start: w.start, Req: q, Spell: spell}, Expected: "nothing outside the served directory read or changed; hrefs inside the namespace; unmappable paths refused 4xx",
						Observed: fmt.Sprintf("status %d: %s", resp.Status, detail)})
				}
			}
		}
	})
	close(workers)
	for w := range workers {
		w.close()
	}
}

func init() {
	register("C03", func(r *engine.Run) {
		quick := !thorough(r)
		r.Rule = "every string of 1..L tokens over 20 traversal tokens (incl. two that turn into dot-dot when ill-formed UTF-8 is dropped) (L=3 full + L=4 on 6 tokens quick; L=4 full + L=5 on 6 tokens thorough) used as URL.Path verbatim, as raw request-target (when net/http parses it), and as Destination header (bare, http://h-prefixed, //h-prefixed) x every method x 3 start trees (empty, tree with look-alike encoded names, tree produced by a real MKCOL/PUT/MOVE history); non-trivial = the string contains a traversal feature (dot-dot, percent-encoding, backslash, NUL, double slash, URL metacharacter, relative); distinct by (start tree, string, request form); plus, before anything else is served in the process, every ordered pair of a 20-request alphabet on two handlers over two different directories (first on A, then on B)"
		r.Explanation = "explicit-state exploration over hostile paths with a model-free oracle: a byte-exact snapshot (content, entry list, modes, mtimes) of everything in the sandbox outside the served directory must be unchanged after every request, no canary token may appear in a response, every multistatus href must clean to a served resource of the same kind and be addressable again, and unmappable paths must be refused 4xx"
		r.Assumptions = []string{"the mapping path -> file name is stateless, so three start trees suffice (stated assumption)", "symlinks placed inside the served directory are outside the statement"}
		defer harness.Cleanup()
		c03TwoRoots(r)
		c03Explore(r, quick, nil)
	})
	registerReplay("C03", func(raw json.RawMessage) (bool, string) {
		var c c03Case
		if err := json.Unmarshal(raw, &c); err != nil {
			return false, err.Error()
		}
		defer harness.Cleanup()
		w := newC03Worker()
		defer w.close()
		w.spell = c.Spell
		w.build(c.Start)
		clause, detail, resp, reached := w.judge(c.Req)
		return clause == "", fmt.Sprintf("reached=%v status %d %s %s", reached, resp.Status, clause, detail)
	})
}
