package checks

import (
	"bytes"
	"context"
	"encoding/json"
	"fmt"
	"net/http"
	"reflect"
	"strconv"
	"strings"
	"time"

	"github.com/emersion/go-ical"
	"github.com/emersion/go-vcard"
	webdav "github.com/emersion/go-webdav"
	"github.com/emersion/go-webdav/caldav"
	"github.com/emersion/go-webdav/carddav"
	"github.com/emersion/go-webdav/verifmc/engine"
	"github.com/emersion/go-webdav/verifmc/harness"
	"github.com/emersion/go-webdav/verifmc/indep"
)

// C10 — calendars, address books and their objects reach the client unchanged.

// ---------- content families ----------

type docFeature struct {
	Name   string
	Prop   string
	Value  string // raw (already escaped) value
	Params map[string]string
}

var c10Features = []docFeature{
	{"escaped-comma-semicolon", "SUMMARY", `a\, b\; c`, nil},
	{"escaped-backslash", "DESCRIPTION", `back\\slash`, nil},
	{"escaped-newline", "LOCATION", `line1\nline2`, nil},
	{"long-line", "COMMENT", strings.Repeat("0123456789", 20), nil},
	{"multi-valued", "CATEGORIES", "one,two,three", nil},
	{"quoted-param", "CONTACT", "mailto:x@example.com", map[string]string{"CN": "Doe, John; Jr."}},
	{"non-ascii", "X-NOTE", "é 日本 ü", nil},
	{"cdata-end-and-xml-meta", "X-XML", "a ]]> b & c < d > e \" f '", nil},
	{"empty-value", "X-EMPTY", "", nil},
	{"leading-trailing-space", "X-SPACE", "  padded  ", nil},
	// shapes of the calendar as a whole ("any iCalendar content"): the transport must not judge them
	{"cal-method", "@method", "PUBLISH", nil},
	{"cal-two-uids", "@second-event", "uid-2", nil},
	{"cal-mixed-types", "@todo", "uid-1", nil},
	{"cal-timezone-first", "@timezone", "Europe/Test", nil},
}

func c10Calendar(fs []docFeature) *ical.Calendar {
	cal := harness.SampleCalendar("uid-1", "base")
	ev := cal.Children[0]
	for _, f := range fs {
		switch f.Prop {
		case "@method":
			cal.Props.SetText(ical.PropMethod, f.Value)
			continue
		case "@second-event", "@todo":
			name := ical.CompEvent
			if f.Prop == "@todo" {
				name = ical.CompToDo
			}
			c := ical.NewComponent(name)
			c.Props.SetText(ical.PropUID, f.Value)
			st := ical.NewProp(ical.PropDateTimeStamp)
			st.Value = "20200101T000000Z"
			c.Props.Set(st)
			cal.Children = append(cal.Children, c)
			continue
		case "@timezone":
			tz := ical.NewComponent(ical.CompTimezone)
			tz.Props.SetText(ical.PropTimezoneID, f.Value)
			std := ical.NewComponent(ical.CompTimezoneStandard)
			for _, kv := range [][2]string{{ical.PropDateTimeStart, "19701025T030000"}, {ical.PropTimezoneOffsetFrom, "+0200"}, {ical.PropTimezoneOffsetTo, "+0100"}} {
				q := ical.NewProp(kv[0])
				q.Value = kv[1]
				std.Props.Set(q)
			}
			tz.Children = append(tz.Children, std)
			cal.Children = append([]*ical.Component{tz}, cal.Children...)
			ev = cal.Children[1]
			continue
		}
		p := ical.NewProp(f.Prop)
		p.Value = f.Value
		for k, v := range f.Params {
			p.Params.Set(k, v)
		}
		ev.Props.Set(p)
	}
	return cal
}

func c10Card(fs []docFeature) vcard.Card {
	c := harness.SampleCard("base")
	for _, f := range fs {
		name := f.Prop
		if strings.HasPrefix(name, "@") {
			continue // calendar shapes have no vCard counterpart
		}
		switch name {
		case "SUMMARY":
			name = "NOTE"
		case "DESCRIPTION":
			name = "TITLE"
		case "LOCATION":
			name = "ROLE"
		case "COMMENT":
			name = "X-LONG"
		case "CONTACT":
			name = "EMAIL"
		}
		fld := &vcard.Field{Value: f.Value}
		if f.Params != nil {
			fld.Params = vcard.Params{}
			for k, v := range f.Params {
				fld.Params.Set(k, v)
			}
		}
		c[name] = []*vcard.Field{fld}
	}
	return c
}

func icalRoundTrip(cal *ical.Calendar) (*ical.Calendar, error) {
	var buf bytes.Buffer
	if err := ical.NewEncoder(&buf).Encode(cal); err != nil {
		return nil, err
	}
	return ical.NewDecoder(&buf).Decode()
}

func vcardRoundTrip(c vcard.Card) (vcard.Card, error) {
	var buf bytes.Buffer
	if err := vcard.NewEncoder(&buf).Encode(c); err != nil {
		return nil, err
	}
	return vcard.NewDecoder(&buf).Decode()
}

func featureSets(full bool) [][]docFeature {
	var out [][]docFeature
	out = append(out, nil)
	for _, f := range c10Features {
		out = append(out, []docFeature{f})
	}
	for i, a := range c10Features {
		for _, b := range c10Features[i+1:] {
			if a.Prop != b.Prop {
				out = append(out, []docFeature{a, b})
			}
		}
	}
	if full {
		out = append(out, c10Features)
	}
	return out
}

func featNames(fs []docFeature) string {
	var l []string
	for _, f := range fs {
		l = append(l, f.Name)
	}
	if len(l) == 0 {
		return "plain"
	}
	return strings.Join(l, "+")
}

var c10ETags = []string{"t1", `a"b`, `a\b`, "a b", "a,b", "é", ""}
var c10Times = []time.Time{time.Unix(1600000000, 0).UTC(), time.Unix(1599999999, 999999999).UTC(), time.Date(9999, 12, 31, 23, 59, 59, 0, time.UTC), time.Unix(1600000000, 0).In(time.FixedZone("z", 5*3600+1800)), {}}

// ---------- part A: objects through real server and client ----------

type c10ACase struct {
	Kind  string `json:"kind"`
	Name  string `json:"name"`
	Feats int    `json:"feature_set"`
	Meta  int    `json:"meta"`
	Op    string `json:"op"` // get | multiget | query | put
}

func sameObj(kind string, gotPath, wantPath, gotTag, wantTag string, gotMT, wantMT time.Time) string {
	if gotPath != wantPath {
		return fmt.Sprintf("path %q want %q", gotPath, wantPath)
	}
	if gotTag != wantTag {
		return fmt.Sprintf("etag %q want %q", gotTag, wantTag)
	}
	if gotMT.Unix() != wantMT.Unix() && !(gotMT.IsZero() && wantMT.IsZero()) {
		return fmt.Sprintf("modtime %v want %v", gotMT.UTC(), wantMT.UTC())
	}
	return ""
}

func c10JudgeA(c c10ACase, sets [][]docFeature) (clause, detail string) {
	defer func() {
		if p := recover(); p != nil {
			clause, detail = "panic", fmt.Sprint(p)
		}
	}()
	fs := sets[c.Feats%len(sets)]
	etag := c10ETags[c.Meta%len(c10ETags)]
	mt := c10Times[(c.Meta/len(c10ETags))%len(c10Times)]
	coll := "/u/c/k1/"
	p := coll + c.Name
	ctx := context.Background()
	if c.Kind == "caldav" {
		cal := c10Calendar(fs)
		want, err := icalRoundTrip(cal)
		if err != nil {
			return "generator-bug", err.Error()
		}
		b := &harness.CalBackend{Principal: "/u/", HomeSet: "/u/c/", Calendars: []caldav.Calendar{{Path: coll}},
			Objects: []caldav.CalendarObject{{Path: p, ETag: etag, ModTime: mt, ContentLength: 321, Data: cal}}}
		w := &harness.Wire{Handler: &caldav.Handler{Backend: b}}
		cl, err := caldav.NewClient(w.Client(), "http://h/")
		if err != nil {
			return "client", err.Error()
		}
		check := func(o *caldav.CalendarObject) (string, string) {
			if d := sameObj("caldav", o.Path, p, o.ETag, etag, o.ModTime, mt); d != "" {
				return "metadata", d
			}
			if o.Data == nil || !reflect.DeepEqual(o.Data.Component, want.Component) {
				return "content", fmt.Sprintf("got %s want %s", dumpIcal(o.Data), dumpIcal(want))
			}
			return "", ""
		}
		switch c.Op {
		case "get":
			o, err := cl.GetCalendarObject(ctx, p)
			if err != nil {
				return "get-error", err.Error()
			}
			if cl, d := check(o); cl != "" {
				return "get-" + cl, d
			}
		case "multiget":
			l, err := cl.MultiGetCalendar(ctx, coll, &caldav.CalendarMultiGet{Paths: []string{p}, CompRequest: caldav.CalendarCompRequest{Name: "VCALENDAR", AllProps: true, AllComps: true}})
			if err != nil || len(l) != 1 {
				return "multiget-error", fmt.Sprintf("%d objects, %v", len(l), err)
			}
			if cl, d := check(&l[0]); cl != "" {
				return "multiget-" + cl, d
			}
		case "query":
			l, err := cl.QueryCalendar(ctx, coll, &caldav.CalendarQuery{CompRequest: caldav.CalendarCompRequest{Name: "VCALENDAR", AllProps: true, AllComps: true}, CompFilter: caldav.CompFilter{Name: "VCALENDAR"}})
			if err != nil || len(l) != 1 {
				return "query-error", fmt.Sprintf("%d objects, %v", len(l), err)
			}
			if cl, d := check(&l[0]); cl != "" {
				return "query-" + cl, d
			}
		case "put":
			ret := &caldav.CalendarObject{Path: coll + "stored-" + c.Name, ETag: etag, ModTime: mt}
			b.PutResult = ret
			o, err := cl.PutCalendarObject(ctx, p, cal)
			if err != nil {
				return "put-error", err.Error()
			}
			var arg *harness.PutArg
			for _, call := range b.Snapshot() {
				if call.Method == "PutCalendarObject" {
					a := call.Arg.(harness.PutArg)
					arg = &a
					if call.Path != p {
						return "put-path", fmt.Sprintf("backend got %q want %q", call.Path, p)
					}
				}
			}
			if arg == nil {
				return "put-not-delivered", ""
			}
			if !reflect.DeepEqual(arg.Cal.Component, want.Component) {
				return "put-content", fmt.Sprintf("backend got %s want %s", dumpIcal(arg.Cal), dumpIcal(want))
			}
			if d := sameObj("caldav", o.Path, ret.Path, o.ETag, ret.ETag, o.ModTime, ret.ModTime); d != "" {
				return "put-result", d
			}
		case "put-same", "put-rel":
			// the backend stores the object under the very path it was sent to; the client is addressed through
			// an endpoint with a path and (put-rel) names the object relative to it: the result is the BACKEND's path
			ret := &caldav.CalendarObject{Path: p, ETag: etag, ModTime: mt}
			b.PutResult = ret
			cl2, err := caldav.NewClient(w.Client(), "http://h/u/c/")
			if err != nil {
				return "client", err.Error()
			}
			name := p
			if c.Op == "put-rel" {
				name = strings.TrimPrefix(p, "/u/c/")
			}
			o, err := cl2.PutCalendarObject(ctx, name, cal)
			if err != nil {
				return "put-error", err.Error()
			}
			delivered := false
			for _, call := range b.Snapshot() {
				if call.Method == "PutCalendarObject" {
					delivered = true
					if call.Path != p {
						return "put-path", fmt.Sprintf("backend got %q want %q", call.Path, p)
					}
				}
			}
			if !delivered {
				return "put-not-delivered", ""
			}
			if d := sameObj("caldav", o.Path, ret.Path, o.ETag, ret.ETag, o.ModTime, ret.ModTime); d != "" {
				return "put-result", d
			}
		}
		return "", ""
	}
	card := c10Card(fs)
	want, err := vcardRoundTrip(card)
	if err != nil {
		return "generator-bug", err.Error()
	}
	b := &harness.CardBackend{Principal: "/u/", HomeSet: "/u/c/", Books: []carddav.AddressBook{{Path: coll}},
		Objects: []carddav.AddressObject{{Path: p, ETag: etag, ModTime: mt, ContentLength: 321, Card: card}}}
	w := &harness.Wire{Handler: &carddav.Handler{Backend: b}}
	cl, err := carddav.NewClient(w.Client(), "http://h/")
	if err != nil {
		return "client", err.Error()
	}
	check := func(o *carddav.AddressObject) (string, string) {
		if d := sameObj("carddav", o.Path, p, o.ETag, etag, o.ModTime, mt); d != "" {
			return "metadata", d
		}
		if !reflect.DeepEqual(o.Card, want) {
			return "content", fmt.Sprintf("got %s want %s", dumpCard(o.Card), dumpCard(want))
		}
		return "", ""
	}
	switch c.Op {
	case "get":
		o, err := cl.GetAddressObject(ctx, p)
		if err != nil {
			return "get-error", err.Error()
		}
		if cl, d := check(o); cl != "" {
			return "get-" + cl, d
		}
	case "multiget":
		l, err := cl.MultiGetAddressBook(ctx, coll, &carddav.AddressBookMultiGet{Paths: []string{p}, DataRequest: carddav.AddressDataRequest{AllProp: true}})
		if err != nil || len(l) != 1 {
			return "multiget-error", fmt.Sprintf("%d objects, %v", len(l), err)
		}
		if cl, d := check(&l[0]); cl != "" {
			return "multiget-" + cl, d
		}
	case "query":
		l, err := cl.QueryAddressBook(ctx, coll, &carddav.AddressBookQuery{DataRequest: carddav.AddressDataRequest{AllProp: true}, PropFilters: []carddav.PropFilter{{Name: "FN"}}})
		if err != nil || len(l) != 1 {
			return "query-error", fmt.Sprintf("%d objects, %v", len(l), err)
		}
		if cl, d := check(&l[0]); cl != "" {
			return "query-" + cl, d
		}
	case "put":
		ret := &carddav.AddressObject{Path: coll + "stored-" + c.Name, ETag: etag, ModTime: mt}
		b.PutResult = ret
		o, err := cl.PutAddressObject(ctx, p, card)
		if err != nil {
			return "put-error", err.Error()
		}
		var arg *harness.PutArg
		for _, call := range b.Snapshot() {
			if call.Method == "PutAddressObject" {
				a := call.Arg.(harness.PutArg)
				arg = &a
				if call.Path != p {
					return "put-path", fmt.Sprintf("backend got %q want %q", call.Path, p)
				}
			}
		}
		if arg == nil {
			return "put-not-delivered", ""
		}
		if !reflect.DeepEqual(arg.Card, want) {
			return "put-content", fmt.Sprintf("backend got %s want %s", dumpCard(arg.Card), dumpCard(want))
		}
		if d := sameObj("carddav", o.Path, ret.Path, o.ETag, ret.ETag, o.ModTime, ret.ModTime); d != "" {
			return "put-result", d
		}
	case "put-same", "put-rel":
		// the backend stores the object under the very path it was sent to; the client is addressed through
		// an endpoint with a path and (put-rel) names the object relative to it: the result is the BACKEND's path
		ret := &carddav.AddressObject{Path: p, ETag: etag, ModTime: mt}
		b.PutResult = ret
		cl2, err := carddav.NewClient(w.Client(), "http://h/u/c/")
		if err != nil {
			return "client", err.Error()
		}
		name := p
		if c.Op == "put-rel" {
			name = strings.TrimPrefix(p, "/u/c/")
		}
		o, err := cl2.PutAddressObject(ctx, name, card)
		if err != nil {
			return "put-error", err.Error()
		}
		delivered := false
		for _, call := range b.Snapshot() {
			if call.Method == "PutAddressObject" {
				delivered = true
				if call.Path != p {
					return "put-path", fmt.Sprintf("backend got %q want %q", call.Path, p)
				}
			}
		}
		if !delivered {
			return "put-not-delivered", ""
		}
		if d := sameObj("carddav", o.Path, ret.Path, o.ETag, ret.ETag, o.ModTime, ret.ModTime); d != "" {
			return "put-result", d
		}
	}
	return "", ""
}

func dumpIcal(c *ical.Calendar) string {
	if c == nil {
		return "<nil>"
	}
	var buf bytes.Buffer
	if err := ical.NewEncoder(&buf).Encode(c); err != nil {
		return fmt.Sprintf("%+v", c.Component)
	}
	return strconv.Quote(buf.String())
}

func dumpCard(c vcard.Card) string {
	var buf bytes.Buffer
	vcard.NewEncoder(&buf).Encode(c)
	return strconv.Quote(buf.String())
}

// ---------- part E: lists whose later items lack optional values that earlier items have ----------

func c10JudgeE(kind, call string, order int) (clause, detail string) {
	defer func() {
		if p := recover(); p != nil {
			clause, detail = "panic", fmt.Sprint(p)
		}
	}()
	ctx := context.Background()
	mt := time.Unix(1600000000, 0).UTC()
	coll := "/u/c/k1/"
	// item "rich" has every optional value, item "bare" has none; order decides which comes first
	names := []string{"a-rich", "b-bare"}
	if order == 1 {
		names = []string{"a-bare", "b-rich"}
	}
	if kind == "caldav" {
		var objs []caldav.CalendarObject
		var cals []caldav.Calendar
		for _, n := range names {
			o := caldav.CalendarObject{Path: coll + n + ".ics", Data: harness.SampleCalendar(n, n)}
			c := caldav.Calendar{Path: "/u/c/" + n + "/"}
			if strings.HasSuffix(n, "rich") {
				o.ETag, o.ModTime, o.ContentLength = "tag-"+n, mt, 99
				c.Name, c.Description, c.MaxResourceSize, c.SupportedComponentSet = "N", "D", 77, []string{"VTODO"}
			}
			objs = append(objs, o)
			cals = append(cals, c)
		}
		b := &harness.CalBackend{Principal: "/u/", HomeSet: "/u/c/", Calendars: append([]caldav.Calendar{{Path: coll}}, cals...), Objects: objs}
		cl, _ := caldav.NewClient((&harness.Wire{Handler: &caldav.Handler{Backend: b}}).Client(), "http://h/")
		var got []caldav.CalendarObject
		var err error
		switch call {
		case "multiget":
			got, err = cl.MultiGetCalendar(ctx, coll, &caldav.CalendarMultiGet{Paths: []string{objs[0].Path, objs[1].Path}, CompRequest: caldav.CalendarCompRequest{Name: "VCALENDAR", AllProps: true, AllComps: true}})
		case "query":
			got, err = cl.QueryCalendar(ctx, coll, &caldav.CalendarQuery{CompRequest: caldav.CalendarCompRequest{Name: "VCALENDAR", AllProps: true, AllComps: true}, CompFilter: caldav.CompFilter{Name: "VCALENDAR"}})
		case "find":
			l, err := cl.FindCalendars(ctx, "/u/c/")
			if err != nil || len(l) != 3 {
				return "find-error", fmt.Sprintf("%d, %v", len(l), err)
			}
			for i, w := range cals {
				if w.SupportedComponentSet == nil {
					w.SupportedComponentSet = []string{"VEVENT"}
				}
				if !reflect.DeepEqual(l[i+1], w) {
					return "collection-differs", fmt.Sprintf("got %+v want %+v", l[i+1], w)
				}
			}
			return "", ""
		}
		if err != nil || len(got) != 2 {
			return call + "-error", fmt.Sprintf("%d objects, %v", len(got), err)
		}
		for i, o := range got {
			if d := sameObj(kind, o.Path, objs[i].Path, o.ETag, objs[i].ETag, o.ModTime, objs[i].ModTime); d != "" {
				return call + "-metadata", d
			}
		}
		return "", ""
	}
	var objs []carddav.AddressObject
	var books []carddav.AddressBook
	for _, n := range names {
		o := carddav.AddressObject{Path: coll + n + ".vcf", Card: harness.SampleCard(n)}
		c := carddav.AddressBook{Path: "/u/c/" + n + "/"}
		if strings.HasSuffix(n, "rich") {
			o.ETag, o.ModTime, o.ContentLength = "tag-"+n, mt, 99
			c.Name, c.Description, c.MaxResourceSize = "N", "D", 77
		}
		objs = append(objs, o)
		books = append(books, c)
	}
	b := &harness.CardBackend{Principal: "/u/", HomeSet: "/u/c/", Books: append([]carddav.AddressBook{{Path: coll}}, books...), Objects: objs}
	cl, _ := carddav.NewClient((&harness.Wire{Handler: &carddav.Handler{Backend: b}}).Client(), "http://h/")
	var got []carddav.AddressObject
	var err error
	switch call {
	case "multiget":
		got, err = cl.MultiGetAddressBook(ctx, coll, &carddav.AddressBookMultiGet{Paths: []string{objs[0].Path, objs[1].Path}, DataRequest: carddav.AddressDataRequest{AllProp: true}})
	case "query":
		got, err = cl.QueryAddressBook(ctx, coll, &carddav.AddressBookQuery{DataRequest: carddav.AddressDataRequest{AllProp: true}, PropFilters: []carddav.PropFilter{{Name: "FN"}}})
	case "find":
		l, err := cl.FindAddressBooks(ctx, "/u/c/")
		if err != nil || len(l) != 3 {
			return "find-error", fmt.Sprintf("%d, %v", len(l), err)
		}
		for i, w := range books {
			g := l[i+1]
			g.SupportedAddressData = nil
			if !reflect.DeepEqual(g, w) {
				return "collection-differs", fmt.Sprintf("got %+v want %+v", g, w)
			}
		}
		return "", ""
	}
	if err != nil || len(got) != 2 {
		return call + "-error", fmt.Sprintf("%d objects, %v", len(got), err)
	}
	for i, o := range got {
		if d := sameObj(kind, o.Path, objs[i].Path, o.ETag, objs[i].ETag, o.ModTime, objs[i].ModTime); d != "" {
			return call + "-metadata", d
		}
	}
	return "", ""
}

// ---------- part B: collections ----------

type c10BCase struct {
	Kind string `json:"kind"`
	Name string `json:"path_name"`
	Disp int    `json:"display"`
	Desc int    `json:"description"`
	Max  int    `json:"max"`
	Set  int    `json:"set"`
}

var c10Strings = []string{"", "x", " a<b&c ", "é\n日本", strings.Repeat("long ", 60)}
var c10Max = []int64{0, 1, 1<<63 - 1}
var c10Sets = [][]string{nil, {"VEVENT"}, {"VTODO", "VJOURNAL"}, {}}

func c10JudgeB(c c10BCase) (clause, detail string) {
	defer func() {
		if p := recover(); p != nil {
			clause, detail = "panic", fmt.Sprint(p)
		}
	}()
	ctx := context.Background()
	p1, p2 := "/u/c/"+c.Name+"/", "/u/c/second"
	if c.Kind == "caldav" {
		cals := []caldav.Calendar{{Path: p1, Name: c10Strings[c.Disp], Description: c10Strings[c.Desc], MaxResourceSize: c10Max[c.Max], SupportedComponentSet: c10Sets[c.Set]}, {Path: p2}}
		b := &harness.CalBackend{Principal: "/u/", HomeSet: "/u/c/", Calendars: cals}
		cl, _ := caldav.NewClient((&harness.Wire{Handler: &caldav.Handler{Backend: b}}).Client(), "http://h/")
		got, err := cl.FindCalendars(ctx, "/u/c/")
		if err != nil || len(got) != 2 {
			return "find-error", fmt.Sprintf("%d calendars, %v", len(got), err)
		}
		for i, w := range cals {
			if w.SupportedComponentSet == nil {
				w.SupportedComponentSet = []string{"VEVENT"} // the server's documented default
			}
			if !reflect.DeepEqual(got[i], w) {
				return "collection-differs", fmt.Sprintf("got %+v want %+v", got[i], w)
			}
		}
		return "", ""
	}
	books := []carddav.AddressBook{{Path: p1, Name: c10Strings[c.Disp], Description: c10Strings[c.Desc], MaxResourceSize: c10Max[c.Max]}, {Path: p2}}
	b := &harness.CardBackend{Principal: "/u/", HomeSet: "/u/c/", Books: books}
	cl, _ := carddav.NewClient((&harness.Wire{Handler: &carddav.Handler{Backend: b}}).Client(), "http://h/")
	got, err := cl.FindAddressBooks(ctx, "/u/c/")
	if err != nil || len(got) != 2 {
		return "find-error", fmt.Sprintf("%d address books, %v", len(got), err)
	}
	for i, w := range books {
		g := got[i]
		g.SupportedAddressData = nil // not part of the statement (the server always announces 3.0 and 4.0)
		if !reflect.DeepEqual(g, w) {
			return "collection-differs", fmt.Sprintf("got %+v want %+v", g, w)
		}
	}
	return "", ""
}

// ---------- part C: multiget per-href outcome (raw multistatus read independently) ----------

var c10Outcomes = []string{"ok1", "ok2", "missing", "forbidden", "error", "wrapped-locked", "wrapped-missing", "unassigned-code"}

func c10JudgeC(kind string, list []int) (clause, detail string) {
	ext, ns, rootName := ".ics", nsCal, "calendar-multiget"
	if kind == "carddav" {
		ext, ns, rootName = ".vcf", nsCard, "addressbook-multiget"
	}
	paths := map[string]string{"ok1": "/u/c/k1/one" + ext, "ok2": "/u/c/k1/two x" + ext, // failing members carry names that need escaping in an href (the error response is written by its own constructor)
		"missing": "/u/c/k1/mis%20sing?x" + ext, "forbidden": "/u/c/k1/for#bid den" + ext, "error": "/u/c/k1/err%41or é" + ext,
		"wrapped-locked": "/u/c/k1/wl" + ext, "wrapped-missing": "/u/c/k1/wm" + ext, "unassigned-code": "/u/c/k1/uc" + ext}
	// a backend may wrap its HTTP error (fmt.Errorf("...: %w", err)); the status is still the backend's own
	errs := map[string]error{paths["forbidden"]: webdav.NewHTTPError(403, fmt.Errorf("no")), paths["error"]: fmt.Errorf("backend exploded"),
		// a status code without a registered reason phrase: the status line keeps its second SP
		paths["unassigned-code"]: webdav.NewHTTPError(499, fmt.Errorf("client closed request")),
		paths["wrapped-locked"]:  fmt.Errorf("store: %w", webdav.NewHTTPError(423, fmt.Errorf("locked"))),
		paths["wrapped-missing"]: fmt.Errorf("store: %w", fmt.Errorf("layer: %w", webdav.NewHTTPError(404, fmt.Errorf("gone"))))}
	var h http.Handler
	if kind == "caldav" {
		h = &caldav.Handler{Backend: &harness.CalBackend{Principal: "/u/", HomeSet: "/u/c/", Errs: errs, Objects: []caldav.CalendarObject{
			{Path: paths["ok1"], ETag: "e1", Data: harness.SampleCalendar("1", "one")}, {Path: paths["ok2"], ETag: "e2", Data: harness.SampleCalendar("2", "two")}}}}
	} else {
		h = &carddav.Handler{Backend: &harness.CardBackend{Principal: "/u/", HomeSet: "/u/c/", Errs: errs, Objects: []carddav.AddressObject{
			{Path: paths["ok1"], ETag: "e1", Card: harness.SampleCard("one")}, {Path: paths["ok2"], ETag: "e2", Card: harness.SampleCard("two")}}}}
	}
	root := indep.E(ns, rootName, indep.E(indep.DAV, "prop", indep.E(indep.DAV, "getetag"), indep.E(ns, map[string]string{nsCal: "calendar-data", nsCard: "address-data"}[ns])))
	var want []string
	for _, o := range list {
		p := paths[c10Outcomes[o]]
		want = append(want, p)
		root.Add(indep.E(indep.DAV, "href").T(indep.EscapeHref(p)))
	}
	if len(list) == 0 {
		return "", ""
	}
	resp := harness.Serve(h, harness.Req{Method: "REPORT", Path: "/u/c/k1/", Header: map[string]string{"Content-Type": "application/xml", "Depth": "1"}, Body: string(indep.Render(root, indep.Style{}))})
	if resp.Panic != "" {
		return "panic", resp.Panic
	}
	if resp.Status != 207 {
		return "multiget-status", fmt.Sprintf("%d %s", resp.Status, trunc(string(resp.Body), 100))
	}
	ms, err := indep.ReadMultiStatus(resp.Body)
	if err != nil {
		return "multistatus-unreadable", err.Error()
	}
	if len(ms.Responses) != len(list) {
		return "multiget-response-count", fmt.Sprintf("%d responses for %d hrefs", len(ms.Responses), len(list))
	}
	for i, r := range ms.Responses {
		hp, err := indep.HrefPath(r.Hrefs[0])
		if err != nil || hp != want[i] || len(r.Hrefs) != 1 {
			return "multiget-order-or-href", fmt.Sprintf("response %d is for %q, want %q", i, r.Hrefs[0], want[i])
		}
		switch c10Outcomes[list[i]] {
		case "ok1", "ok2":
			et := r.Prop(indep.DAV, "getetag")
			wantTag := map[string]string{"ok1": `"e1"`, "ok2": `"e2"`}[c10Outcomes[list[i]]]
			if len(et) != 1 || et[0].Status != 200 || strings.TrimSpace(et[0].Node.Text) != wantTag {
				return "multiget-object", fmt.Sprintf("response %d (%s): getetag %v", i, hp, et)
			}
		case "missing":
			if r.Status != 404 {
				return "multiget-error-status", fmt.Sprintf("missing resource reported with status %d", r.Status)
			}
		case "forbidden":
			if r.Status != 403 {
				return "multiget-error-status", fmt.Sprintf("forbidden resource reported with status %d", r.Status)
			}
		case "error":
			if r.Status != 500 {
				return "multiget-error-status", fmt.Sprintf("failing resource reported with status %d", r.Status)
			}
		case "wrapped-locked":
			if r.Status != 423 {
				return "multiget-error-status", fmt.Sprintf("resource whose backend error wraps a 423 reported with status %d", r.Status)
			}
		case "unassigned-code":
			if r.Status != 499 {
				return "multiget-error-status", fmt.Sprintf("resource failing with the unassigned code 499 reported with status %d", r.Status)
			}
		case "wrapped-missing":
			if r.Status != 404 {
				return "multiget-error-status", fmt.Sprintf("resource whose backend error wraps a 404 reported with status %d", r.Status)
			}
		}
	}
	return "", ""
}

// ---------- part D: client reads conformant documents from an independent writer ----------

type c10DCase struct {
	BadFirst bool        `json:"non_success_propstat_first"`
	Kind     string      `json:"kind"`
	Call     string      `json:"call"` // multiget | find | sync
	Style    indep.Style `json:"style"`
	Split    bool        `json:"split_propstats"`
	Extras   bool        `json:"unknown_extra_props"`
	Feats    int         `json:"feature_set"`
	// Missing: which optional value the SECOND object lacks: 0 none, 1 getlastmodified absent, 2 getetag absent,
	// 3 getlastmodified reported under 404, 4 getetag reported under 404. The other values must still arrive.
	Missing int `json:"missing,omitempty"`
	// Esc 1: hrefs escaped otherwise than Go's net/url would write them (lower-case hex digits, unreserved
	// characters such as ~ and @ escaped too): the same paths
	Esc int `json:"href_escaping,omitempty"`
}

// altEscapeHref escapes every byte outside [A-Za-z0-9/._-] with lower-case hex digits.
func altEscapeHref(p string) string {
	var sb strings.Builder
	for i := 0; i < len(p); i++ {
		b := p[i]
		if b >= 'a' && b <= 'z' || b >= 'A' && b <= 'Z' || b >= '0' && b <= '9' || b == '/' || b == '.' || b == '_' || b == '-' {
			sb.WriteByte(b)
		} else {
			fmt.Fprintf(&sb, "%%%02x", b)
		}
	}
	return sb.String()
}

func httpDate(t time.Time) string { return t.UTC().Format(http.TimeFormat) }

func propstats(split bool, ok []*indep.El, extras bool) []*indep.El {
	return propstatsOrd(split, ok, extras, false)
}

func propstatsOrd(split bool, ok []*indep.El, extras bool, badFirst bool) []*indep.El {
	if extras {
		ok = append([]*indep.El{indep.E("urn:unknown", "color").T("#fff")}, ok...)
		ok = append(ok, indep.E(indep.DAV, "owner", indep.E(indep.DAV, "href").T("/u/")))
	}
	st := func(props []*indep.El, status string) *indep.El {
		return indep.E(indep.DAV, "propstat", indep.E(indep.DAV, "prop", props...), indep.E(indep.DAV, "status").T(status))
	}
	var out []*indep.El
	if split && len(ok) > 1 {
		out = append(out, st(ok[:1], "HTTP/1.1 200 OK"), st(ok[1:], "HTTP/1.1 200 OK"))
	} else {
		out = append(out, st(ok, "HTTP/1.1 200 OK"))
	}
	if extras {
		bad := st([]*indep.El{indep.E(indep.DAV, "quota-used-bytes")}, "HTTP/1.1 404 Not Found")
		if badFirst {
			out = append([]*indep.El{bad}, out...)
		} else {
			out = append(out, bad)
		}
	}
	return out
}

func c10JudgeD(c c10DCase, sets [][]docFeature) (clause, detail string) {
	defer func() {
		if p := recover(); p != nil {
			clause, detail = "panic", fmt.Sprint(p)
		}
	}()
	ctx := context.Background()
	fs := sets[c.Feats%len(sets)]
	mt := time.Unix(1600000000, 0).UTC()
	type obj struct {
		path, etag, data string
	}
	var objs []obj
	var wantCal *ical.Calendar
	var wantCard vcard.Card
	ns, dataName := nsCal, "calendar-data"
	if c.Kind == "caldav" {
		var buf bytes.Buffer
		ical.NewEncoder(&buf).Encode(c10Calendar(fs))
		wantCal, _ = icalRoundTrip(c10Calendar(fs))
		objs = []obj{{"/u/c/k1/a b.ics", `a"b`, buf.String()}, {"/u/c/k1/é%2f.ics", "t2", buf.String()}}
	} else {
		ns, dataName = nsCard, "address-data"
		var buf bytes.Buffer
		vcard.NewEncoder(&buf).Encode(c10Card(fs))
		wantCard, _ = vcardRoundTrip(c10Card(fs))
		objs = []obj{{"/u/c/k1/a b.vcf", `a"b`, buf.String()}, {"/u/c/k1/é%2f.vcf", "t2", buf.String()}}
	}
	ms := indep.E(indep.DAV, "multistatus")
	switch c.Call {
	case "multiget", "sync":
		for oi, o := range objs {
			etagEl, modEl := indep.E(indep.DAV, "getetag").T(strconv.Quote(o.etag)), indep.E(indep.DAV, "getlastmodified").T(httpDate(mt))
			props := []*indep.El{etagEl, modEl, indep.E(ns, dataName).T(o.data)}
			var missing *indep.El
			if oi == 1 && c.Missing != 0 {
				if c.Missing == 1 || c.Missing == 3 {
					props = []*indep.El{etagEl, indep.E(ns, dataName).T(o.data)}
					missing = indep.E(indep.DAV, "getlastmodified")
				} else {
					props = []*indep.El{modEl, indep.E(ns, dataName).T(o.data)}
					missing = indep.E(indep.DAV, "getetag")
				}
			}
			hrefText := indep.EscapeHref(o.path)
			if c.Esc == 1 {
				hrefText = altEscapeHref(o.path)
			}
			r := indep.E(indep.DAV, "response", indep.E(indep.DAV, "href").T(hrefText))
			ps := propstatsOrd(c.Split, props, c.Extras, c.BadFirst)
			if missing != nil && c.Missing >= 3 {
				bad := indep.E(indep.DAV, "propstat", indep.E(indep.DAV, "prop", missing), indep.E(indep.DAV, "status").T("HTTP/1.1 404 Not Found"))
				if c.BadFirst {
					ps = append([]*indep.El{bad}, ps...)
				} else {
					ps = append(ps, bad)
				}
			}
			r.Add(ps...)
			ms.Add(r)
		}
		if c.Call == "sync" {
			ms.Add(indep.E(indep.DAV, "response", indep.E(indep.DAV, "href").T("/u/c/k1/gone.vcf"), indep.E(indep.DAV, "status").T("HTTP/1.1 404 Not Found")))
			ms.Add(indep.E(indep.DAV, "sync-token").T("http://example.com/ns/sync/1234"))
		}
	case "find":
		rt := indep.E(indep.DAV, "resourcetype", indep.E(indep.DAV, "collection"), indep.E(ns, map[string]string{nsCal: "calendar", nsCard: "addressbook"}[ns]))
		props := []*indep.El{rt, indep.E(indep.DAV, "displayname").T(" n<&> "), indep.E(ns, map[string]string{nsCal: "calendar-description", nsCard: "addressbook-description"}[ns]).T("dé\nsc"),
			indep.E(ns, "max-resource-size").T("4096")}
		if c.Kind == "caldav" {
			props = append(props, indep.E(ns, "supported-calendar-component-set", indep.E(ns, "comp").A("name", "VTODO"), indep.E(ns, "comp").A("name", "VEVENT")))
		}
		home := indep.E(indep.DAV, "response", indep.E(indep.DAV, "href").T("/u/c/"))
		home.Add(propstats(false, []*indep.El{indep.E(indep.DAV, "resourcetype", indep.E(indep.DAV, "collection"))}, false)...)
		ms.Add(home)
		collHref := indep.EscapeHref("/u/c/k é/")
		if c.Esc == 1 {
			collHref = altEscapeHref("/u/c/k é/")
		}
		r := indep.E(indep.DAV, "response", indep.E(indep.DAV, "href").T(collHref))
		r.Add(propstatsOrd(c.Split, props, c.Extras, c.BadFirst)...)
		ms.Add(r)
	}
	cap := &harness.Capture{Status: 207, RespCT: "application/xml; charset=utf-8", Resp: string(indep.Render(ms, c.Style))}
	// what the second object is expected to carry
	wantTag := func(i int) string {
		if i == 1 && (c.Missing == 2 || c.Missing == 4) {
			return ""
		}
		return objs[i].etag
	}
	wantMT := func(i int) time.Time {
		if i == 1 && (c.Missing == 1 || c.Missing == 3) {
			return time.Time{}
		}
		return mt
	}
	if c.Kind == "caldav" {
		cl, _ := caldav.NewClient(cap, "http://h/")
		switch c.Call {
		case "multiget":
			l, err := cl.MultiGetCalendar(ctx, "/u/c/k1/", &caldav.CalendarMultiGet{Paths: []string{objs[0].path, objs[1].path}, CompRequest: caldav.CalendarCompRequest{Name: "VCALENDAR", AllProps: true}})
			if err != nil || len(l) != 2 {
				return "client-refused-conformant-document", fmt.Sprintf("%d objects, %v", len(l), err)
			}
			for i, o := range l {
				if d := sameObj("caldav", o.Path, objs[i].path, o.ETag, wantTag(i), o.ModTime, wantMT(i)); d != "" {
					return "client-metadata", d
				}
				if !reflect.DeepEqual(o.Data.Component, wantCal.Component) {
					return "client-content", fmt.Sprintf("got %s want %s", dumpIcal(o.Data), dumpIcal(wantCal))
				}
			}
		case "find":
			l, err := cl.FindCalendars(ctx, "/u/c/")
			want := caldav.Calendar{Path: "/u/c/k é/", Name: " n<&> ", Description: "dé\nsc", MaxResourceSize: 4096, SupportedComponentSet: []string{"VTODO", "VEVENT"}}
			if err != nil || len(l) != 1 || !reflect.DeepEqual(l[0], want) {
				return "client-collection", fmt.Sprintf("%+v %v want %+v", l, err, want)
			}
		}
		return "", ""
	}
	cl, _ := carddav.NewClient(cap, "http://h/")
	switch c.Call {
	case "multiget":
		l, err := cl.MultiGetAddressBook(ctx, "/u/c/k1/", &carddav.AddressBookMultiGet{Paths: []string{objs[0].path, objs[1].path}})
		if err != nil || len(l) != 2 {
			return "client-refused-conformant-document", fmt.Sprintf("%d objects, %v", len(l), err)
		}
		for i, o := range l {
			if d := sameObj("carddav", o.Path, objs[i].path, o.ETag, wantTag(i), o.ModTime, wantMT(i)); d != "" {
				return "client-metadata", d
			}
			if !reflect.DeepEqual(o.Card, wantCard) {
				return "client-content", fmt.Sprintf("got %s want %s", dumpCard(o.Card), dumpCard(wantCard))
			}
		}
	case "find":
		l, err := cl.FindAddressBooks(ctx, "/u/c/")
		if err != nil || len(l) != 1 {
			return "client-collection", fmt.Sprintf("%+v %v", l, err)
		}
		l[0].SupportedAddressData = nil
		want := carddav.AddressBook{Path: "/u/c/k é/", Name: " n<&> ", Description: "dé\nsc", MaxResourceSize: 4096}
		if !reflect.DeepEqual(l[0], want) {
			return "client-collection", fmt.Sprintf("%+v want %+v", l[0], want)
		}
	case "sync":
		sr, err := cl.SyncCollection(ctx, "/u/c/k1/", &carddav.SyncQuery{SyncToken: "t0", Limit: 10})
		if err != nil {
			return "client-refused-conformant-document", err.Error()
		}
		if sr.SyncToken != "http://example.com/ns/sync/1234" {
			return "sync-token", sr.SyncToken
		}
		if len(sr.Deleted) != 1 || sr.Deleted[0] != "/u/c/k1/gone.vcf" {
			return "sync-deleted", fmt.Sprint(sr.Deleted)
		}
		if len(sr.Updated) != 2 {
			return "sync-updated", fmt.Sprint(len(sr.Updated))
		}
		for i, o := range sr.Updated {
			if d := sameObj("carddav", o.Path, objs[i].path, o.ETag, wantTag(i), o.ModTime, wantMT(i)); d != "" {
				return "sync-metadata", d
			}
			// the document carries the address-data the query asked for: it reaches the caller
			if !reflect.DeepEqual(o.Card, wantCard) {
				return "sync-content", fmt.Sprintf("got %s want %s", dumpCard(o.Card), dumpCard(wantCard))
			}
		}
	}
	return "", ""
}

func init() {
	register("C10", func(r *engine.Run) {
		full := thorough(r)
		sets := featureSets(full)
		var acases []c10ACase
		k := 0
		names := c05Names
		for _, kind := range []string{"caldav", "carddav"} {
			for fi := range sets {
				for _, op := range []string{"get", "multiget", "query", "put"} {
					k++
					acases = append(acases, c10ACase{Kind: kind, Name: names[k%len(names)] + ".obj", Feats: fi, Meta: k, Op: op})
				}
			}
			for _, n := range names {
				for _, op := range []string{"get", "multiget", "query", "put", "put-same", "put-rel"} {
					k++
					acases = append(acases, c10ACase{Kind: kind, Name: n, Feats: k, Meta: k, Op: op})
				}
			}
			if full {
				// every name x every feature set
				for _, n := range names {
					for fi := range sets {
						for _, op := range []string{"get", "multiget", "query", "put"} {
							k++
							acases = append(acases, c10ACase{Kind: kind, Name: n, Feats: fi, Meta: k, Op: op})
						}
					}
				}
			}
			for m := 0; m < len(c10ETags)*len(c10Times); m++ {
				for _, op := range []string{"get", "multiget", "put"} {
					acases = append(acases, c10ACase{Kind: kind, Name: "o", Feats: m, Meta: m, Op: op})
				}
			}
		}
		r.Rule = fmt.Sprintf("A: %d feature sets (each of 10 content features alone and all pairs: escaped , ; \\\\ \\n, 200-char folded line, multi-valued, quoted parameter, non-ASCII, ]]> and XML metacharacters, empty value, padded value) x {Get, MultiGet, Query, Put} x {CalDAV, CardDAV}, every one of 20 special path names x 4 calls, every entity tag x modification time combination; B: collections over path names x display name x description x size limit x component set; C: every href list of length 1..4 over {existing1, existing2, missing, forbidden, backend error} in every order, raw multistatus read independently; D: conformant multistatus documents from an independent writer in every lexical style x {single, split propstats} x {with, without unknown extra properties} for MultiGet/Find/SyncCollection; non-trivial = every case", len(sets))
		r.Explanation = "client results are compared with the backend double's values; content is compared with decode(encode(x)) performed directly with go-ical/go-vcard so that only go-webdav's transport is judged"
		r.Assumptions = []string{"a nil SupportedComponentSet is announced as [VEVENT] (server default)", "SupportedAddressData is not part of the statement", "ContentLength is compared only where the server passes the backend's value on (getcontentlength)"}
		r.Parallel(len(acases), func(i int, s *engine.Shard) {
			c := acases[i]
			s.Transition()
			clause, detail := c10JudgeA(c, sets)
			s.Clause("A: object via " + c.Op)
			s.Outcome("A/" + c.Kind + "/" + c.Op + "/" + clause)
			s.Nontrivial(js(c))
			if i%1009 == 9 {
				s.Sample(c)
			}
			if clause != "" {
				cls := c05NameClass(c.Name)
				if strings.HasSuffix(clause, "content") {
					cls = featNames(sets[c.Feats%len(sets)])
				}
				s.Violate(engine.Violation{Sig: fmt.Sprintf("C10/%s/%s/%s", clause, c.Kind, cls), Clause: clause, Index: int64(i), Kind: "C10-A", Case: c, Expected: "client value equals backend value", Observed: detail})
			}
		})
		base := int64(len(acases))
		var bcases []c10BCase
		for _, kind := range []string{"caldav", "carddav"} {
			for ni, n := range names {
				for d := range c10Strings {
					bcases = append(bcases, c10BCase{Kind: kind, Name: n, Disp: d, Desc: (d + ni) % len(c10Strings), Max: (d + ni) % 3, Set: (d + ni/2) % len(c10Sets)})
				}
			}
			for d := range c10Strings {
				for e := range c10Strings {
					for m := range c10Max {
						for st := range c10Sets {
							bcases = append(bcases, c10BCase{Kind: kind, Name: "k", Disp: d, Desc: e, Max: m, Set: st})
						}
					}
				}
			}
		}
		r.Parallel(len(bcases), func(i int, s *engine.Shard) {
			c := bcases[i]
			s.Transition()
			clause, detail := c10JudgeB(c)
			s.Clause("B: collection discovery field-for-field")
			s.Outcome("B/" + c.Kind + "/" + clause)
			s.Nontrivial(js(c))
			if clause != "" {
				s.Violate(engine.Violation{Sig: fmt.Sprintf("C10/%s/%s/%s", clause, c.Kind, c05NameClass(c.Name)), Clause: clause, Index: base + int64(i), Kind: "C10-B", Case: c, Expected: "client value equals backend value", Observed: detail})
			}
		})
		base += int64(len(bcases))
		var lists [][]int
		var gen func(cur []int)
		gen = func(cur []int) {
			if len(cur) > 0 {
				lists = append(lists, append([]int(nil), cur...))
			}
			if len(cur) == 4 {
				return
			}
			for o := range c10Outcomes {
				gen(append(cur, o))
			}
		}
		gen(nil)
		r.Parallel(len(lists)*2, func(i int, s *engine.Shard) {
			kind := []string{"caldav", "carddav"}[i%2]
			l := lists[i/2]
			s.Transition()
			clause, detail := c10JudgeC(kind, l)
			s.Clause("C: one response per href, in order, object or backend status")
			s.Outcome("C/" + kind + "/" + clause)
			s.Nontrivial(fmt.Sprintf("C/%d", i))
			if i == 333 {
				s.Sample(map[string]interface{}{"multiget_hrefs": l, "kind": kind})
			}
			if clause != "" {
				s.Violate(engine.Violation{Sig: fmt.Sprintf("C10/%s/%s", clause, kind), Clause: clause, Index: base + int64(i), Kind: "C10-C", Case: map[string]interface{}{"kind": kind, "list": l}, Expected: "one response per href in request order", Observed: detail})
			}
		})
		base += int64(len(lists) * 2)
		type ecase struct {
			kind, call string
			order      int
		}
		var ecases []ecase
		for _, kind := range []string{"caldav", "carddav"} {
			for _, call := range []string{"multiget", "query", "find"} {
				for o := 0; o < 2; o++ {
					ecases = append(ecases, ecase{kind, call, o})
				}
			}
		}
		r.Parallel(len(ecases), func(i int, s *engine.Shard) {
			c := ecases[i]
			s.Transition()
			clause, detail := c10JudgeE(c.kind, c.call, c.order)
			s.Clause("E: a later item lacking optional values does not inherit an earlier item's")
			s.Outcome("E/" + c.kind + "/" + c.call + "/" + clause)
			s.Nontrivial(fmt.Sprintf("E/%d", i))
			if clause != "" {
				s.Violate(engine.Violation{Sig: fmt.Sprintf("C10/%s/%s.list-order=%d", clause, c.kind, c.order), Clause: clause, Index: base + int64(i), Kind: "C10-E",
					Case: map[string]interface{}{"kind": c.kind, "call": c.call, "order": c.order}, Expected: "each item carries exactly the backend's values", Observed: detail})
			}
		})
		base += int64(len(ecases))
		var dcases []c10DCase
		for _, kind := range []string{"caldav", "carddav"} {
			calls := []string{"multiget", "find"}
			if kind == "carddav" {
				calls = append(calls, "sync")
			}
			for _, call := range calls {
				for si, st := range indep.AllStyles() {
					for _, split := range []bool{false, true} {
						for _, ex := range []bool{false, true} {
							fsN := []int{si}
							if full && call == "multiget" {
								fsN = nil
								for f := range sets {
									fsN = append(fsN, f)
								}
							}
							for _, f := range fsN {
								dcases = append(dcases, c10DCase{Kind: kind, Call: call, Style: st, Split: split, Extras: ex, Feats: f})
								if ex {
									dcases = append(dcases, c10DCase{Kind: kind, Call: call, Style: st, Split: split, Extras: ex, Feats: f, BadFirst: true})
								}
								if f == si && !ex {
									dcases = append(dcases, c10DCase{Kind: kind, Call: call, Style: st, Split: split, Extras: ex, Feats: f, Esc: 1})
								}
								if call != "find" && (f == si) {
									// the second object lacks one optional value (absent / reported under 404, before or after)
									for m := 1; m <= 4; m++ {
										dcases = append(dcases, c10DCase{Kind: kind, Call: call, Style: st, Split: split, Extras: ex, Feats: f, Missing: m})
										if m >= 3 {
											dcases = append(dcases, c10DCase{Kind: kind, Call: call, Style: st, Split: split, Extras: ex, Feats: f, Missing: m, BadFirst: true})
										}
									}
								}
							}
						}
					}
				}
			}
		}
		r.Parallel(len(dcases), func(i int, s *engine.Shard) {
			c := dcases[i]
			s.Transition()
			clause, detail := c10JudgeD(c, sets)
			s.Clause("D: client reads a conformant independent document")
			s.Outcome("D/" + c.Kind + "/" + c.Call + "/" + clause)
			s.Nontrivial(js(c))
			if i%499 == 9 {
				s.Sample(c)
			}
			if clause != "" {
				s.Violate(engine.Violation{Sig: fmt.Sprintf("C10/%s/%s.%s/ns%d.split=%v.extras=%v.badfirst=%v", clause, c.Kind, c.Call, c.Style.NS, c.Split, c.Extras, c.BadFirst) + map[bool]string{true: fmt.Sprintf(".missing=%d", c.Missing)}[c.Missing != 0] + map[bool]string{true: ".href-escaping=alt"}[c.Esc != 0], Clause: clause, Index: base + int64(i), Kind: "C10-D", Case: c, Expected: "client returns the values the document holds", Observed: detail})
			}
		})
	})
	registerReplay("C10-A", func(raw json.RawMessage) (bool, string) {
		var c c10ACase
		if err := json.Unmarshal(raw, &c); err != nil {
			return false, err.Error()
		}
		clause, detail := c10JudgeA(c, featureSets(true))
		if clause != "" {
			return false, clause + " " + detail
		}
		clause, detail = c10JudgeA(c, featureSets(false))
		return clause == "", clause + " " + detail
	})
	registerReplay("C10-B", func(raw json.RawMessage) (bool, string) {
		var c c10BCase
		if err := json.Unmarshal(raw, &c); err != nil {
			return false, err.Error()
		}
		clause, detail := c10JudgeB(c)
		return clause == "", clause + " " + detail
	})
	registerReplay("C10-C", func(raw json.RawMessage) (bool, string) {
		var c struct {
			Kind string `json:"kind"`
			List []int  `json:"list"`
		}
		if err := json.Unmarshal(raw, &c); err != nil {
			return false, err.Error()
		}
		clause, detail := c10JudgeC(c.Kind, c.List)
		return clause == "", clause + " " + detail
	})
	registerReplay("C10-E", func(raw json.RawMessage) (bool, string) {
		var c struct {
			Kind  string `json:"kind"`
			Call  string `json:"call"`
			Order int    `json:"order"`
		}
		if err := json.Unmarshal(raw, &c); err != nil {
			return false, err.Error()
		}
		clause, detail := c10JudgeE(c.Kind, c.Call, c.Order)
		return clause == "", clause + " " + detail
	})
	registerReplay("C10-D", func(raw json.RawMessage) (bool, string) {
		var c c10DCase
		if err := json.Unmarshal(raw, &c); err != nil {
			return false, err.Error()
		}
		clause, detail := c10JudgeD(c, featureSets(false))
		return clause == "", clause + " " + detail
	})
}
