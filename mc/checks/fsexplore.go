package checks

import (
	"fmt"
	"net/http"
	"os"
	"path/filepath"
	"sort"
	"strings"

	webdav "github.com/emersion/go-webdav"
	"github.com/emersion/go-webdav/verifmc/engine"
	"github.com/emersion/go-webdav/verifmc/harness"
	"github.com/emersion/go-webdav/verifmc/indep"
)

// Explicit-state exploration of the real webdav.Handler over a real directory.

var fsNames = []string{"a", "b.html"}

// fsUniverse: every tree over 2 names, depth <= 2, file contents from the given set.
func fsUniverse(contents []string) []harness.Tree {
	type opt struct {
		kind string // "", "file", "dir"
		c    string
	}
	var member []opt
	member = append(member, opt{})
	for _, c := range contents {
		member = append(member, opt{"file", c})
	}
	member = append(member, opt{"dir", ""})
	type top struct {
		kind string
		c    string
		m    [2]opt
	}
	var tops []top
	tops = append(tops, top{})
	for _, c := range contents {
		tops = append(tops, top{kind: "file", c: c})
	}
	for _, m0 := range member {
		for _, m1 := range member {
			tops = append(tops, top{kind: "dir", m: [2]opt{m0, m1}})
		}
	}
	var out []harness.Tree
	for _, t0 := range tops {
		for _, t1 := range tops {
			t := harness.Tree{"/": {Dir: true}}
			for i, tp := range []top{t0, t1} {
				p := "/" + fsNames[i]
				switch tp.kind {
				case "file":
					t[p] = harness.Node{Content: tp.c}
				case "dir":
					t[p] = harness.Node{Dir: true}
					for j, m := range tp.m {
						mp := p + "/" + fsNames[j]
						switch m.kind {
						case "file":
							t[mp] = harness.Node{Content: m.c}
						case "dir":
							t[mp] = harness.Node{Dir: true}
						}
					}
				}
			}
			out = append(out, t)
		}
	}
	return out
}

// extra probe states exercising deeper recursion
func fsProbeStates() []harness.Tree {
	return []harness.Tree{
		// zero-length files (a property guarded by "size > 0" would vanish here)
		{"/": {Dir: true}, "/a": {Content: ""}, "/b.html": {Dir: true}, "/b.html/a": {Content: ""}, "/b.html/b.html": {Content: "x"}},
		// names that need escaping on the request line and in the Destination header
		{"/": {Dir: true}, "/a%41": {Content: "x"}, "/100%": {Dir: true}, "/100%/a b": {Content: "yy"}, "/é": {Content: "x"}},
		// a typed file listed before an untyped one and before a collection (state carried from one
		// listed member to the next would show)
		{"/": {Dir: true}, "/a": {Dir: true}, "/a/a.html": {Content: "x"}, "/a/b": {Content: "yy"}, "/a/c": {Dir: true}, "/a/c/a": {Content: ""}},
		// names that begin or end with two dots without being dot-dot segments
		{"/": {Dir: true}, "/a": {Dir: true}, "/a/..b": {Content: "x"}, "/a/a..": {Content: "yy"}, "/..a": {Dir: true}, "/..a/c": {Content: "x"}},
		// siblings one of whose names is a string prefix of the other
		{"/": {Dir: true}, "/a": {Dir: true}, "/a/a": {Content: "x"}, "/ab": {Content: "yy"}, "/a.bak": {Dir: true}},
		{"/": {Dir: true}, "/a": {Dir: true}, "/a/a": {Dir: true}, "/a/a/a": {Content: "x"}},
		{"/": {Dir: true}, "/a": {Dir: true}, "/a/a": {Dir: true}, "/a/a/a": {Dir: true}, "/a/a/b.html": {Content: "yy"}, "/a/b.html": {Content: "x"}, "/b.html": {Content: "x"}},
	}
}

// fsLinkStates: trees that hold symbolic links (to a collection, to a file, dangling, to an ancestor, inside a
// collection beside ordinary members). No reference model is consulted on them: only model-free oracles
// (C02 tree unchanged under >= 400, C17 no leak) judge these states.
func fsLinkStates() []harness.Tree {
	return []harness.Tree{
		{"/": {Dir: true}, "/a": {Dir: true}, "/a/a": {Content: "x"}, "/b.html": {Link: "a"}},
		{"/": {Dir: true}, "/a": {Content: "x"}, "/b.html": {Link: "a"}},
		{"/": {Dir: true}, "/a": {Dir: true}, "/b.html": {Link: "missing"}},
		{"/": {Dir: true}, "/a": {Dir: true}, "/a/b.html": {Link: "../a"}, "/a/a": {Content: "yy"}},
		{"/": {Dir: true}, "/a": {Dir: true}, "/a/a": {Link: "/nonexistent-absolute-target/x"}, "/b.html": {Content: "x"}},
		// a collection whose members are an ordinary file and, after it in walk order, a link to a file; an
		// existing destination collection and an existing destination file
		{"/": {Dir: true}, "/a": {Dir: true}, "/a/a": {Content: "x"}, "/a/b.html": {Link: "a"}, "/b.html": {Dir: true}, "/b.html/a": {Content: "yy"}},
		{"/": {Dir: true}, "/a": {Link: "b.html"}, "/b.html": {Content: "x"}},
	}
}

func fsPaths(maxDepth int, probe bool) (paths []string, spellings []string) {
	level := []string{""}
	paths = []string{"/"}
	for d := 1; d <= maxDepth; d++ {
		var next []string
		for _, p := range level {
			for _, n := range fsNames {
				next = append(next, p+"/"+n)
			}
		}
		paths = append(paths, next...)
		level = next
	}
	if probe {
		paths = append(paths, "/a/a/a")
	}
	spellings = append(spellings, paths...)
	for _, p := range paths {
		if d := strings.Count(p, "/"); p != "/" && d <= 2 {
			spellings = append(spellings, p+"/")
		}
	}
	return
}

const (
	pfAllprop  = `<?xml version="1.0" encoding="utf-8"?><D:propfind xmlns:D="DAV:"><D:allprop/></D:propfind>`
	pfPropname = `<?xml version="1.0" encoding="utf-8"?><D:propfind xmlns:D="DAV:"><D:propname/></D:propfind>`
	pfProp     = `<?xml version="1.0" encoding="utf-8"?><D:propfind xmlns:D="DAV:"><D:prop><D:resourcetype/><D:getcontentlength/><D:getlastmodified/><D:getcontenttype/><D:getetag/><D:nonexistent-7/></D:prop></D:propfind>`
	pfNone     = `<?xml version="1.0" encoding="utf-8"?><D:propfind xmlns:D="DAV:"/>`
)

type fsAlphabet struct {
	quick bool
}

// fsRequests builds the C01 request alphabet.
func fsRequests(quick bool) []harness.Req {
	var out []harness.Req
	maxDepth := 3
	if quick {
		maxDepth = 2
	}
	_, sp := fsPaths(maxDepth, quick)
	for _, p := range sp {
		for _, m := range []string{"OPTIONS", "GET", "HEAD", "LOCK", "FOO", "PROPPATCH"} {
			q := harness.Req{Method: m, Path: p}
			if m == "PROPPATCH" {
				q.Header = map[string]string{"Content-Type": "text/xml"}
				q.Body = `<?xml version="1.0"?><D:propertyupdate xmlns:D="DAV:"><D:set><D:prop><D:displayname>x</D:displayname></D:prop></D:set></D:propertyupdate>`
			}
			out = append(out, q)
		}
		if p != "/" {
			out = append(out, harness.Req{Method: "DELETE", Path: p})
		}
		out = append(out, harness.Req{Method: "MKCOL", Path: p})
		out = append(out, harness.Req{Method: "MKCOL", Path: p, Header: map[string]string{"Content-Type": "text/xml"}, Body: "<x/>"})
		// a body announced by its length alone, and one of unannounced length (chunked): a request entity of a
		// type the server cannot know (RFC 4918 9.3.1: 415)
		out = append(out, harness.Req{Method: "MKCOL", Path: p, Body: "<x/>"}, harness.Req{Method: "MKCOL", Path: p, Body: "<x/>", Chunked: true})
		for _, b := range []string{"x", "yy", ""} {
			out = append(out, harness.Req{Method: "PUT", Path: p, Body: b})
		}
		// the same upload with its length not announced (chunked transfer)
		out = append(out, harness.Req{Method: "PUT", Path: p, Body: "yy", Chunked: true})
		for _, d := range []string{"-", "0", "1", "infinity", "2", "-1", "01", "+1"} {
			for _, b := range []string{"", pfAllprop, pfPropname, pfProp, pfNone} {
				if len(d) > 1 && d != "infinity" && b != "" && b != pfAllprop {
					continue // numbers that are not exactly 0 or 1: two body forms suffice
				}
				q := harness.Req{Method: "PROPFIND", Path: p, Body: b, Header: map[string]string{}}
				if d != "-" {
					q.Header["Depth"] = d
				}
				if b != "" {
					q.Header["Content-Type"] = "text/xml; charset=\"utf-8\""
				}
				out = append(out, q)
			}
		}
	}
	// conditional and range reads: HEAD is judged against GET (relational), GET by the status set
	for _, p := range []string{"/a", "/b.html", "/a/a", "/a/b.html"} {
		for _, m := range []string{"GET", "HEAD"} {
			out = append(out, harness.Req{Method: m, Path: p, Header: map[string]string{"If-None-Match": "*"}},
				harness.Req{Method: m, Path: p, Header: map[string]string{"Range": "bytes=0-0"}},
				harness.Req{Method: m, Path: p, Header: map[string]string{"If-Modified-Since": "Sun, 06 Nov 2033 08:49:37 GMT"}})
		}
	}
	// COPY / MOVE whose Destination reaches its target through dot segments
	for _, m := range []string{"COPY", "MOVE"} {
		for _, src := range []string{"/a", "/b.html", "/a/a"} {
			for _, dst := range []string{"/a", "/b.html", "/a/a", "/"} {
				spell := []string{"/zz/.." + dst, "/." + dst}
				if dst != "/" {
					spell = append(spell, dst+"/.", "/a/.."+dst)
				}
				for _, d := range spell {
					out = append(out, harness.Req{Method: m, Path: src, Header: map[string]string{"Destination": d}})
				}
			}
		}
	}
	// the served directory itself, in every spelling that cleans to it, is never deleted
	for _, p := range []string{"/", "//", "/.", "/./", "/a/..", "/a/../", "/b.html/../."} {
		out = append(out, harness.Req{Method: "DELETE", Path: p, Raw: true})
	}
	// the root itself as the source of COPY / MOVE: every destination lies inside it (or is it), so the request
	// must be refused with the tree unchanged
	for _, m := range []string{"COPY", "MOVE"} {
		for _, src := range []string{"/", "//", "/."} {
			for _, d := range []string{"/a", "/b.html", "/a/a", "/new", "/", "/a/new", "http://h/a"} {
				for _, ow := range []string{"", "T", "F"} {
					h := map[string]string{"Destination": d}
					if ow != "" {
						h["Overwrite"] = ow
					}
					out = append(out, harness.Req{Method: m, Path: src, Header: h, Raw: src != "/"})
				}
			}
		}
	}
	// names that need escaping: every method, and COPY/MOVE with escaped Destination headers
	special := []string{"/a%41", "/100%", "/100%/a b", "/é", "/aA", "/100%/new%2f", "/a b", "/a", "/ab", "/a.bak", "/a/..b", "/..a", "/a/a..", "/..a/c", "/c+d", "/a;b=c,d&e"}
	for _, p := range special {
		for _, m := range []string{"GET", "HEAD", "DELETE", "MKCOL", "OPTIONS"} {
			out = append(out, harness.Req{Method: m, Path: p})
		}
		out = append(out, harness.Req{Method: "PUT", Path: p, Body: "x"})
		out = append(out, harness.Req{Method: "PROPFIND", Path: p, Header: map[string]string{"Depth": "1"}})
		for _, q := range special {
			for _, m := range []string{"COPY", "MOVE"} {
				for _, abs := range []string{"", "http://h"} {
					out = append(out, harness.Req{Method: m, Path: p, Header: map[string]string{"Destination": abs + harness.EscapePath(q)}})
				}
			}
		}
	}
	// COPY / MOVE
	var dests []string
	for _, p := range sp {
		dests = append(dests, p, "http://h"+p)
	}
	dests = append(dests, "\x00missing", "http://%zz")
	for _, m := range []string{"COPY", "MOVE"} {
		for _, src := range sp {
			if src == "/" {
				continue
			}
			for _, dst := range dests {
				for _, d := range []string{"-", "0", "1", "infinity", "2", "-1", "01"} {
					for _, ow := range []string{"-", "T", "F", "X"} {
						if len(d) > 1 && d != "infinity" && ow != "-" {
							continue
						}
						q := harness.Req{Method: m, Path: src, Header: map[string]string{}}
						if dst != "\x00missing" {
							q.Header["Destination"] = dst
						}
						if d != "-" {
							q.Header["Depth"] = d
						}
						if ow != "-" {
							q.Header["Overwrite"] = ow
						}
						out = append(out, q)
					}
				}
			}
		}
	}
	return out
}

type fileProbe struct {
	ETag, LastMod, CType string
	Status               int
	// Props: the resource's own PROPFIND (Depth 0, allprop) answer in the same state: canonical value of
	// every property reported with status 200, by expanded name
	Props map[string]string
}

// fsVisit is what a property-specific oracle sees for every transition.
type fsVisit struct {
	S        *engine.Shard
	Index    int64
	State    harness.Tree
	Req      harness.Req
	Resp     harness.Resp
	After    harness.Tree
	Root     string // configured root path (through the symlink)
	RootReal string // symlink-resolved root path
	Probe    map[string]fileProbe
	Changed  bool // on-disk fingerprint (incl. mtimes) changed
	Spell    int  // how the root was spelled when configuring the file system (fsRootSpellings)
	// Serve executes a further (read-only) request in the same state, for relational oracles
	Serve func(q harness.Req) harness.Resp
}

type fsWorker struct {
	base, link string
	root       string
	rootReal   string
	stamp      string
	state      harness.Tree
	probe      map[string]fileProbe
	handler    *webdav.Handler
	n          int
	spell      int
}

// fsRootSpellings are ways to write the same served directory when configuring LocalFileSystem.
var fsRootSpellings = []string{"clean", "trailing-slash", "trailing-slash-dot", "doubled-slash", "dot-segment", "relative", "dot-dot-segment"}

func (w *fsWorker) served() string { return spellRoot(w.root, w.spell) }

// spellRoot writes the directory root in the given spelling (fsRootSpellings).
func spellRoot(root string, spell int) string {
	switch spell {
	case 1:
		return root + "/"
	case 2:
		return root + "/."
	case 3:
		return filepath.Dir(root) + "//" + filepath.Base(root)
	case 4:
		return filepath.Dir(root) + "/./" + filepath.Base(root)
	case 5:
		// relative to the checker's working directory
		if wd, err := os.Getwd(); err == nil {
			if rel, err := filepath.Rel(wd, root); err == nil {
				return rel
			}
		}
	case 6:
		return filepath.Dir(root) + "/" + filepath.Base(root) + "/../" + filepath.Base(root)
	}
	return root
}

const rootToken = "vroot-7f3a"

func newFSWorker() *fsWorker {
	w := &fsWorker{}
	w.base = harness.NewDir("w")
	real := filepath.Join(w.base, "real")
	os.MkdirAll(real, 0o755)
	w.link = filepath.Join(w.base, "link")
	if err := os.Symlink(real, w.link); err != nil {
		panic(err)
	}
	return w
}

func (w *fsWorker) close() { os.RemoveAll(w.base) }

func (w *fsWorker) load(t harness.Tree) {
	if w.root != "" {
		os.RemoveAll(w.rootReal)
	}
	w.n++
	name := fmt.Sprintf("%s-%d", rootToken, w.n)
	w.rootReal = filepath.Join(w.base, "real", name)
	w.root = filepath.Join(w.link, name)
	harness.Materialise(w.rootReal, t)
	w.state = t
	_, w.stamp = harness.Snapshot(w.rootReal)
	w.handler = &webdav.Handler{FileSystem: webdav.LocalFileSystem(w.served())}
	w.probe = map[string]fileProbe{}
	for p, n := range t {
		if n.Dir {
			continue
		}
		r := harness.Serve(w.handler, harness.Req{Method: "GET", Path: p})
		w.probe[p] = fileProbe{ETag: r.Header.Get("ETag"), LastMod: r.Header.Get("Last-Modified"), CType: r.Header.Get("Content-Type"), Status: r.Status}
	}
	// every resource's own Depth-0 answer (files and collections)
	for p := range t {
		r := harness.Serve(w.handler, harness.Req{Method: "PROPFIND", Path: harness.EscapePath(p), Header: map[string]string{"Depth": "0", "Content-Type": "application/xml"}, Body: pfAllprop})
		ms, err := indep.ReadMultiStatus(r.Body)
		if err != nil || len(ms.Responses) != 1 {
			continue
		}
		pr := w.probe[p]
		pr.Props = map[string]string{}
		for _, mp := range ms.Responses[0].Props {
			if mp.Status == 200 {
				pr.Props["{"+mp.Node.Space+"}"+mp.Node.Local] = mp.Node.Canon()
			}
		}
		w.probe[p] = pr
	}
	if _, st := harness.Snapshot(w.rootReal); st != w.stamp {
		// a GET changed the fingerprint: rebuild so that every request sees the same start
		os.RemoveAll(w.rootReal)
		harness.Materialise(w.rootReal, t)
		_, w.stamp = harness.Snapshot(w.rootReal)
	}
}

// step executes one request from the loaded state and restores the state afterwards if needed.
func (w *fsWorker) step(q harness.Req) (resp harness.Resp, after harness.Tree, changed bool) {
	resp = harness.Serve(w.handler, q)
	after, st := harness.Snapshot(w.rootReal)
	changed = st != w.stamp
	if changed {
		t := w.state
		pr := w.probe
		os.RemoveAll(w.rootReal)
		// keep the same root name so that probes (ETag from mtime) stay valid
		harness.Materialise(w.rootReal, t)
		_, w.stamp = harness.Snapshot(w.rootReal)
		w.probe = pr
	}
	return
}

// exploreFS runs every request of reqs in every state, calling visit for each transition.
func exploreFS(r *engine.Run, states []harness.Tree, reqs []harness.Req, visit func(v *fsVisit)) {
	exploreFSx(r, states, reqs, nil, visit)
}

// exploreFSx additionally runs per-state requests computed from the state and its probe
// (e.g. conditional headers carrying the current entity tag).
func exploreFSx(r *engine.Run, states []harness.Tree, reqs []harness.Req, extra func(t harness.Tree, probe map[string]fileProbe) []harness.Req, visit func(v *fsVisit)) {
	exploreFSspell(r, states, reqs, extra, 0, visit)
}

// exploreFSspell is exploreFSx with the served root configured in the given spelling.
func exploreFSspell(r *engine.Run, states []harness.Tree, reqs []harness.Req, extra func(t harness.Tree, probe map[string]fileProbe) []harness.Req, spell int, visit func(v *fsVisit)) {
	const block = 1500
	nb := (len(reqs) + block - 1) / block
	if extra != nil {
		nb++ // the last block of every state holds the per-state requests
	}
	defer harness.Cleanup()
	type unit struct{ si, bi int }
	workers := make(chan *fsWorker, 64)
	r.Parallel(len(states)*nb, func(i int, s *engine.Shard) {
		si, bi := i/nb, i%nb
		var w *fsWorker
		select {
		case w = <-workers:
		default:
			w = newFSWorker()
		}
		defer func() { workers <- w }()
		w.spell = spell
		w.load(states[si])
		if bi == 0 {
			s.State()
		}
		lo, hi := bi*block, (bi+1)*block
		if hi > len(reqs) {
			hi = len(reqs)
		}
		list := reqs
		if extra != nil && bi == nb-1 {
			list = extra(states[si], w.probe)
			lo, hi = 0, len(list)
		}
		for ri := lo; ri < hi; ri++ {
			resp, after, changed := w.step(list[ri])
			s.Transition()
			idx := int64(spell)<<56 | int64(si)<<24 | int64(ri)
			if extra != nil && bi == nb-1 {
				idx |= 1 << 23
			}
			visit(&fsVisit{S: s, Index: idx, State: states[si], Req: list[ri], Resp: resp, After: after,
				Root: w.root, RootReal: w.rootReal, Probe: w.probe, Changed: changed, Spell: spell,
				Serve: func(q harness.Req) harness.Resp { return harness.Serve(w.handler, q) }})
		}
	})
	close(workers)
	for w := range workers {
		w.close()
	}
}

type fsCase struct {
	State harness.Tree `json:"state"`
	Req   harness.Req  `json:"request"`
	Spell int          `json:"root_spelling,omitempty"`
}

// fsReplay re-executes one (state, request) and returns what a visit would see.
func fsReplay(c fsCase) *fsVisit {
	defer harness.Cleanup()
	w := newFSWorker()
	defer w.close()
	w.spell = c.Spell
	w.load(c.State)
	s := engine.NewRun("replay", "quick").Shard()
	resp, after, changed := w.step(c.Req)
	return &fsVisit{S: s, State: c.State, Req: c.Req, Resp: resp, After: after, Root: w.root, RootReal: w.rootReal, Probe: w.probe, Changed: changed, Spell: c.Spell,
		Serve: func(q harness.Req) harness.Resp { return harness.Serve(w.handler, q) }}
}

func commaSet(vals []string) map[string]bool {
	m := map[string]bool{}
	for _, v := range vals {
		for _, f := range strings.Split(v, ",") {
			f = strings.TrimSpace(f)
			if f != "" {
				m[strings.ToUpper(f)] = true
			}
		}
	}
	return m
}

func sortedKeys(m map[string]bool) []string {
	var l []string
	for k := range m {
		l = append(l, k)
	}
	sort.Strings(l)
	return l
}

var _ = http.StatusOK

// fsSpellingStates picks the states explored under the non-clean root spellings: the probe states
// (nesting, special names) and every k-th state of the universe.
func fsSpellingStates(states []harness.Tree, quick bool) []harness.Tree {
	k := 3
	if quick {
		k = 16
	}
	var out []harness.Tree
	seen := map[string]bool{}
	for i, t := range states {
		if i%k == 0 && !seen[t.Canon()] {
			seen[t.Canon()] = true
			out = append(out, t)
		}
	}
	for _, t := range fsProbeStates() {
		if !seen[t.Canon()] {
			seen[t.Canon()] = true
			out = append(out, t)
		}
	}
	return out
}
