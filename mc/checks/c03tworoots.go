package checks

import (
	"encoding/json"
	"fmt"
	"os"
	"path/filepath"
	"sort"
	"strings"

	webdav "github.com/emersion/go-webdav"
	"github.com/emersion/go-webdav/verifmc/engine"
	"github.com/emersion/go-webdav/verifmc/harness"
	"github.com/emersion/go-webdav/verifmc/indep"
)

// C03, part "two roots": two handlers serving two DIFFERENT directories live in one process. What the
// first has served must not influence what the second reads, writes or reports (anything remembered across
// requests - resolved names, computed prefixes - that is not keyed by the served directory makes one handler
// reach into the other's directory: outside ITS served directory). Both directories hold the same tree; file
// contents carry the directory's marker, so a response or an effect that crosses over is visible.
//
// Oracle, differential and sequential (one goroutine, so deterministic): phase 1 serves every request of the
// alphabet on a handler over directory B alone (nothing else has been served in this process by this part)
// and keeps (status, body, resulting tree) with the marker abstracted; phase 2 runs every ordered pair
// (qa on A, then qb on B): qa and qb must be answered as in phase 1, A must not change while B is served and
// B must not change while A is served.

func c03TwoTree(marker string) harness.Tree {
	return harness.Tree{"/": {Dir: true}, "/g": {Content: marker + "-g"}, "/a": {Dir: true}, "/a/f": {Content: marker + "-f"}, "/docs": {Dir: true}, "/docs/note.txt": {Content: marker + "-note"}}
}

func c03TwoRequests(marker string) []harness.Req {
	dest := func(d string) map[string]string { return map[string]string{"Destination": d} }
	d1 := map[string]string{"Depth": "1"}
	dinf := map[string]string{"Depth": "infinity"}
	return []harness.Req{
		{Method: "GET", Path: "/g"}, {Method: "HEAD", Path: "/a/f"}, {Method: "OPTIONS", Path: "/docs"},
		{Method: "PUT", Path: "/g", Body: marker + "-put"}, {Method: "PUT", Path: "/new", Body: marker + "-put"}, {Method: "PUT", Path: "/a/f", Body: ""},
		{Method: "DELETE", Path: "/g"}, {Method: "DELETE", Path: "/a"}, {Method: "MKCOL", Path: "/c"}, {Method: "MKCOL", Path: "/a"},
		{Method: "PROPFIND", Path: "/", Header: d1}, {Method: "PROPFIND", Path: "/", Header: dinf}, {Method: "PROPFIND", Path: "/docs", Header: d1}, {Method: "PROPFIND", Path: "/g", Header: map[string]string{"Depth": "0"}},
		{Method: "COPY", Path: "/g", Header: dest("/h")}, {Method: "COPY", Path: "/a", Header: dest("/docs/a")}, {Method: "MOVE", Path: "/g", Header: dest("/a/g")}, {Method: "MOVE", Path: "/docs", Header: dest("/a")},
		{Method: "COPY", Path: "/g", Header: dest("copy.txt")}, {Method: "GET", Path: "/missing"},
	}
}

type c03TwoObs struct {
	status int
	body   string
	tree   string
}

func c03TwoServe(h *webdav.Handler, dir, marker string, q harness.Req) c03TwoObs {
	resp := harness.Serve(h, q)
	t, _ := harness.Snapshot(dir)
	abs := func(s string) string { return strings.ReplaceAll(s, marker+"-", "#-") }
	body := string(resp.Body)
	if resp.Status == 207 {
		// property order inside a response follows map iteration: compare the document as a set
		if ms, err := indep.ReadMultiStatus(resp.Body); err == nil {
			var l []string
			for _, r := range ms.Responses {
				for _, p := range r.Props {
					val := p.Node.Canon()
					if p.Node.Local == "getetag" || p.Node.Local == "getlastmodified" {
						// derived from the modification time, which the materialiser derives from the content (marker)
						val = p.Node.Local + "=(masked)"
					}
					l = append(l, fmt.Sprintf("%v|%d|%s", r.Hrefs, p.Status, val))
				}
				l = append(l, fmt.Sprintf("%v|status=%d", r.Hrefs, r.Status))
			}
			sort.Strings(l)
			body = strings.Join(l, "\n")
		}
	}
	if resp.Panic != "" {
		body = "panic: " + resp.Panic
	}
	return c03TwoObs{resp.Status, abs(body), abs(t.Canon())}
}

type c03TwoCase struct {
	QI     int         `json:"first_index"`
	QJ     int         `json:"second_index"`
	First  harness.Req `json:"first_on_root_a"`
	Second harness.Req `json:"second_on_root_b"`
}

func c03TwoPair(base string, qi, qj int, ref []c03TwoObs) (clause, detail string) {
	dirA, dirB := filepath.Join(base, "root-one"), filepath.Join(base, "other-root-b")
	os.RemoveAll(dirA)
	os.RemoveAll(dirB)
	harness.Materialise(dirA, c03TwoTree("AAA"))
	harness.Materialise(dirB, c03TwoTree("BBB"))
	hA, hB := &webdav.Handler{FileSystem: webdav.LocalFileSystem(dirA)}, &webdav.Handler{FileSystem: webdav.LocalFileSystem(dirB)}
	_, b0 := harness.Snapshot(dirB)
	oa := c03TwoServe(hA, dirA, "AAA", c03TwoRequests("AAA")[qi])
	if _, b1 := harness.Snapshot(dirB); b1 != b0 {
		return "other-root-changed", "serving the first request on root A changed root B"
	}
	if oa != ref[qi] {
		return "first-request-differs-from-alone", fmt.Sprintf("got %d %q tree %s; alone %d %q tree %s", oa.status, trunc(oa.body, 300), oa.tree, ref[qi].status, trunc(ref[qi].body, 300), ref[qi].tree)
	}
	_, a1 := harness.Snapshot(dirA)
	ob := c03TwoServe(hB, dirB, "BBB", c03TwoRequests("BBB")[qj])
	if _, a2 := harness.Snapshot(dirA); a2 != a1 {
		ta, _ := harness.Snapshot(dirA)
		return "other-root-changed", "serving the second request on root B changed root A: " + ta.Canon()
	}
	if ob != ref[qj] {
		return "second-request-differs-from-alone", fmt.Sprintf("got %d %q tree %s; alone %d %q tree %s", ob.status, trunc(ob.body, 300), ob.tree, ref[qj].status, trunc(ref[qj].body, 300), ref[qj].tree)
	}
	return "", ""
}

func c03TwoRef(base string) []c03TwoObs {
	dirB := filepath.Join(base, "other-root-b")
	var ref []c03TwoObs
	for _, q := range c03TwoRequests("BBB") {
		os.RemoveAll(dirB)
		harness.Materialise(dirB, c03TwoTree("BBB"))
		ref = append(ref, c03TwoServe(&webdav.Handler{FileSystem: webdav.LocalFileSystem(dirB)}, dirB, "BBB", q))
	}
	return ref
}

// c03TwoRoots must run BEFORE any other part of the check serves a request in this process.
func c03TwoRoots(r *engine.Run) {
	base := harness.NewDir("tworoots")
	ref := c03TwoRef(base)
	s := r.Shard()
	n := len(ref)
	for qi := 0; qi < n; qi++ {
		for qj := 0; qj < n; qj++ {
			s.Transition()
			s.Transition()
			s.Clause("two roots in one process: each request answered as when its root is served alone; the other root untouched")
			s.Nontrivial(fmt.Sprintf("2R/%d/%d", qi, qj))
			clause, detail := c03TwoPair(base, qi, qj, ref)
			s.Outcome("two-roots/" + clause)
			if clause != "" {
				qa, qb := c03TwoRequests("AAA")[qi], c03TwoRequests("BBB")[qj]
				s.Violate(engine.Violation{Sig: fmt.Sprintf("C03/two-roots/%s/%s-then-%s", clause, qa.Method, qb.Method), Clause: clause, Index: int64(qi*n + qj), Kind: "C03-two-roots",
					Case: c03TwoCase{QI: qi, QJ: qj, First: qa, Second: qb}, Expected: "answered as when served alone; the other served directory untouched", Observed: detail})
			}
		}
	}
	r.Merge(s)
	r.Extra["two_root_pairs"] = n * n
}

func init() {
	registerReplay("C03-two-roots", func(raw json.RawMessage) (bool, string) {
		var c c03TwoCase
		if err := json.Unmarshal(raw, &c); err != nil {
			return false, err.Error()
		}
		defer harness.Cleanup()
		base := harness.NewDir("tworoots")
		ref := c03TwoRef(base)
		if c.QI < 0 || c.QJ < 0 || c.QI >= len(ref) || c.QJ >= len(ref) {
			return false, "index out of range"
		}
		clause, detail := c03TwoPair(base, c.QI, c.QJ, ref)
		return clause == "", clause + " " + detail
	})
}
