package checks

import (
	"encoding/json"
	"fmt"
	"os"
	"path/filepath"
	"sort"
	"strings"

	webdav "github.com/emersion/go-webdav"
	"github.com/emersion/go-webdav/verifmc/engine"
	"github.com/emersion/go-webdav/verifmc/harness"
	"github.com/emersion/go-webdav/verifmc/indep"
)

// C01, part "served directory named '.'": the file server configured with the relative name "." (what
// cmd/webdav-server does when it is started without an argument) while the process's working directory IS the
// served directory. Joined paths then carry no directory prefix at all ("a", "a/b", "." for the root), the one
// spelling of the root the other root-spelling runs cannot produce.
//
// Oracle: model-free differential. Every request is served, from the same tree, by a handler over "." and by a
// handler over the same tree under an absolute name; status, body (multistatus documents as sets) and the
// tree afterwards must be equal. Requests whose source is the root itself are included here (the reference
// model has no opinion on them; the differential has). Sequential, and run before the parallel exploration,
// because the working directory is process-wide.

type c01CwdCase struct {
	State harness.Tree `json:"state"`
	Req   harness.Req  `json:"request"`
}

func c01CwdCanonBody(resp harness.Resp) string {
	if resp.Panic != "" {
		return "panic: " + resp.Panic
	}
	if resp.Status == 207 {
		if ms, err := indep.ReadMultiStatus(resp.Body); err == nil {
			var l []string
			for _, r := range ms.Responses {
				for _, p := range r.Props {
					l = append(l, fmt.Sprintf("%v|%d|%s", r.Hrefs, p.Status, p.Node.Canon()))
				}
				l = append(l, fmt.Sprintf("%v|status=%d", r.Hrefs, r.Status))
			}
			sort.Strings(l)
			return strings.Join(l, "\n")
		}
	}
	return string(resp.Body)
}

// c01CwdPair serves q from state t under both names of the directory.
func c01CwdPair(base string, t harness.Tree, q harness.Req) (clause, detail string) {
	dirAbs, dirRel := filepath.Join(base, "abs"), filepath.Join(base, "rel")
	os.RemoveAll(dirAbs)
	os.RemoveAll(dirRel)
	harness.Materialise(dirAbs, t)
	harness.Materialise(dirRel, t)
	if err := os.Chdir(dirRel); err != nil {
		return "tool-error", err.Error()
	}
	ra := harness.Serve(&webdav.Handler{FileSystem: webdav.LocalFileSystem(dirAbs)}, q)
	rr := harness.Serve(&webdav.Handler{FileSystem: webdav.LocalFileSystem(".")}, q)
	os.Chdir(base)
	ta, _ := harness.Snapshot(dirAbs)
	tr, _ := harness.Snapshot(dirRel)
	if rr.Panic != "" {
		return "cwd-root-panic", rr.Panic
	}
	if ra.Status != rr.Status {
		return "cwd-root-status-differs", fmt.Sprintf("served as \".\": %d %q (tree %s); served under an absolute name: %d (tree %s)", rr.Status, trunc(string(rr.Body), 120), tr.Canon(), ra.Status, ta.Canon())
	}
	if ta.Canon() != tr.Canon() {
		return "cwd-root-effect-differs", fmt.Sprintf("status %d; served as \".\": tree %s; served under an absolute name: tree %s", rr.Status, tr.Canon(), ta.Canon())
	}
	if q.Method != "PUT" { // a PUT answers with the tag of the moment of writing
		if a, b := c01CwdCanonBody(ra), c01CwdCanonBody(rr); a != b {
			return "cwd-root-body-differs", fmt.Sprintf("status %d; served as \".\": %q; served under an absolute name: %q", rr.Status, trunc(b, 300), trunc(a, 300))
		}
	}
	return "", ""
}

func c01CwdRequests(reqs []harness.Req) []harness.Req {
	var out []harness.Req
	for i, q := range reqs {
		if i%9 == 0 || q.Path == "/" {
			out = append(out, q)
		}
	}
	// the root as the source of COPY / MOVE, the root deleted, in several spellings
	for _, m := range []string{"COPY", "MOVE"} {
		for _, src := range []string{"/", "/.", "//"} {
			for _, d := range []string{"/a", "/b.html", "/a/a", "/new", "/", "/a/new"} {
				for _, ow := range []string{"", "T", "F"} {
					h := map[string]string{"Destination": d}
					if ow != "" {
						h["Overwrite"] = ow
					}
					out = append(out, harness.Req{Method: m, Path: src, Header: h})
				}
			}
		}
	}
	for _, p := range []string{"/", "/.", "/a/.."} {
		out = append(out, harness.Req{Method: "DELETE", Path: p})
	}
	// listings and reads of names beginning with a dot
	for _, p := range []string{"/", "/.config", "/a", "/.profile", "/..rc", "/a/.hidden"} {
		for _, d := range []string{"0", "1", "infinity"} {
			out = append(out, harness.Req{Method: "PROPFIND", Path: p, Header: map[string]string{"Depth": d}})
		}
		out = append(out, harness.Req{Method: "GET", Path: p})
	}
	return out
}

func c01CwdRoot(r *engine.Run, states []harness.Tree, reqs []harness.Req) {
	wd, err := os.Getwd()
	if err != nil {
		return
	}
	defer os.Chdir(wd)
	base := harness.NewDir("cwdroot")
	s := r.Shard()
	rq := c01CwdRequests(reqs)
	n := 0
	for si, t := range states {
		for qi, q := range rq {
			s.Transition()
			s.Transition()
			n++
			clause, detail := c01CwdPair(base, t, q)
			s.Clause("served directory named \".\": every request answered and carried out as under an absolute name")
			s.Outcome("cwd-root/" + clause)
			s.Nontrivial(fmt.Sprintf("CWD/%d/%d", si, qi))
			if clause != "" {
				s.Violate(engine.Violation{Sig: fmt.Sprintf("C01/%s/%s.path=%s", clause, q.Method, c03PathClass(q.Path)), Clause: clause, Index: int64(si)*int64(len(rq)) + int64(qi), Kind: "C01-cwd",
					Case: c01CwdCase{State: t, Req: q}, Expected: "same status, body and effect as when the directory is configured under an absolute name", Observed: detail})
			}
		}
	}
	os.Chdir(wd)
	r.Merge(s)
	r.Extra["cwd_root_pairs"] = n
}

func init() {
	registerReplay("C01-cwd", func(raw json.RawMessage) (bool, string) {
		var c c01CwdCase
		if err := json.Unmarshal(raw, &c); err != nil {
			return false, err.Error()
		}
		wd, _ := os.Getwd()
		defer os.Chdir(wd)
		defer harness.Cleanup()
		clause, detail := c01CwdPair(harness.NewDir("cwdroot"), c.State, c.Req)
		return clause == "", clause + " " + detail
	})
}
