package checks

import (
	"context"
	"encoding/json"
	"fmt"
	"io"
	"net/http"

	webdav "github.com/emersion/go-webdav"
	"github.com/emersion/go-webdav/verifmc/engine"
	"github.com/emersion/go-webdav/verifmc/harness"
)

// C14, part "redirected upload": the client is handed a stock http.Client (which follows redirects); the server
// answers the PUT of a streamed upload with a redirect and the redirect target with 200. net/http turns a 301 /
// 302 / 303 into a body-less GET: what comes back 2xx is then the answer to that GET, not to the upload. Close
// must return nil exactly when the UPLOAD was answered 2xx. (307 / 308 ask for the PUT to be repeated, which a
// streamed body cannot be: an error too.)

type c14RedirCase struct {
	Status int `json:"redirect_status"`
	Chunks int `json:"write_calls"`
}

func c14RedirectJudge(c c14RedirCase) (clause, detail string) {
	stored := false
	h := http.HandlerFunc(func(w http.ResponseWriter, r *http.Request) {
		switch {
		case r.Method == http.MethodPut && r.URL.Path == "/old.txt":
			io.Copy(io.Discard, r.Body)
			w.Header().Set("Location", "/new.txt")
			w.WriteHeader(c.Status)
		case r.Method == http.MethodPut:
			io.Copy(io.Discard, r.Body)
			stored = true
			w.WriteHeader(http.StatusCreated)
		default:
			w.Header().Set("Content-Type", "text/plain")
			io.WriteString(w, "the resource at the new place")
		}
	})
	w := &harness.Wire{Handler: h}
	cl, err := webdav.NewClient(w.Client(), "http://h/")
	if err != nil {
		return "client", err.Error()
	}
	wc, err := cl.Create(context.Background(), "/old.txt")
	if err != nil {
		return "", "" // refused up front: fine
	}
	for i := 0; i < c.Chunks; i++ {
		wc.Write([]byte("data"))
	}
	cerr := wc.Close()
	if cerr == nil && !stored {
		return "close-nil-although-the-upload-was-not-answered-2xx", fmt.Sprintf("PUT answered %d, nothing stored, Close() == nil", c.Status)
	}
	return "", ""
}

func c14Redirects(r *engine.Run) {
	sh := r.Shard()
	k := 0
	for _, st := range []int{301, 302, 303, 307, 308} {
		for _, n := range []int{0, 1, 3} {
			c := c14RedirCase{Status: st, Chunks: n}
			sh.Transition()
			clause, detail := c14RedirectJudge(c)
			sh.Clause("redirected upload: Close is nil only when the upload itself was answered 2xx")
			sh.Nontrivial(fmt.Sprintf("RD/%d", k))
			sh.Outcome("upload-redirect/" + clause)
			if clause != "" {
				sh.Violate(engine.Violation{Sig: fmt.Sprintf("C14/%s/webdav.Create/status=%d", clause, st), Clause: clause, Index: int64(1)<<40 + int64(k), Kind: "C14-redirect", Case: c,
					Expected: "an error from Close: the upload was not answered 2xx", Observed: detail})
			}
			k++
		}
	}
	r.Merge(sh)
}

func init() {
	registerReplay("C14-redirect", func(raw json.RawMessage) (bool, string) {
		var c c14RedirCase
		if err := json.Unmarshal(raw, &c); err != nil {
			return false, err.Error()
		}
		clause, detail := c14RedirectJudge(c)
		return clause == "", clause + " " + detail
	})
}
