// Command mc runs one check (mc check <ID> <quick|thorough>) or replays one artefact (mc replay <file>).
package main

import (
	"encoding/json"
	"fmt"
	"os"
	"runtime/debug"
	"sort"

	"github.com/emersion/go-webdav/verifmc/checks"
	"github.com/emersion/go-webdav/verifmc/engine"
)

func main() {
	if len(os.Args) < 2 {
		usage()
	}
	switch os.Args[1] {
	case "check":
		if len(os.Args) < 4 {
			usage()
		}
		id, tier := os.Args[2], os.Args[3]
		if tier != "quick" && tier != "thorough" {
			usage()
		}
		c, ok := checks.Registry[id]
		if !ok {
			fmt.Fprintf(os.Stderr, "mc: unknown check %q\n", id)
			os.Exit(2)
		}
		r := engine.NewRun(id, tier)
		func() {
			defer func() {
				if p := recover(); p != nil {
					fmt.Fprintf(os.Stderr, "mc: internal panic in checker %s: %v\n%s\n", id, p, debug.Stack())
					os.Exit(2)
				}
			}()
			c(r)
		}()
		os.Exit(r.Finish())
	case "replay":
		if len(os.Args) < 3 {
			usage()
		}
		b, err := os.ReadFile(os.Args[2])
		if err != nil {
			fmt.Fprintln(os.Stderr, err)
			os.Exit(2)
		}
		var v struct {
			Property string          `json:"property"`
			Sig      string          `json:"signature"`
			Kind     string          `json:"kind"`
			Case     json.RawMessage `json:"case"`
			Expected string          `json:"expected"`
			Observed string          `json:"observed"`
		}
		if err := json.Unmarshal(b, &v); err != nil {
			fmt.Fprintln(os.Stderr, err)
			os.Exit(2)
		}
		rp, ok := checks.Replayers[v.Kind]
		if !ok {
			fmt.Fprintf(os.Stderr, "mc: no replayer for kind %q\n", v.Kind)
			os.Exit(2)
		}
		held, detail := rp(v.Case)
		fmt.Printf("replay property=%s sig=%s\n  recorded expected: %s\n  recorded observed: %s\n  now: %s\n", v.Property, v.Sig, v.Expected, v.Observed, detail)
		if held {
			fmt.Println("RESULT: property holds on this case now")
			os.Exit(0)
		}
		fmt.Printf("VIOLATION property=%s replay=%s\n", v.Property, os.Args[2])
		os.Exit(1)
	case "list":
		var ids []string
		for id := range checks.Registry {
			ids = append(ids, id)
		}
		sort.Strings(ids)
		for _, id := range ids {
			fmt.Println(id)
		}
	default:
		usage()
	}
}

func usage() {
	fmt.Fprintln(os.Stderr, "usage: mc check <ID> <quick|thorough> | mc replay <file> | mc list")
	os.Exit(2)
}
