// Command overlaygen derives, from /repo/fs_local.go as it is NOW, a copy in which every call
// os.Open/Stat/Create/Remove/RemoveAll/Mkdir/OpenFile/Rename goes through package vos, and writes
// a `go build -overlay` file mapping the original to the copy. /repo is not touched.
// Exit 2 if nothing could be rewritten (the seam has moved: the fault checks would be vacuous).
package main

import (
	"bytes"
	"encoding/json"
	"fmt"
	"go/ast"
	"go/format"
	"go/parser"
	"go/token"
	"os"
	"path/filepath"
	"strconv"
)

func main() {
	if len(os.Args) != 4 {
		fmt.Fprintln(os.Stderr, "usage: overlaygen <source fs_local.go> <scratch dir> <overlay.json>")
		os.Exit(2)
	}
	src, dir, out := os.Args[1], os.Args[2], os.Args[3]
	fset := token.NewFileSet()
	f, err := parser.ParseFile(fset, src, nil, parser.ParseComments)
	if err != nil {
		fmt.Fprintln(os.Stderr, "overlaygen:", err)
		os.Exit(2)
	}
	rename := map[string]string{"Open": "Open", "Stat": "Stat", "Create": "Create", "Remove": "Remove_", "RemoveAll": "RemoveAll", "Mkdir": "Mkdir", "OpenFile": "OpenFile", "Rename": "Rename"}
	n := 0
	ast.Inspect(f, func(node ast.Node) bool {
		call, ok := node.(*ast.CallExpr)
		if !ok {
			return true
		}
		sel, ok := call.Fun.(*ast.SelectorExpr)
		if !ok {
			return true
		}
		id, ok := sel.X.(*ast.Ident)
		if !ok || id.Name != "os" || id.Obj != nil {
			return true
		}
		if to, ok := rename[sel.Sel.Name]; ok {
			id.Name = "vos"
			sel.Sel.Name = to
			n++
		}
		return true
	})
	if n == 0 {
		fmt.Fprintln(os.Stderr, "overlaygen: no os.* call found to rewrite in", src)
		os.Exit(2)
	}
	// add the import
	imp := &ast.ImportSpec{Path: &ast.BasicLit{Kind: token.STRING, Value: strconv.Quote("github.com/emersion/go-webdav/verifmc/vos")}}
	for _, d := range f.Decls {
		if gd, ok := d.(*ast.GenDecl); ok && gd.Tok == token.IMPORT {
			gd.Specs = append(gd.Specs, imp)
			break
		}
	}
	f.Imports = append(f.Imports, imp)
	var buf bytes.Buffer
	if err := format.Node(&buf, fset, f); err != nil {
		fmt.Fprintln(os.Stderr, "overlaygen:", err)
		os.Exit(2)
	}
	os.MkdirAll(dir, 0o755)
	dst := filepath.Join(dir, "fs_local_vos.go")
	if err := os.WriteFile(dst, buf.Bytes(), 0o644); err != nil {
		fmt.Fprintln(os.Stderr, "overlaygen:", err)
		os.Exit(2)
	}
	abs, _ := filepath.Abs(src)
	ov, _ := json.Marshal(map[string]interface{}{"Replace": map[string]string{abs: dst}})
	if err := os.WriteFile(out, ov, 0o644); err != nil {
		fmt.Fprintln(os.Stderr, "overlaygen:", err)
		os.Exit(2)
	}
	fmt.Printf("overlaygen: %d os calls of %s routed through vos\n", n, src)
}
