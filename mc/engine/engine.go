// Package engine holds the bookkeeping shared by every check: counters,
// distinct-case accounting, outcome classes (vacuity guard), violation
// signatures, known findings, replay artefacts and the evidence writer.
package engine

import (
	"encoding/json"
	"fmt"
	"hash/fnv"
	"os"
	"path/filepath"
	"regexp"
	"runtime"
	"sort"
	"strings"
	"sync"
	"time"
)

// VerifDir is where MANIFEST.json, KNOWN_FINDINGS.json, evidence/ and replays/ live.
var VerifDir = func() string {
	if d := os.Getenv("VERIF_DIR"); d != "" {
		return d
	}
	return "/verif"
}()

// Violation is one failing case.
type Violation struct {
	Property string      `json:"property"`
	Sig      string      `json:"signature"`
	Clause   string      `json:"clause"`
	Index    int64       `json:"index"`
	Kind     string      `json:"kind"` // replay dispatcher key
	Case     interface{} `json:"case"`
	Expected string      `json:"expected"`
	Observed string      `json:"observed"`
}

// Shard is a lock-free accumulator owned by one worker.
type Shard struct {
	run         *Run
	evals       int64
	states      int64
	transitions int64
	nontriv     []uint64
	outcomes    map[string]int64
	clauses     map[string]int64
	viols       map[string]*Violation
	violCount   map[string]int64
	samples     []interface{}
	counters    map[string]int64
	compactAt   int
}

// Run is one invocation of one check.
type Run struct {
	ID    string
	Tier  string
	Seed  int64
	start time.Time

	mu     sync.Mutex
	merged Shard

	Rule        string
	Explanation string
	Assumptions []string
	Caps        []string
	Exhaustive  bool
	Extra       map[string]interface{}
	known       []Finding
	MaxSamples  int
}

type Finding struct {
	Property string `json:"property"`
	Sig      string `json:"signature"`
	What     string `json:"what"`
	Status   string `json:"status"` // open | fixed
	Commit   string `json:"commit,omitempty"`
	Example  string `json:"example_replay,omitempty"`
}

func NewRun(id, tier string) *Run {
	r := &Run{ID: id, Tier: tier, start: time.Now(), Exhaustive: true, Extra: map[string]interface{}{}, MaxSamples: 6}
	fmt.Sscan(os.Getenv("VERIF_SEED"), &r.Seed)
	r.merged = *r.newShard()
	r.known = LoadFindings()
	return r
}

func LoadFindings() []Finding {
	b, err := os.ReadFile(filepath.Join(VerifDir, "KNOWN_FINDINGS.json"))
	if err != nil {
		return nil
	}
	var f struct {
		Findings []Finding `json:"findings"`
	}
	if err := json.Unmarshal(b, &f); err != nil {
		fmt.Fprintf(os.Stderr, "engine: KNOWN_FINDINGS.json unreadable: %v\n", err)
		os.Exit(2)
	}
	return f.Findings
}

func (r *Run) newShard() *Shard {
	return &Shard{run: r, outcomes: map[string]int64{}, clauses: map[string]int64{}, viols: map[string]*Violation{}, violCount: map[string]int64{}, counters: map[string]int64{}}
}

func (r *Run) Shard() *Shard { return r.newShard() }

// Eval counts one evaluated case.
func (s *Shard) Eval() { s.evals++ }

// State / Transition count explored states / implementation transitions.
func (s *Shard) State()                { s.states++ }
func (s *Shard) Transition()           { s.transitions++; s.evals++ }
func (s *Shard) Count(k string)        { s.counters[k]++ }
func (s *Shard) Add(k string, n int64) { s.counters[k] += n }

// Nontrivial records a canonical description of a case that is non-trivial by the
// check's rule. Distinctness is measured over the 64-bit FNV hash of the key.
func (s *Shard) Nontrivial(key string) {
	h := fnv.New64a()
	h.Write([]byte(key))
	s.nontriv = append(s.nontriv, h.Sum64())
	if s.compactAt == 0 {
		s.compactAt = 1 << 20
	}
	if len(s.nontriv) >= s.compactAt {
		s.compact()
		// when (nearly) all keys are distinct the slice stays long: compact again only after it has doubled
		if s.compactAt < 2*len(s.nontriv) {
			s.compactAt = 2 * len(s.nontriv)
		}
	}
}

func (s *Shard) compact() {
	sort.Slice(s.nontriv, func(i, j int) bool { return s.nontriv[i] < s.nontriv[j] })
	out := s.nontriv[:0]
	var last uint64
	for i, v := range s.nontriv {
		if i == 0 || v != last {
			out = append(out, v)
		}
		last = v
	}
	s.nontriv = out
}

// Outcome records the outcome class of a case (vacuity guard).
func (s *Shard) Outcome(class string) { s.outcomes[class]++ }

// Clause records that an oracle clause actually fired (was applicable and checked).
func (s *Shard) Clause(name string) { s.clauses[name]++ }

// Sample offers a case for the evidence samples list.
func (s *Shard) Sample(v interface{}) {
	if len(s.samples) < s.run.MaxSamples {
		s.samples = append(s.samples, v)
	}
}

// Violate records a violation. Only the lowest-index case per signature is kept.
func (s *Shard) Violate(v Violation) {
	v.Property = s.run.ID
	s.violCount[v.Sig]++
	if old, ok := s.viols[v.Sig]; !ok || v.Index < old.Index {
		vv := v
		s.viols[v.Sig] = &vv
	}
}

// Merge folds a worker shard into the run.
func (r *Run) Merge(s *Shard) {
	r.mu.Lock()
	defer r.mu.Unlock()
	m := &r.merged
	m.evals += s.evals
	m.states += s.states
	m.transitions += s.transitions
	m.nontriv = append(m.nontriv, s.nontriv...)
	if len(m.nontriv) >= 1<<22 {
		m.compact()
	}
	for k, v := range s.outcomes {
		m.outcomes[k] += v
	}
	for k, v := range s.clauses {
		m.clauses[k] += v
	}
	for k, v := range s.counters {
		m.counters[k] += v
	}
	for k, v := range s.violCount {
		m.violCount[k] += v
	}
	for k, v := range s.viols {
		if old, ok := m.viols[k]; !ok || v.Index < old.Index {
			m.viols[k] = v
		}
	}
	for _, x := range s.samples {
		if len(m.samples) < r.MaxSamples {
			m.samples = append(m.samples, x)
		}
	}
}

// Parallel runs fn(i, shard) for i in [0,n) on all cores; shards are merged afterwards.
// Work is distributed dynamically in blocks but results are index-keyed, so the
// outcome (counts, first violation per signature) is independent of timing.
func (r *Run) Parallel(n int, fn func(i int, s *Shard)) {
	workers := runtime.NumCPU()
	if w := os.Getenv("VERIF_WORKERS"); w != "" {
		fmt.Sscan(w, &workers)
	}
	if workers > n {
		workers = n
	}
	if workers < 1 {
		workers = 1
	}
	var next int64
	var mu sync.Mutex
	var wg sync.WaitGroup
	block := n / (workers * 16)
	if block < 1 {
		block = 1
	}
	for w := 0; w < workers; w++ {
		wg.Add(1)
		go func() {
			defer wg.Done()
			s := r.Shard()
			for {
				mu.Lock()
				lo := int(next)
				next += int64(block)
				mu.Unlock()
				if lo >= n {
					break
				}
				hi := lo + block
				if hi > n {
					hi = n
				}
				for i := lo; i < hi; i++ {
					fn(i, s)
				}
			}
			r.Merge(s)
		}()
	}
	wg.Wait()
}

var sigSan = regexp.MustCompile(`[^A-Za-z0-9._=+-]+`)

// Finish writes evidence and replay artefacts, prints the verdict lines and returns the exit code.
func (r *Run) Finish() int {
	m := &r.merged
	m.compact()
	wall := time.Since(r.start).Seconds()

	sigs := make([]string, 0, len(m.viols))
	for k := range m.viols {
		sigs = append(sigs, k)
	}
	sort.Slice(sigs, func(i, j int) bool {
		a, b := m.viols[sigs[i]], m.viols[sigs[j]]
		if a.Index != b.Index {
			return a.Index < b.Index
		}
		return sigs[i] < sigs[j]
	})

	open := map[string]Finding{}
	for _, f := range r.known {
		if f.Property == r.ID && f.Status == "open" {
			open[f.Sig] = f
		}
	}
	matchedOpen := map[string]bool{}
	exit := 0
	nViol := 0
	var knownLines, violLines []string
	for _, sig := range sigs {
		v := m.viols[sig]
		if f, ok := open[sig]; ok {
			matchedOpen[sig] = true
			knownLines = append(knownLines, fmt.Sprintf("KNOWN-FINDING: property=%s %s %s (cases=%d)", r.ID, sig, f.What, m.violCount[sig]))
			continue
		}
		nViol++
		exit = 1
		dir := filepath.Join(VerifDir, "replays", r.ID)
		os.MkdirAll(dir, 0o755)
		name := sigSan.ReplaceAllString(sig, "_")
		if len(name) > 150 {
			h := fnv.New32a()
			h.Write([]byte(sig))
			name = fmt.Sprintf("%s_%08x", name[:140], h.Sum32())
		}
		p := filepath.Join(dir, name+".json")
		b, _ := json.MarshalIndent(v, "", " ")
		os.WriteFile(p, b, 0o644)
		if len(violLines) < 40 {
			violLines = append(violLines, fmt.Sprintf("VIOLATION property=%s replay=%s sig=%s cases=%d expected=%s observed=%s", r.ID, p, sig, m.violCount[sig], trunc(v.Expected, 160), trunc(v.Observed, 160)))
		}
	}
	for _, l := range knownLines {
		fmt.Println(l)
	}
	for sig := range open {
		if !matchedOpen[sig] && r.Tier == "thorough" {
			fmt.Printf("STALE-FINDING: property=%s %s (no case matched in this run)\n", r.ID, sig)
		}
	}
	for _, l := range violLines {
		fmt.Println(l)
	}

	states, transitions := m.states, m.transitions
	if states == 0 {
		states = 1
	}
	if transitions == 0 {
		transitions = m.evals
	}
	cov := map[string]interface{}{
		"evaluations":                   m.evals,
		"states":                        states,
		"transitions":                   transitions,
		"traces_validated_against_impl": transitions,
		"distinct_nontrivial":           len(m.nontriv),
		"rule":                          r.Rule,
		"samples":                       m.samples,
		"exhaustive":                    r.Exhaustive && len(r.Caps) == 0,
		"distinct_outcome_classes":      len(m.outcomes),
		"outcome_classes":               topN(m.outcomes, 60),
		"oracle_clause_hits":            m.clauses,
		"counters":                      m.counters,
		"caps_hit":                      r.Caps,
		"explanation":                   r.Explanation,
		"known_findings_matched":        len(knownLines),
		"violation_signatures":          nViol,
	}
	for k, v := range r.Extra {
		cov[k] = v
	}
	if len(m.samples) == 0 {
		cov["samples"] = []interface{}{"(no sample recorded)"}
	}
	if r.Assumptions == nil {
		r.Assumptions = []string{}
	}
	if r.Caps == nil {
		r.Caps = []string{}
	}
	cov["caps_hit"] = r.Caps
	ev := map[string]interface{}{
		"property_id": r.ID,
		"tier":        r.Tier,
		"seed":        r.Seed,
		"level":       "model_checking",
		"coverage":    cov,
		"assumptions": r.Assumptions,
		"wall_s":      wall,
		"violations":  nViol,
	}
	b, _ := json.MarshalIndent(ev, "", " ")
	os.MkdirAll(filepath.Join(VerifDir, "evidence"), 0o755)
	if err := os.WriteFile(filepath.Join(VerifDir, "evidence", r.ID+".json"), b, 0o644); err != nil {
		fmt.Fprintf(os.Stderr, "engine: cannot write evidence: %v\n", err)
		return 2
	}
	fmt.Printf("%s %s: evaluations=%d states=%d transitions=%d distinct_nontrivial=%d outcome_classes=%d known=%d violations=%d exhaustive=%v wall=%.1fs\n",
		r.ID, r.Tier, m.evals, states, transitions, len(m.nontriv), len(m.outcomes), len(knownLines), nViol, cov["exhaustive"], wall)
	return exit
}

func trunc(s string, n int) string {
	s = strings.ReplaceAll(s, "\n", "\\n")
	if len(s) > n {
		return s[:n] + "…"
	}
	return s
}

func topN(m map[string]int64, n int) map[string]int64 {
	if len(m) <= n {
		return m
	}
	type kv struct {
		k string
		v int64
	}
	var l []kv
	for k, v := range m {
		l = append(l, kv{k, v})
	}
	sort.Slice(l, func(i, j int) bool { return l[i].v > l[j].v || (l[i].v == l[j].v && l[i].k < l[j].k) })
	out := map[string]int64{}
	for _, e := range l[:n] {
		out[e.k] = e.v
	}
	return out
}

// Deadline support: checks may consult a soft budget; expiry marks the run non-exhaustive.
func (r *Run) Budget() time.Duration {
	if b := os.Getenv("VERIF_BUDGET_S"); b != "" {
		var s float64
		fmt.Sscan(b, &s)
		return time.Duration(s * float64(time.Second))
	}
	return 0
}

func (r *Run) Elapsed() time.Duration { return time.Since(r.start) }

func (r *Run) Cap(msg string) {
	r.mu.Lock()
	defer r.mu.Unlock()
	for _, c := range r.Caps {
		if c == msg {
			return
		}
	}
	r.Caps = append(r.Caps, msg)
}

// ShardData is the serialisable form of a shard (for process-level sharding).
type ShardData struct {
	Evals, States, Transitions int64
	Nontriv                    []uint64
	Outcomes, Clauses          map[string]int64
	Counters                   map[string]int64
	Viols                      map[string]*Violation
	ViolCount                  map[string]int64
	Samples                    []interface{}
	Caps                       []string
	Extra                      map[string]interface{}
}

// Export serialises the shard.
func (s *Shard) Export(caps []string, extra map[string]interface{}) ([]byte, error) {
	s.compact()
	return json.Marshal(ShardData{s.evals, s.states, s.transitions, s.nontriv, s.outcomes, s.clauses, s.counters, s.viols, s.violCount, s.samples, caps, extra})
}

// Import merges an exported shard into the run; numeric extras are summed.
func (r *Run) Import(b []byte) error {
	var d ShardData
	if err := json.Unmarshal(b, &d); err != nil {
		return err
	}
	s := r.Shard()
	s.evals, s.states, s.transitions, s.nontriv = d.Evals, d.States, d.Transitions, d.Nontriv
	if d.Outcomes != nil {
		s.outcomes = d.Outcomes
	}
	if d.Clauses != nil {
		s.clauses = d.Clauses
	}
	if d.Counters != nil {
		s.counters = d.Counters
	}
	if d.Viols != nil {
		s.viols = d.Viols
	}
	if d.ViolCount != nil {
		s.violCount = d.ViolCount
	}
	s.samples = d.Samples
	r.Merge(s)
	for _, c := range d.Caps {
		r.Cap(c)
	}
	r.mu.Lock()
	for k, v := range d.Extra {
		if f, ok := v.(float64); ok {
			if old, ok := r.Extra[k].(float64); ok {
				r.Extra[k] = old + f
			} else if _, exists := r.Extra[k]; !exists {
				r.Extra[k] = f
			}
		} else if _, exists := r.Extra[k]; !exists {
			r.Extra[k] = v
		}
	}
	r.mu.Unlock()
	return nil
}

// SetStart overrides the start time (used when the work ran in other processes).
func (r *Run) SetStart(t time.Time) { r.start = t }
