module github.com/emersion/go-webdav/verifmcsync

go 1.26.8

require (
	github.com/emersion/go-ical v0.0.0-20240127095438-fc1c9d8fb2b6
	github.com/emersion/go-vcard v0.0.0-20230815062825-8fda7d206ec9
	github.com/emersion/go-webdav v0.0.0
	github.com/emersion/go-webdav/verifmc v0.0.0
)

require github.com/teambition/rrule-go v1.8.2 // indirect

replace github.com/emersion/go-webdav => /repo

replace github.com/emersion/go-webdav/verifmc => ../mc
