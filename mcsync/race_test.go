package c18

import (
	"context"
	"fmt"
	"net/http/httptest"
	"os"
	"runtime"
	"sync"
	"testing"
	"time"

	webdav "github.com/emersion/go-webdav"
)

// TestRaceFree is part C: the harness bodies of parts A and B run WITHOUT the scheduler (a
// cooperative scheduler's hand-offs are happens-before edges that blind the race detector).
// It is built with -race by bin/build-c18; race reports go to GORACE=log_path files which the
// caller counts. This pass is sampling and is labelled so in the evidence.
func TestRaceFree(t *testing.T) {
	rounds := 50
	if tier() == "thorough" {
		rounds = 400
	}
	ops := 0
	var mu sync.Mutex
	for _, procs := range []int{1, 2, 4, 16} {
		old := runtime.GOMAXPROCS(procs)
		// the prefix kinds several times: a write to handler state during the FIRST requests of a
		// fresh handler is only exposed while those first requests overlap
		for _, kind := range []string{"webdav", "caldav", "carddav", "caldav-prefix", "carddav-prefix", "caldav-prefix", "carddav-prefix", "caldav-prefix", "carddav-prefix"} {
			const n = 8
			sys := newSystem(kind, n, nil)
			sys.freshNames = true
			names := webdavOps
			if kind != "webdav" {
				names = []string{"find", "multiget", "query", "get", "put", "options"}
			}
			var wg sync.WaitGroup
			for g := 1; g <= n; g++ {
				wg.Add(1)
				go func(g int) {
					defer wg.Done()
					ctx := withTID(context.Background(), g)
					for i := 0; i < rounds; i++ {
						sys.runOp(ctx, nil, g, names[(i+g)%len(names)])
					}
					mu.Lock()
					ops += rounds
					mu.Unlock()
				}(g)
			}
			wg.Wait()
		}
		// uploads against the scripted server, free-running
		for _, h := range uploadHarnesses(false) {
			if h.Env.Terminal == "stall" && !h.Canceller {
				continue
			}
			var wg sync.WaitGroup
			for g := 0; g < 2; g++ {
				wg.Add(1)
				go func() {
					defer wg.Done()
					runUploadFree(h)
				}()
			}
			// an upload completes in microseconds; one that has not returned after two minutes never will
			// (exit code 124 = did not terminate, as timeout(1) reports it)
			fin := make(chan struct{})
			go func() { wg.Wait(); close(fin) }()
			select {
			case <-fin:
			case <-time.After(2 * time.Minute):
				fmt.Fprintf(os.Stderr, "C18 race pass: upload did not return: %s\n", h)
				os.Exit(124)
			}
			ops += 2
		}
		// real sockets: one shared handler over LocalFileSystem, one shared client
		dir, err := os.MkdirTemp("", "c18race")
		if err == nil {
			for g := 1; g <= 4; g++ {
				os.MkdirAll(fmt.Sprintf("%s/t%d/sub", dir, g), 0o755)
				os.WriteFile(fmt.Sprintf("%s/t%d/f", dir, g), []byte("data"), 0o644)
				os.WriteFile(fmt.Sprintf("%s/t%d/sub/g", dir, g), []byte("g"), 0o644)
			}
			srv := httptest.NewServer(&webdav.Handler{FileSystem: webdav.LocalFileSystem(dir)})
			cl, _ := webdav.NewClient(srv.Client(), srv.URL)
			sys := &sharedSystem{kind: "webdav", wd: cl, freshNames: true}
			var wg sync.WaitGroup
			for g := 1; g <= 4; g++ {
				wg.Add(1)
				go func(g int) {
					defer wg.Done()
					ctx := context.Background()
					for i := 0; i < rounds/5+1; i++ {
						for _, op := range []string{"stat", "readdir", "open", "create", "mkdir", "copy"} {
							sys.runOp(ctx, nil, g, op)
						}
					}
				}(g)
			}
			wg.Wait()
			ops += 4 * (rounds/5 + 1) * 6
			srv.Close()
			os.RemoveAll(dir)
		}
		runtime.GOMAXPROCS(old)
	}
	if f := os.Getenv("C18_RACE_OPS"); f != "" {
		os.WriteFile(f, []byte(fmt.Sprint(ops)), 0o644)
	}
}

// runUploadFree runs one upload harness without scheduler and without bubble.
func runUploadFree(h uploadHarness) {
	ctx, cancel := context.WithCancel(context.Background())
	defer cancel()
	env := &fakeEnv{script: h.Env, log: &eventLog{}}
	cl, _ := webdav.NewClient(env, "http://h/")
	done := make(chan struct{})
	if h.Canceller {
		go func() { cancel(); close(done) }()
	} else {
		close(done)
	}
	wc, err := cl.Create(ctx, "/f")
	if err != nil {
		return
	}
	off := 0
	for _, c := range h.Chunks {
		wc.Write([]byte(uploadData[off : off+c]))
		off += c
	}
	wc.Close()
	<-done
}
