package c18

import "encoding/json"

func jsonUnmarshal(b []byte, v interface{}) error { return json.Unmarshal(b, v) }
