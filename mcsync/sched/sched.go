// Package sched is a controlled scheduler for goroutines running inside a testing/synctest
// bubble, plus a stateless depth-first explorer of all interleavings of its scheduling points
// (iteratively preemption-bounded or unbounded).
//
// Every harness-owned action calls Point(key, label), which parks the calling goroutine on a
// private channel. The controller loop is: synctest.Wait() (returns when every other goroutine
// of the bubble is durably blocked), collect the parked keys (the enabled set; goroutines
// blocked inside library code are simply not in it), pick one according to the DFS prefix,
// release it, repeat. "Nothing parked but not every thread finished" is a deadlock.
package sched

import (
	"fmt"
	"sort"
	"strings"
	"sync"
	"testing/synctest"
)

type parkedT struct {
	label string
	ch    chan struct{}
}

// Sched controls one execution.
type Sched struct {
	mu      sync.Mutex
	parked  map[string]*parkedT
	running map[string]bool // registered threads that have not finished
	prefix  []int
	step    int
	last    string

	Trace    []string // "key:label" in the order granted
	Choices  []int
	Enabled  []int  // number of enabled keys at each step
	LastEn   []bool // whether the previously running key was still enabled at each step
	Deadlock bool
	Diverged string
	Anomaly  string
	maxSteps int
}

func New(prefix []int) *Sched {
	return &Sched{parked: map[string]*parkedT{}, running: map[string]bool{}, prefix: prefix, maxSteps: 10000}
}

// Point parks the caller until the controller grants key.
func (s *Sched) Point(key, label string) {
	if s == nil {
		return
	}
	ch := make(chan struct{})
	s.mu.Lock()
	if _, dup := s.parked[key]; dup {
		// a second goroutine of the same logical thread reached the same kind of point while the
		// first is still parked there: some goroutine outlived the call that started it
		if s.Anomaly == "" {
			s.Anomaly = "two goroutines active under key " + key + " (at " + label + ")"
		}
		for n := 2; ; n++ {
			k := fmt.Sprintf("%s#%d", key, n)
			if _, dup := s.parked[k]; !dup {
				key = k
				break
			}
		}
	}
	s.parked[key] = &parkedT{label, ch}
	s.mu.Unlock()
	<-ch
}

// Go starts a harness thread. It parks at its first point ("start") before running body.
func (s *Sched) Go(key string, body func()) {
	s.mu.Lock()
	s.running[key] = true
	s.mu.Unlock()
	go func() {
		defer func() {
			s.mu.Lock()
			delete(s.running, key)
			s.mu.Unlock()
		}()
		s.Point(key, "start")
		body()
	}()
}

// Run drives the execution to completion (or deadlock). Must be called from the bubble's root goroutine.
func (s *Sched) Run() {
	for {
		synctest.Wait()
		s.mu.Lock()
		if len(s.parked) == 0 {
			if len(s.running) > 0 {
				s.Deadlock = true
			}
			s.mu.Unlock()
			return
		}
		keys := make([]string, 0, len(s.parked))
		for k := range s.parked {
			keys = append(keys, k)
		}
		sort.Strings(keys)
		// canonical order: the key that ran last first (if still enabled), then ascending
		lastEnabled := false
		for i, k := range keys {
			if k == s.last {
				lastEnabled = true
				copy(keys[1:i+1], keys[:i])
				keys[0] = k
				break
			}
		}
		choice := 0
		if s.step < len(s.prefix) {
			choice = s.prefix[s.step]
			if choice >= len(keys) {
				s.Diverged = fmt.Sprintf("step %d: prefix asks for choice %d but only %d keys are enabled (%v)", s.step, choice, len(keys), keys)
				s.mu.Unlock()
				return
			}
		}
		k := keys[choice]
		p := s.parked[k]
		delete(s.parked, k)
		s.Trace = append(s.Trace, k+":"+p.label)
		s.Choices = append(s.Choices, choice)
		s.Enabled = append(s.Enabled, len(keys))
		s.LastEn = append(s.LastEn, lastEnabled)
		s.last = k
		s.step++
		tooLong := s.step > s.maxSteps
		s.mu.Unlock()
		if tooLong {
			s.Diverged = "execution longer than the step horizon"
			return
		}
		close(p.ch)
	}
}

// ReleaseAll lets every parked goroutine go (used to unwind after a deadlock was recorded).
func (s *Sched) ReleaseAll() {
	s.mu.Lock()
	for k, p := range s.parked {
		delete(s.parked, k)
		close(p.ch)
	}
	s.mu.Unlock()
}

// PreemptionsBefore counts the preemptions among steps [0,i).
func (s *Sched) preemptionCost(i int) int {
	if s.LastEn[i] && s.Choices[i] != 0 {
		return 1
	}
	return 0
}

// Result of exploring one harness.
type Result struct {
	Executions  int
	Steps       int
	MaxSteps    int
	Bound       int  // preemption bound used (-1 = unbounded)
	Complete    bool // every interleaving within the bound was explored
	Outcomes    map[string]int
	FirstTraces map[string][]string
}

// Explore runs the stateless DFS. exec must run one execution with the given prefix inside a
// fresh bubble and return the scheduler used plus an outcome string ("" = fine, else a violation
// description); visit is called for every execution.
func Explore(bound int, maxExec int, exec func(prefix []int) (*Sched, string), visit func(s *Sched, outcome string)) Result {
	res := Result{Bound: bound, Complete: true, Outcomes: map[string]int{}, FirstTraces: map[string][]string{}}
	var rec func(prefix []int, used int)
	rec = func(prefix []int, used int) {
		if maxExec > 0 && res.Executions >= maxExec {
			res.Complete = false
			return
		}
		s, outcome := exec(prefix)
		res.Executions++
		res.Steps += len(s.Choices)
		if len(s.Choices) > res.MaxSteps {
			res.MaxSteps = len(s.Choices)
		}
		visit(s, outcome)
		if s.Diverged != "" {
			return
		}
		// preemptions used by the prefix part
		cost := make([]int, len(s.Choices)+1)
		for i := range s.Choices {
			cost[i+1] = cost[i] + s.preemptionCost(i)
		}
		for i := len(prefix); i < len(s.Choices); i++ {
			for alt := 1; alt < s.Enabled[i]; alt++ {
				c := cost[i]
				if s.LastEn[i] {
					c++ // switching away from a runnable thread is a preemption
				}
				if bound >= 0 && c > bound {
					continue
				}
				np := append(append([]int{}, s.Choices[:i]...), alt)
				rec(np, c)
			}
		}
	}
	rec(nil, 0)
	return res
}

// TraceString renders a schedule compactly.
func TraceString(tr []string) string { return strings.Join(tr, " > ") }
