package c18

import (
	"context"
	"encoding/json"
	"errors"
	"fmt"
	"io"
	"net/http"
	"os"
	"os/exec"
	"path/filepath"
	"sort"
	"strings"
	"sync"
	"sync/atomic"
	"testing"
	"testing/synctest"
	"time"

	webdav "github.com/emersion/go-webdav"
	"github.com/emersion/go-webdav/caldav"
	"github.com/emersion/go-webdav/carddav"
	"github.com/emersion/go-webdav/internal"
	"github.com/emersion/go-webdav/verifmc/checks"
	"github.com/emersion/go-webdav/verifmc/engine"
	"github.com/emersion/go-webdav/verifmc/harness"
	"github.com/emersion/go-webdav/verifmcsync/sched"
)

type tidKeyT struct{}

func withTID(ctx context.Context, id int) context.Context {
	return context.WithValue(ctx, tidKeyT{}, id)
}

func tidOf(ctx context.Context) int {
	if v, ok := ctx.Value(tidKeyT{}).(int); ok {
		return v
	}
	return 0
}

// ======================= Part B: the upload protocol =======================

type envScript struct {
	Reads    []int  `json:"reads"`    // 1 = one byte, -1 = rest until EOF
	Terminal string `json:"terminal"` // 201 204 200 403 500 connerr stall
}

type uploadHarness struct {
	Chunks    []int     `json:"chunks"`
	Env       envScript `json:"env"`
	Canceller bool      `json:"canceller"`
	// Close2: the caller closes the writer a second time (the usual `defer w.Close()` next to an explicit
	// Close) and writes once more afterwards; both calls must return
	Close2 bool `json:"second_close,omitempty"`
	// BasicAuth: the client is built on HTTPClientWithBasicAuth (the request passes through the library's own
	// wrapper, which must hand the caller's context and body on)
	BasicAuth bool `json:"basic_auth,omitempty"`
}

func (h uploadHarness) String() string {
	s := fmt.Sprintf("chunks=%v env.reads=%v env.terminal=%s canceller=%v", h.Chunks, h.Env.Reads, h.Env.Terminal, h.Canceller)
	if h.Close2 {
		s += " second-close"
	}
	if h.BasicAuth {
		s += " basic-auth"
	}
	return s
}

type eventLog struct {
	mu sync.Mutex
	ev []string
}

func (l *eventLog) add(format string, a ...interface{}) {
	l.mu.Lock()
	l.ev = append(l.ev, fmt.Sprintf(format, a...))
	l.mu.Unlock()
}

func (l *eventLog) index(prefix string) int {
	l.mu.Lock()
	defer l.mu.Unlock()
	for i, e := range l.ev {
		if strings.HasPrefix(e, prefix) {
			return i
		}
	}
	return -1
}

type fakeEnv struct {
	s      *sched.Sched
	script envScript
	log    *eventLog
	got    []byte
	took   string // terminal actually taken: answered:<code> | connerr | ctx
	body   *trackedBody
	auth   string // Authorization header of the request as it arrived
}

// trackedBody is the response body handed to the library; it records whether it was closed (an
// unclosed body pins the connection and the transport's goroutines past the end of the upload)
type trackedBody struct {
	io.Reader
	closed atomic.Bool
}

func (b *trackedBody) Close() error { b.closed.Store(true); return nil }

// terminalResponse maps "403", "403/json", "403/xml", "403/none" to (code, content type, body)
func terminalResponse(term string) (code int, ct, body string) {
	fmt.Sscan(term, &code)
	ct, body = "text/plain", ""
	if i := strings.IndexByte(term, '/'); i >= 0 {
		switch term[i+1:] {
		case "json":
			ct, body = "application/json", `{"error":"quota"}`
		case "xml":
			ct, body = "application/xml; charset=utf-8", `<?xml version="1.0"?><D:error xmlns:D="DAV:"><D:quota-not-exceeded/></D:error>`
		case "none":
			ct, body = "", "no content type"
		case "text":
			ct, body = "text/plain; charset=utf-8", "denied"
		}
	}
	return
}

func (e *fakeEnv) finish(req *http.Request, took string) {
	if req.Body != nil {
		req.Body.Close() // per the documented http.Client contract the body is closed before Do returns
	}
	e.took = took
	e.log.add("env-terminal:%s", took)
}

// read with the transport's cancellation semantics: on ctx.Done the body is closed and the read abandoned
func (e *fakeEnv) read(ctx context.Context, body io.Reader, closer io.Closer, n int) (aborted bool, eof bool) {
	type rr struct {
		b   []byte
		err error
	}
	ch := make(chan rr, 1)
	go func() {
		if n < 0 {
			b, err := io.ReadAll(body)
			if err == nil {
				err = io.EOF
			}
			ch <- rr{b, err}
			return
		}
		buf := make([]byte, n)
		k, err := body.Read(buf)
		ch <- rr{buf[:k], err}
	}()
	select {
	case x := <-ch:
		e.got = append(e.got, x.b...)
		return false, x.err == io.EOF
	case <-ctx.Done():
		closer.Close()
		x := <-ch
		e.got = append(e.got, x.b...)
		return true, false
	}
}

func (e *fakeEnv) Do(req *http.Request) (*http.Response, error) {
	ctx := req.Context()
	e.auth = req.Header.Get("Authorization")
	e.s.Point("env", "do")
	if ctx.Err() != nil {
		e.finish(req, "ctx")
		return nil, ctx.Err()
	}
	for i, r := range e.script.Reads {
		e.s.Point("env", fmt.Sprintf("read%d", i))
		if ctx.Err() != nil {
			e.finish(req, "ctx")
			return nil, ctx.Err()
		}
		aborted, eof := e.read(ctx, req.Body, req.Body, r)
		if aborted {
			e.finish(req, "ctx")
			return nil, ctx.Err()
		}
		if eof {
			break
		}
	}
	e.s.Point("env", "terminal")
	if ctx.Err() != nil {
		e.finish(req, "ctx")
		return nil, ctx.Err()
	}
	switch e.script.Terminal {
	case "connerr":
		e.finish(req, "connerr")
		return nil, errors.New("read tcp: connection reset by peer")
	case "stall":
		<-ctx.Done()
		e.finish(req, "ctx")
		return nil, ctx.Err()
	}
	code, ct, body := terminalResponse(e.script.Terminal)
	e.finish(req, fmt.Sprintf("answered:%d", code))
	e.body = &trackedBody{Reader: strings.NewReader(body)}
	hdr := http.Header{}
	if ct != "" {
		hdr.Set("Content-Type", ct)
	}
	return &http.Response{StatusCode: code, Status: fmt.Sprintf("%d %s", code, http.StatusText(code)), Proto: "HTTP/1.1", ProtoMajor: 1, ProtoMinor: 1,
		Header: hdr, Body: e.body, ContentLength: int64(len(body)), Request: req}, nil
}

type uploadObs struct {
	CreateErr string
	Writes    []string
	CloseErr  error
	Closed    bool
	// second Close / Write after Close (harnesses with Close2)
	Close2Err       error
	Closed2         bool
	LateWrite       bool
	LateWriteFailed bool
	Env             *fakeEnv
	Log             *eventLog
	Panic           string
}

const uploadData = "ABCDEFGH"

// runUpload executes one schedule of one upload harness inside a fresh bubble.
func runUpload(t *testing.T, h uploadHarness, prefix []int) (s *sched.Sched, obs *uploadObs) {
	obs = &uploadObs{Log: &eventLog{}}
	func() {
		defer func() {
			if p := recover(); p != nil {
				obs.Panic = fmt.Sprint(p)
			}
		}()
		synctest.Test(t, func(t *testing.T) {
			s = sched.New(prefix)
			// the context is cancelled by the canceller thread only (or to unwind a deadlock): a goroutine
			// that waits for a cancellation which never comes is still there when the bubble ends
			ctx, cancel := context.WithCancel(context.Background())
			env := &fakeEnv{s: s, script: h.Env, log: obs.Log}
			obs.Env = env
			var hc webdav.HTTPClient = env
			if h.BasicAuth {
				hc = webdav.HTTPClientWithBasicAuth(env, "user", "secret")
			}
			cl, err := webdav.NewClient(hc, "http://h/")
			if err != nil {
				panic(err)
			}
			s.Go("caller", func() {
				s.Point("caller", "create")
				wc, err := cl.Create(ctx, "/f")
				if err != nil {
					obs.CreateErr = err.Error()
					return
				}
				off := 0
				for i, c := range h.Chunks {
					s.Point("caller", fmt.Sprintf("write%d", i))
					n, err := wc.Write([]byte(uploadData[off : off+c]))
					obs.Writes = append(obs.Writes, fmt.Sprintf("%d/%d/%v", n, c, err != nil))
					off += c
				}
				s.Point("caller", "close")
				obs.CloseErr = wc.Close()
				obs.Closed = true
				obs.Log.add("close-returned")
				if h.Close2 {
					s.Point("caller", "close2")
					obs.Close2Err = wc.Close()
					obs.Closed2 = true
					s.Point("caller", "write-after-close")
					_, werr := wc.Write([]byte("Z"))
					obs.LateWriteFailed = werr != nil
					obs.LateWrite = true
				}
			})
			if h.Canceller {
				s.Go("cancel", func() {
					s.Point("cancel", "cancel")
					cancel()
					obs.Log.add("cancelled")
				})
			}
			s.Run()
			if s.Deadlock {
				// unwind so that the bubble can end; what is still blocked afterwards is a leak
				cancel()
				s.ReleaseAll()
			}
			synctest.Wait()
		})
	}()
	return s, obs
}

// judgeUpload applies the C18 upload oracle to one execution; "" = fine.
func judgeUpload(h uploadHarness, s *sched.Sched, o *uploadObs) string {
	if s == nil {
		return "harness-error:" + o.Panic
	}
	if s.Diverged != "" {
		return "scheduler-diverged:" + s.Diverged
	}
	if s.Deadlock {
		return "deadlock: nothing enabled but " + fmt.Sprint(o.Closed) + " closed; trace " + sched.TraceString(s.Trace)
	}
	if o.Panic != "" {
		if strings.Contains(o.Panic, "blocked goroutines remain") || strings.Contains(o.Panic, "deadlock") {
			return "leaked-goroutine: " + o.Panic
		}
		return "panic: " + o.Panic
	}
	if o.CreateErr != "" {
		return "create-failed: " + o.CreateErr
	}
	if !o.Closed {
		return "close-did-not-return"
	}
	if h.BasicAuth && o.Env.auth != "Basic dXNlcjpzZWNyZXQ=" {
		return fmt.Sprintf("basic-auth-credentials-not-sent: Authorization=%q", o.Env.auth)
	}
	if h.Close2 {
		if !o.Closed2 {
			return "second-close-did-not-return"
		}
		if !o.LateWrite {
			return "write-after-close-did-not-return"
		}
		if !o.LateWriteFailed {
			return "write-after-close-reported-success"
		}
		if o.CloseErr != nil && o.Close2Err == nil && false {
			return "second-close-hides-the-failure" // not demanded: io.Closer leaves the result of a second Close open
		}
	}
	// (2) Close returns only after the server has answered
	ti, ci := o.Log.index("env-terminal:"), o.Log.index("close-returned")
	if ti < 0 {
		return "close-returned-although-the-request-never-ended"
	}
	if ci < ti {
		return "close-returned-before-the-answer"
	}
	// (3) result of Close
	took := o.Env.took
	switch {
	case strings.HasPrefix(took, "answered:"):
		var code int
		fmt.Sscan(strings.TrimPrefix(took, "answered:"), &code)
		if code/100 == 2 {
			if o.CloseErr != nil {
				return fmt.Sprintf("close-error-on-2xx: %v", o.CloseErr)
			}
		} else {
			var he *internal.HTTPError
			if o.CloseErr == nil || !errors.As(o.CloseErr, &he) || he.Code != code {
				return fmt.Sprintf("close-does-not-report-status-%d: %v", code, o.CloseErr)
			}
		}
	case took == "connerr":
		if o.CloseErr == nil {
			return "close-nil-on-connection-error"
		}
	case took == "ctx":
		if o.CloseErr == nil || !errors.Is(o.CloseErr, context.Canceled) {
			return fmt.Sprintf("close-does-not-report-cancellation: %v", o.CloseErr)
		}
	}
	// (3b) the response body was released: an unclosed body keeps the connection and the
	// transport's goroutines alive after the upload has ended
	if o.Env.body != nil && !o.Env.body.closed.Load() {
		return "response-body-never-closed: status " + strings.TrimPrefix(took, "answered:")
	}
	// (4) writes
	written := 0
	for i, w := range o.Writes {
		var n, c int
		var failed bool
		fmt.Sscanf(w, "%d/%d/%t", &n, &c, &failed)
		if !(n == c && !failed) && !(n < c && failed) {
			return fmt.Sprintf("write%d-inconsistent-result: %s", i, w)
		}
		written += n
	}
	total := 0
	for _, c := range h.Chunks {
		total += c
	}
	if !strings.HasPrefix(uploadData[:total], string(o.Env.got)) {
		return fmt.Sprintf("server-read-%q-not-a-prefix-of-what-was-written", o.Env.got)
	}
	if len(o.Env.got) > written+1 && false {
		return "server-read-more-than-acknowledged"
	}
	return ""
}

func uploadHarnesses(full bool) []uploadHarness {
	chunkings := [][]int{{}, {1}, {3}, {1, 2}, {1, 1, 1}}
	var readSeqs [][]int
	readSeqs = append(readSeqs, nil, []int{1}, []int{-1}, []int{1, 1}, []int{1, -1}, []int{1, 1, 1}, []int{1, 1, -1})
	if full {
		readSeqs = append(readSeqs, []int{1, 1, 1, 1}, []int{1, 1, 1, -1})
	}
	var out []uploadHarness
	for _, ch := range chunkings {
		for _, rs := range readSeqs {
			for _, term := range []string{"201", "204", "200", "403", "500", "connerr", "stall", "403/json", "507/xml", "403/none", "500/text", "200/json", "300", "307/text"} {
				for _, can := range []bool{false, true} {
					if term == "stall" && !can {
						continue // without a canceller a stalled server blocks for ever by construction
					}
					out = append(out, uploadHarness{Chunks: ch, Env: envScript{Reads: rs, Terminal: term}, Canceller: can})
					if !can && (term == "201" || term == "403" || term == "connerr") {
						out = append(out, uploadHarness{Chunks: ch, Env: envScript{Reads: rs, Terminal: term}, Close2: true})
					}
					if term == "stall" || term == "201" || term == "403" {
						out = append(out, uploadHarness{Chunks: ch, Env: envScript{Reads: rs, Terminal: term}, Canceller: can, BasicAuth: true})
					}
				}
			}
		}
	}
	return out
}

// ======================= Part A: concurrent requests on disjoint resources =======================

type opScript []string // operation names

var webdavOps = []string{"stat", "readdir", "open", "create", "mkdir", "copy", "move", "removeall", "options"}

type concHarness struct {
	Kind    string     `json:"kind"` // webdav | caldav | carddav
	Scripts []opScript `json:"scripts"`
}

func (h concHarness) String() string { return fmt.Sprintf("%s %v", h.Kind, h.Scripts) }

type sharedSystem struct {
	local string        // root directory when the file server runs over LocalFileSystem
	base  string        // path prefix the CalDAV/CardDAV handler is mounted under ("" or "/dav")
	cfg   func() string // the handler's configuration fields as they are now
	cfg0  string        // ... as they were when the handler was built
	kind  string
	seq   atomic.Int64
	// freshNames: the create operation names a new file (with a new extension) every time (race pass)
	freshNames bool
	wire       *harness.Wire
	fs         *harness.MemFS
	wd         *webdav.Client
	calB       *harness.CalBackend
	cal        *caldav.Client
	cardB      *harness.CardBackend
	card       *carddav.Client
}

func newSystem(kind string, nThreads int, s *sched.Sched) *sharedSystem {
	sys := &sharedSystem{kind: kind}
	hook := func(k string) func(ctx context.Context, m, p string) {
		return func(ctx context.Context, m, p string) {
			if s != nil {
				s.Point(fmt.Sprintf("t%d:%s", tidOf(ctx), k), m)
			}
		}
	}
	mt := time.Unix(1600000000, 0).UTC()
	switch kind {
	case "webdav-local":
		base := "/dev/shm"
		if st, err := os.Stat(base); err != nil || !st.IsDir() {
			base = os.TempDir()
		}
		dir, err := os.MkdirTemp(base, "c18local")
		if err != nil {
			panic(err)
		}
		for i := 1; i <= nThreads; i++ {
			d := fmt.Sprintf("%s/t%d", dir, i)
			os.MkdirAll(d+"/sub", 0o755)
			os.WriteFile(d+"/f", []byte(fmt.Sprintf("data%d", i)), 0o644)
			os.WriteFile(d+"/sub/g", []byte("g"), 0o644)
			for _, p := range []string{d + "/sub/g", d + "/sub", d + "/f", d} {
				os.Chtimes(p, mt, mt)
			}
		}
		hfs := &harness.HookFS{Inner: webdav.LocalFileSystem(dir), Hook: hook("fs")}
		wh := &webdav.Handler{FileSystem: hfs}
		sys.cfg = func() string {
			return fmt.Sprintf("FileSystem==configured:%v", wh.FileSystem == webdav.FileSystem(hfs))
		}
		// the handler receives upload bodies in pieces, with a scheduling point before each piece: two
		// uploads can overlap inside the file system
		w := &harness.Wire{Handler: wh, Hook: hook("wire"), BodyHook: hook("body"), BodyChunk: 10}
		sys.wire = w
		sys.local = dir
		sys.kind = "webdav"
		sys.wd, _ = webdav.NewClient(w.Client(), "http://h/")
	case "webdav":
		fs := harness.NewMemFS()
		fs.Add(webdav.FileInfo{Path: "/", IsDir: true}, "")
		for i := 1; i <= nThreads; i++ {
			d := fmt.Sprintf("/t%d", i)
			fs.Add(webdav.FileInfo{Path: d, IsDir: true}, "")
			fs.Add(webdav.FileInfo{Path: d + "/f", Size: 5, ModTime: mt, ETag: fmt.Sprintf("e%d", i), MIMEType: "text/plain"}, fmt.Sprintf("data%d", i))
			fs.Add(webdav.FileInfo{Path: d + "/sub", IsDir: true}, "")
			fs.Add(webdav.FileInfo{Path: d + "/sub/g", Size: 1, ModTime: mt, ETag: "g"}, "g")
		}
		fs.Hook = hook("fs")
		wh := &webdav.Handler{FileSystem: fs}
		sys.cfg = func() string { return fmt.Sprintf("FileSystem==configured:%v", wh.FileSystem == webdav.FileSystem(fs)) }
		w := &harness.Wire{Handler: wh, Hook: hook("wire")}
		sys.wire = w
		sys.fs = fs
		sys.wd, _ = webdav.NewClient(w.Client(), "http://h/")
	case "caldav", "caldav-prefix":
		prefix := ""
		if kind == "caldav-prefix" {
			// mounted under a prefix, configured with a trailing slash (legal: the handler trims it)
			sys.base, prefix, sys.kind = "/dav", "/dav/", "caldav"
		}
		b := &harness.CalBackend{Principal: sys.base + "/u/", HomeSet: sys.base + "/u/c/"}
		for i := 1; i <= nThreads; i++ {
			c := fmt.Sprintf("%s/u/c/k%d/", sys.base, i)
			b.Calendars = append(b.Calendars, caldav.Calendar{Path: c, Name: fmt.Sprintf("cal%d", i)})
			b.Objects = append(b.Objects, caldav.CalendarObject{Path: c + "o.ics", ETag: fmt.Sprintf("e%d", i), ModTime: mt, Data: harness.SampleCalendar(fmt.Sprint(i), fmt.Sprintf("summary%d", i))})
		}
		b.Hook = hook("be")
		ch := &caldav.Handler{Backend: b, Prefix: prefix}
		sys.cfg = func() string {
			return fmt.Sprintf("Prefix=%q Backend==configured:%v", ch.Prefix, ch.Backend == caldav.Backend(b))
		}
		w := &harness.Wire{Handler: ch, Hook: hook("wire")}
		sys.wire = w
		sys.calB = b
		sys.cal, _ = caldav.NewClient(w.Client(), "http://h/")
	case "carddav", "carddav-prefix":
		prefix := ""
		if kind == "carddav-prefix" {
			sys.base, prefix, sys.kind = "/dav", "/dav/", "carddav"
		}
		b := &harness.CardBackend{Principal: sys.base + "/u/", HomeSet: sys.base + "/u/c/"}
		for i := 1; i <= nThreads; i++ {
			c := fmt.Sprintf("%s/u/c/k%d/", sys.base, i)
			b.Books = append(b.Books, carddav.AddressBook{Path: c, Name: fmt.Sprintf("book%d", i)})
			b.Objects = append(b.Objects, carddav.AddressObject{Path: c + "o.vcf", ETag: fmt.Sprintf("e%d", i), ModTime: mt, Card: harness.SampleCard(fmt.Sprintf("name%d", i))})
		}
		b.Hook = hook("be")
		ch := &carddav.Handler{Backend: b, Prefix: prefix}
		sys.cfg = func() string {
			return fmt.Sprintf("Prefix=%q Backend==configured:%v", ch.Prefix, ch.Backend == carddav.Backend(b))
		}
		w := &harness.Wire{Handler: ch, Hook: hook("wire")}
		sys.wire = w
		sys.cardB = b
		sys.card, _ = carddav.NewClient(w.Client(), "http://h/")
	}
	if sys.cfg != nil {
		sys.cfg0 = sys.cfg()
	}
	return sys
}

// reverseObservations runs the reverse-order reference passes in a fresh process of this binary.
func reverseObservations() (map[string]string, error) {
	cmd := exec.Command(os.Args[0], "-test.run", "^TestC18$", "-test.timeout", "0")
	f, err := os.CreateTemp("", "c18rev")
	if err != nil {
		return nil, err
	}
	f.Close()
	defer os.Remove(f.Name())
	cmd.Env = append(os.Environ(), "C18_SEQ_CHILD="+f.Name(), "C18_MERGE=", "C18_SHARD=", "C18_REPLAY=")
	if out, err := cmd.CombinedOutput(); err != nil {
		return nil, fmt.Errorf("%v: %s", err, out)
	}
	b, err := os.ReadFile(f.Name())
	if err != nil {
		return nil, err
	}
	rev := map[string]string{}
	return rev, jsonUnmarshal(b, &rev)
}

// clientSoloObservations performs every client operation of every kind once, each on a brand-new
// system (client, wire, handler, backend), in forward or reverse order; the key is "client:<kind>/<op>".
func clientSoloObservations(reverse bool) map[string]string {
	type ko struct{ kind, op string }
	var order []ko
	for _, kind := range []string{"webdav", "webdav-local", "caldav", "carddav", "caldav-prefix", "carddav-prefix"} {
		ops := webdavOps
		if !strings.HasPrefix(kind, "webdav") {
			ops = []string{"find", "multiget", "query", "get", "put", "options"}
		}
		for _, op := range ops {
			order = append(order, ko{kind, op})
		}
	}
	if reverse {
		for a, b := 0, len(order)-1; a < b; a, b = a+1, b-1 {
			order[a], order[b] = order[b], order[a]
		}
	}
	out := map[string]string{}
	hung := 0
	for _, o := range order {
		sys := newSystem(o.kind, 1, nil)
		// an operation that has not returned after 20 s never will (a lock left behind earlier in this process)
		ch := make(chan string, 1)
		go func() { ch <- sys.runOp(withTID(context.Background(), 1), nil, 1, o.op) }()
		var res string
		select {
		case res = <-ch:
		case <-time.After(20 * time.Second):
			res = "the operation did not return within 20 s"
			hung++
		}
		out["client:"+o.kind+"/"+o.op] = res + " | " + sys.stateOf(1)
		sys.close()
		if hung >= 3 {
			break
		}
	}
	return out
}

func errStr(err error) string {
	if err == nil {
		return "ok"
	}
	return "err:" + err.Error()
}

// runOp performs one client call of thread tid and returns its normalised observation.
func (sys *sharedSystem) runOp(ctx context.Context, s *sched.Sched, tid int, op string) string {
	drv := fmt.Sprintf("t%d:drv", tid)
	point := func(l string) {
		if s != nil {
			s.Point(drv, l)
		}
	}
	point(op)
	if op == "options" {
		// a plain OPTIONS request on the thread's own collection through the shared wire and handler
		target := fmt.Sprintf("/t%d", tid)
		if sys.kind != "webdav" {
			target = fmt.Sprintf("%s/u/c/k%d/", sys.base, tid)
		}
		req, err := http.NewRequestWithContext(ctx, "OPTIONS", "http://h"+target, nil)
		if err != nil {
			return errStr(err)
		}
		resp, err := sys.wire.RoundTrip(req)
		if err != nil {
			return errStr(err)
		}
		resp.Body.Close()
		return fmt.Sprintf("%d DAV=%q Allow=%q", resp.StatusCode, resp.Header.Get("DAV"), resp.Header.Get("Allow"))
	}
	switch sys.kind {
	case "webdav":
		d := fmt.Sprintf("/t%d", tid)
		switch op {
		case "stat":
			fi, err := sys.wd.Stat(ctx, d+"/f")
			if err != nil {
				return errStr(err)
			}
			if sys.local != "" {
				return fmt.Sprintf("%s %d %v", fi.Path, fi.Size, fi.ETag != "")
			}
			return fmt.Sprintf("%s %d %s %s", fi.Path, fi.Size, fi.ETag, fi.MIMEType)
		case "readdir":
			l, err := sys.wd.ReadDir(ctx, d, true)
			var ps []string
			for _, fi := range l {
				if sys.local != "" {
					// entity tags of LocalFileSystem derive from kernel mtimes: not comparable across runs
					sz := fi.Size
					if fi.IsDir {
						sz = 0
					}
					ps = append(ps, fmt.Sprintf("%s/%d", fi.Path, sz))
					continue
				}
				ps = append(ps, fmt.Sprintf("%s/%d/%s", fi.Path, fi.Size, fi.ETag))
			}
			sort.Strings(ps)
			return strings.Join(ps, ",") + " " + errStr(err)
		case "open":
			rc, err := sys.wd.Open(ctx, d+"/f")
			if err != nil {
				return errStr(err)
			}
			b, err := io.ReadAll(rc)
			rc.Close()
			return string(b) + " " + errStr(err)
		case "create":
			// a name with an extension of its own: what the server derives from a name (content type) is
			// derived for the first time by each thread
			// the same base name in every thread's own collection (what the server derives from a base name
			// alone must not be shared between collections)
			name := d + "/new"
			if sys.freshNames {
				// free-running race pass: a never-seen extension every time, so that derived per-name state
				// is derived anew while other threads are at work
				name = fmt.Sprintf("%s/new.t%de%d", d, tid, sys.seq.Add(1))
			}
			wc, err := sys.wd.Create(ctx, name)
			if err != nil {
				return errStr(err)
			}
			point("write")
			n, err := wc.Write([]byte(fmt.Sprintf("payload-of-thread-%d", tid)))
			point("close")
			cerr := wc.Close()
			return fmt.Sprintf("%d %s %s", n, errStr(err), errStr(cerr))
		case "mkdir":
			return errStr(sys.wd.Mkdir(ctx, d+"/newdir"))
		case "copy":
			return errStr(sys.wd.Copy(ctx, d+"/f", d+"/f-copy", nil))
		case "move":
			return errStr(sys.wd.Move(ctx, d+"/sub/g", d+"/g-moved", nil))
		case "removeall":
			return errStr(sys.wd.RemoveAll(ctx, d+"/sub"))
		}
	case "caldav":
		c := fmt.Sprintf("%s/u/c/k%d/", sys.base, tid)
		switch op {
		case "find":
			l, err := sys.cal.FindCalendars(ctx, sys.base+"/u/c/")
			var ps []string
			for _, x := range l {
				ps = append(ps, x.Path+"="+x.Name)
			}
			return strings.Join(ps, ",") + " " + errStr(err)
		case "multiget":
			l, err := sys.cal.MultiGetCalendar(ctx, c, &caldav.CalendarMultiGet{Paths: []string{c + "o.ics"}})
			return calObjs(l) + " " + errStr(err)
		case "bigmultiget":
			// a request body of more than 4 KiB (150 hrefs): buffers are sized, pooled or recycled by size
			l, err := sys.cal.MultiGetCalendar(ctx, c, &caldav.CalendarMultiGet{Paths: repeatPath(c+"o.ics", 150)})
			return fmt.Sprintf("%d objects, first %s %s", len(l), calObjs(l[:min1(len(l))]), errStr(err))
		case "query":
			l, err := sys.cal.QueryCalendar(ctx, c, &caldav.CalendarQuery{CompFilter: caldav.CompFilter{Name: "VCALENDAR"}})
			return calObjs(l) + " " + errStr(err)
		case "get":
			o, err := sys.cal.GetCalendarObject(ctx, c+"o.ics")
			if err != nil {
				return errStr(err)
			}
			return calObjs([]caldav.CalendarObject{*o})
		case "put":
			o, err := sys.cal.PutCalendarObject(ctx, c+"new.ics", harness.SampleCalendar(fmt.Sprintf("new%d", tid), fmt.Sprintf("put by %d", tid)))
			if err != nil {
				return errStr(err)
			}
			return o.Path + " " + o.ETag
		}
	case "carddav":
		c := fmt.Sprintf("%s/u/c/k%d/", sys.base, tid)
		switch op {
		case "find":
			l, err := sys.card.FindAddressBooks(ctx, sys.base+"/u/c/")
			var ps []string
			for _, x := range l {
				ps = append(ps, x.Path+"="+x.Name)
			}
			return strings.Join(ps, ",") + " " + errStr(err)
		case "multiget":
			l, err := sys.card.MultiGetAddressBook(ctx, c, &carddav.AddressBookMultiGet{Paths: []string{c + "o.vcf"}})
			return cardObjs(l) + " " + errStr(err)
		case "bigmultiget":
			l, err := sys.card.MultiGetAddressBook(ctx, c, &carddav.AddressBookMultiGet{Paths: repeatPath(c+"o.vcf", 150)})
			return fmt.Sprintf("%d objects, first %s %s", len(l), cardObjs(l[:min1(len(l))]), errStr(err))
		case "query":
			l, err := sys.card.QueryAddressBook(ctx, c, &carddav.AddressBookQuery{PropFilters: []carddav.PropFilter{{Name: "FN"}}})
			return cardObjs(l) + " " + errStr(err)
		case "get":
			o, err := sys.card.GetAddressObject(ctx, c+"o.vcf")
			if err != nil {
				return errStr(err)
			}
			return cardObjs([]carddav.AddressObject{*o})
		case "put":
			o, err := sys.card.PutAddressObject(ctx, c+"new.vcf", harness.SampleCard(fmt.Sprintf("put by %d", tid)))
			if err != nil {
				return errStr(err)
			}
			return o.Path + " " + o.ETag
		}
	}
	return "unknown-op"
}

func repeatPath(p string, n int) []string {
	out := make([]string, n)
	for i := range out {
		out[i] = p
	}
	return out
}

func min1(n int) int {
	if n > 1 {
		return 1
	}
	return n
}

func calObjs(l []caldav.CalendarObject) string {
	var ps []string
	for _, o := range l {
		sum := ""
		if o.Data != nil && len(o.Data.Children) > 0 {
			sum, _ = o.Data.Children[0].Props.Text("SUMMARY")
		}
		ps = append(ps, fmt.Sprintf("%s|%s|%s", o.Path, o.ETag, sum))
	}
	return strings.Join(ps, ",")
}

func cardObjs(l []carddav.AddressObject) string {
	var ps []string
	for _, o := range l {
		ps = append(ps, fmt.Sprintf("%s|%s|%s", o.Path, o.ETag, o.Card.Value("FN")))
	}
	return strings.Join(ps, ",")
}

// state of the backend restricted to one thread's subtree
func (sys *sharedSystem) close() {
	if sys.local != "" {
		os.RemoveAll(sys.local)
	}
}

func (sys *sharedSystem) stateOf(tid int) string {
	var l []string
	if sys.local != "" {
		root := fmt.Sprintf("%s/t%d", sys.local, tid)
		filepath.Walk(root, func(p string, fi os.FileInfo, err error) error {
			if err != nil {
				return nil
			}
			rel := strings.TrimPrefix(p, sys.local)
			if fi.IsDir() {
				l = append(l, rel+"/")
			} else {
				b, _ := os.ReadFile(p)
				l = append(l, fmt.Sprintf("%s=%q", rel, b))
			}
			return nil
		})
		sort.Strings(l)
		return strings.Join(l, ";")
	}
	switch sys.kind {
	case "webdav":
		pre := fmt.Sprintf("/t%d", tid)
		for p, f := range sys.fs.Files {
			if strings.HasPrefix(p, pre+"/") || p == pre {
				l = append(l, fmt.Sprintf("%s=%q", p, f.Data))
			}
		}
	case "caldav":
		pre := fmt.Sprintf("%s/u/c/k%d/", sys.base, tid)
		for _, o := range sys.calB.Objects {
			if strings.HasPrefix(o.Path, pre) {
				l = append(l, calObjs([]caldav.CalendarObject{o}))
			}
		}
	case "carddav":
		pre := fmt.Sprintf("%s/u/c/k%d/", sys.base, tid)
		for _, o := range sys.cardB.Objects {
			if strings.HasPrefix(o.Path, pre) {
				l = append(l, cardObjs([]carddav.AddressObject{o}))
			}
		}
	}
	sort.Strings(l)
	return strings.Join(l, ";")
}

type concObs struct {
	Logs            [][]string
	States          []string
	Panic           string
	Config0, Config string
}

// solo runs each script alone on a fresh instance (the reference).
func soloReference(h concHarness) *concObs {
	o := &concObs{Logs: make([][]string, len(h.Scripts)), States: make([]string, len(h.Scripts))}
	for i, sc := range h.Scripts {
		sys := newSystem(h.Kind, len(h.Scripts), nil)
		ctx := withTID(context.Background(), i+1)
		for _, op := range sc {
			o.Logs[i] = append(o.Logs[i], sys.runOp(ctx, nil, i+1, op))
		}
		o.States[i] = sys.stateOf(i + 1)
		sys.close()
	}
	return o
}

// stuckHook is called (outside the bubble, in real time) when an execution has not become quiescent after
// 30 s: some goroutine is blocked on a primitive synctest does not treat as durably blocking (a sync.Mutex)
// while its holder is parked at a scheduling point - a lock held across I/O.
var stuckHook func(h concHarness, prefix []int)

func runConc(t *testing.T, h concHarness, prefix []int) (s *sched.Sched, obs *concObs) {
	obs = &concObs{Logs: make([][]string, len(h.Scripts)), States: make([]string, len(h.Scripts))}
	if stuckHook != nil {
		tm := time.AfterFunc(30*time.Second, func() { stuckHook(h, prefix) })
		defer tm.Stop()
	}
	func() {
		defer func() {
			if p := recover(); p != nil {
				obs.Panic = fmt.Sprint(p)
			}
		}()
		synctest.Test(t, func(t *testing.T) {
			s = sched.New(prefix)
			sys := newSystem(h.Kind, len(h.Scripts), s)
			defer sys.close()
			for i, sc := range h.Scripts {
				i, sc := i, sc
				ctx := withTID(context.Background(), i+1)
				s.Go(fmt.Sprintf("t%d:drv", i+1), func() {
					for _, op := range sc {
						obs.Logs[i] = append(obs.Logs[i], sys.runOp(ctx, s, i+1, op))
					}
				})
			}
			s.Run()
			if s.Deadlock {
				s.ReleaseAll()
			}
			synctest.Wait()
			for i := range h.Scripts {
				obs.States[i] = sys.stateOf(i + 1)
			}
			if sys.cfg != nil {
				obs.Config0, obs.Config = sys.cfg0, sys.cfg()
			}
		})
	}()
	return s, obs
}

func judgeConc(s *sched.Sched, o, ref *concObs) string {
	if s == nil {
		return "harness-error:" + o.Panic
	}
	if s.Diverged != "" {
		return "scheduler-diverged:" + s.Diverged
	}
	if s.Deadlock {
		return "deadlock: " + sched.TraceString(s.Trace)
	}
	if s.Anomaly != "" {
		return "background-goroutine-outlived-its-call: " + s.Anomaly
	}
	if o.Panic != "" {
		if strings.Contains(o.Panic, "blocked goroutines remain") {
			return "leaked-goroutine: " + o.Panic
		}
		return "panic: " + o.Panic
	}
	if o.Config != o.Config0 {
		// a handler that writes its own fields while serving races with every concurrent request
		return fmt.Sprintf("handler-changed-its-own-configuration-while-serving: %s -> %s", o.Config0, o.Config)
	}
	for i := range ref.Logs {
		if fmt.Sprint(o.Logs[i]) != fmt.Sprint(ref.Logs[i]) {
			return fmt.Sprintf("thread-%d-result-differs-from-solo: got %v want %v", i+1, o.Logs[i], ref.Logs[i])
		}
		if o.States[i] != ref.States[i] {
			return fmt.Sprintf("thread-%d-effect-differs-from-solo: got %s want %s", i+1, o.States[i], ref.States[i])
		}
	}
	return ""
}

func concHarnesses(full bool) []concHarness {
	var out []concHarness
	for _, a := range webdavOps {
		for _, b := range webdavOps {
			out = append(out, concHarness{Kind: "webdav", Scripts: []opScript{{a}, {b}}})
		}
	}
	// the same operations over the real LocalFileSystem on tmpfs (method-level scheduling points)
	for _, a := range webdavOps {
		for _, b := range webdavOps {
			out = append(out, concHarness{Kind: "webdav-local", Scripts: []opScript{{a}, {b}}})
		}
	}
	out = append(out, concHarness{Kind: "webdav-local", Scripts: []opScript{{"create", "open"}, {"create", "stat"}}},
		concHarness{Kind: "webdav-local", Scripts: []opScript{{"mkdir", "copy"}, {"removeall", "readdir"}}},
		concHarness{Kind: "webdav-local", Scripts: []opScript{{"copy"}, {"move"}, {"readdir"}}})
	davOps := []string{"find", "multiget", "query", "get", "put", "options"}
	for _, kind := range []string{"caldav", "carddav"} {
		for _, a := range davOps {
			for _, b := range davOps {
				out = append(out, concHarness{Kind: kind, Scripts: []opScript{{a}, {b}}})
			}
		}
	}
	// handlers mounted under a prefix configured with a trailing slash
	for _, kind := range []string{"caldav-prefix", "carddav-prefix"} {
		for ai, a := range davOps {
			for bi, b := range davOps {
				if !full && (ai+bi)%3 != 0 {
					continue
				}
				out = append(out, concHarness{Kind: kind, Scripts: []opScript{{a}, {b}}})
			}
		}
	}
	// two-operation scripts
	two := [][2]opScript{
		{{"create", "open"}, {"create", "stat"}}, {{"mkdir", "copy"}, {"removeall", "readdir"}}, {{"create", "readdir"}, {"move", "readdir"}},
		{{"copy", "stat"}, {"create", "removeall"}}, {{"stat", "create"}, {"open", "mkdir"}}, {{"removeall", "stat"}, {"copy", "move"}},
	}
	for _, p := range two {
		out = append(out, concHarness{Kind: "webdav", Scripts: []opScript{p[0], p[1]}})
	}
	for _, kind := range []string{"caldav", "carddav"} {
		out = append(out, concHarness{Kind: kind, Scripts: []opScript{{"put", "get"}, {"put", "query"}}},
			concHarness{Kind: kind, Scripts: []opScript{{"put", "multiget"}, {"find", "put"}}},
			concHarness{Kind: kind, Scripts: []opScript{{"query", "put"}, {"get", "find"}}},
			concHarness{Kind: kind, Scripts: []opScript{{"bigmultiget"}, {"bigmultiget"}}},
			concHarness{Kind: kind, Scripts: []opScript{{"bigmultiget"}, {"find"}}})
	}
	// three threads
	out = append(out,
		concHarness{Kind: "webdav", Scripts: []opScript{{"create"}, {"stat"}, {"removeall"}}},
		concHarness{Kind: "webdav", Scripts: []opScript{{"copy"}, {"move"}, {"readdir"}}},
		concHarness{Kind: "webdav", Scripts: []opScript{{"create"}, {"create"}, {"create"}}},
		concHarness{Kind: "caldav", Scripts: []opScript{{"put"}, {"query"}, {"find"}}},
		concHarness{Kind: "carddav", Scripts: []opScript{{"put"}, {"multiget"}, {"get"}}},
		concHarness{Kind: "caldav", Scripts: []opScript{{"put"}, {"put"}, {"put"}}},
	)
	return out
}

// ======================= the check =======================

func tier() string {
	if t := os.Getenv("VERIF_TIER"); t == "thorough" {
		return t
	}
	return "quick"
}

type c18Case struct {
	Part     string         `json:"part"`
	Upload   *uploadHarness `json:"upload,omitempty"`
	Conc     *concHarness   `json:"concurrent,omitempty"`
	Schedule []int          `json:"schedule"`
	Trace    []string       `json:"trace"`
}

func classify(outcome string) string {
	c := strings.SplitN(outcome, ":", 2)[0]
	c = strings.SplitN(c, " ", 2)[0]
	return c
}

func TestC18(t *testing.T) {
	if f := os.Getenv("C18_SEQ_CHILD"); f != "" {
		m := checks.SeqSoloObservations(true)
		for k, v := range clientSoloObservations(true) {
			m[k] = v
		}
		b, _ := json.Marshal(m)
		if err := os.WriteFile(f, b, 0o644); err != nil {
			t.Fatal(err)
		}
		return
	}
	if os.Getenv("C18_REPLAY") != "" {
		replay(t, os.Getenv("C18_REPLAY"))
		return
	}
	full := tier() == "thorough"
	r := engine.NewRun("C18", tier())
	if m := os.Getenv("C18_MERGE"); m != "" {
		mergeShards(t, r, strings.Split(m, ","))
		return
	}
	shardI, shardN := 0, 1
	fmt.Sscanf(os.Getenv("C18_SHARD"), "%d/%d", &shardI, &shardN)
	shard := r.Shard()
	maxExec := 4000
	if full {
		maxExec = 300000
	}
	if v := os.Getenv("C18_MAXEXEC"); v != "" {
		fmt.Sscan(v, &maxExec)
	}
	var caps []string
	extra := map[string]interface{}{}
	add := func(k string, n int) {
		f, _ := extra[k].(float64)
		extra[k] = f + float64(n)
	}
	determinismChecked := 0
	uh := uploadHarnesses(full)
	ch := concHarnesses(full)
	perHarness := map[string]int{}

	// ---- part B: upload protocol ----
	for hi, h := range uh {
		if hi%shardN != shardI {
			continue
		}
		h := h
		firstK := 0
		nExec := 0
		res := sched.Explore(-1, maxExec, func(prefix []int) (*sched.Sched, string) {
			s, o := runUpload(t, h, prefix)
			out := judgeUpload(h, s, o)
			if firstK < 3 && s != nil {
				// determinism gate: the same schedule must produce the same trace and outcome
				firstK++
				s2, o2 := runUpload(t, h, s.Choices)
				if s2 == nil || sched.TraceString(s2.Trace) != sched.TraceString(s.Trace) || judgeUpload(h, s2, o2) != out {
					fmt.Fprintf(os.Stderr, "C18: nondeterministic replay in harness %s\n", h)
					os.Exit(2)
				}
				determinismChecked++
			}
			if s == nil {
				s = sched.New(nil)
			}
			return s, out
		}, func(s *sched.Sched, outcome string) {
			shard.Transition()
			nExec++
			multi := false
			for _, e := range s.Enabled {
				if e > 1 {
					multi = true
				}
			}
			if multi {
				shard.Nontrivial(fmt.Sprintf("B/%d/%v", hi, s.Choices))
			}
			shard.Outcome("upload/" + h.Env.Terminal + "/" + classify(outcome))
			shard.Clause("upload: no deadlock, Close after the answer, nil iff 2xx, status/cancellation reported, consistent writes, no leaked goroutine")
			if outcome != "" {
				if strings.HasPrefix(outcome, "scheduler-diverged") || strings.HasPrefix(outcome, "harness-error") {
					fmt.Fprintf(os.Stderr, "C18: %s in harness %s\n", outcome, h)
					os.Exit(2)
				}
				shard.Violate(engine.Violation{Sig: fmt.Sprintf("C18/upload/%s/terminal=%s.canceller=%v", classify(outcome), h.Env.Terminal, h.Canceller), Clause: classify(outcome), Index: int64(hi)*10000000 + int64(nExec), Kind: "C18",
					Case: c18Case{Part: "upload", Upload: &h, Schedule: s.Choices, Trace: s.Trace}, Expected: "Close returns after the answer; nil iff 2xx; no deadlock; no leak", Observed: outcome})
			}
		})
		shard.State()
		add("upload_harnesses", 1)
		add("upload_schedules", res.Executions)
		if res.Complete {
			add("upload_harnesses_all_interleavings", 1)
		} else {
			caps = append(caps, fmt.Sprintf("upload harness %q stopped at %d executions", h.String(), maxExec))
		}
		perHarness["B "+h.String()] = res.Executions
		if hi == 37 || hi == 210 {
			shard.Sample(map[string]interface{}{"part": "upload", "harness": h, "schedules_explored": res.Executions, "all_interleavings": res.Complete})
		}
	}

	// ---- part A: concurrent requests on disjoint resources ----
	stuckHook = func(h concHarness, prefix []int) {
		shard.Violate(engine.Violation{Sig: "C18/concurrent/blocked-on-a-lock-held-across-a-scheduling-point/" + h.Kind, Clause: "lock-held-across-io", Index: 1 << 61, Kind: "C18",
			Case: c18Case{Part: "concurrent", Conc: &h, Schedule: prefix}, Expected: "same results and effects as when run alone",
			Observed: "after this schedule prefix the execution did not become quiescent within 30 s: a request waits for a lock (not for I/O) that another request holds while it is waiting for its own I/O, so requests on disjoint resources are not independent"})
		caps = append(caps, "exploration of this shard stopped at an execution that never became quiescent")
		if b, err := shard.Export(caps, extra); err == nil {
			if out := os.Getenv("C18_OUT"); out != "" {
				os.WriteFile(out, b, 0o644)
			}
		}
		os.Exit(0)
	}
	for hi, h := range ch {
		if (len(uh)+hi)%shardN != shardI {
			continue
		}
		h := h
		ref := soloReference(h)
		firstK := 0
		nExec := 0
		// harnesses whose every execution moves hundreds of resources get a smaller execution budget
		maxExec := maxExec
		if strings.Contains(h.String(), "bigmultiget") {
			maxExec /= 8
		}
		explore := func(bound int) sched.Result {
			return sched.Explore(bound, maxExec, func(prefix []int) (*sched.Sched, string) {
				s, o := runConc(t, h, prefix)
				out := judgeConc(s, o, ref)
				if firstK < 2 && s != nil {
					firstK++
					s2, o2 := runConc(t, h, s.Choices)
					if s2 == nil || sched.TraceString(s2.Trace) != sched.TraceString(s.Trace) || judgeConc(s2, o2, ref) != out {
						fmt.Fprintf(os.Stderr, "C18: nondeterministic replay in harness %s\n", h)
						os.Exit(2)
					}
					determinismChecked++
				}
				if s == nil {
					s = sched.New(nil)
				}
				return s, out
			}, func(s *sched.Sched, outcome string) {
				shard.Transition()
				nExec++
				shard.Nontrivial(fmt.Sprintf("A/%d/%v", hi, s.Choices))
				shard.Outcome("concurrent/" + h.Kind + "/" + classify(outcome))
				shard.Clause("concurrent: every thread's results and effects equal its solo run; no deadlock; no leak")
				if outcome != "" {
					if strings.HasPrefix(outcome, "scheduler-diverged") || strings.HasPrefix(outcome, "harness-error") {
						fmt.Fprintf(os.Stderr, "C18: %s in harness %s\n", outcome, h)
						os.Exit(2)
					}
					shard.Violate(engine.Violation{Sig: fmt.Sprintf("C18/concurrent/%s/%s", classify(outcome), h.Kind), Clause: classify(outcome), Index: int64(1000+hi)*10000000 + int64(nExec), Kind: "C18",
						Case: c18Case{Part: "concurrent", Conc: &h, Schedule: s.Choices, Trace: s.Trace}, Expected: "same results and effects as when run alone", Observed: outcome})
				}
			})
		}
		// iterative context bounding: preemption bounds 0,1,2,... until the cap is hit; then unbounded if it fits
		var res sched.Result
		completedBound := -2
		for b := 0; b <= 6; b++ {
			res = explore(b)
			if !res.Complete {
				break
			}
			completedBound = b
			if res.Executions*4 > maxExec {
				break
			}
		}
		allInter := false
		if completedBound >= 2 {
			u := explore(-1)
			if u.Complete {
				allInter = true
				res = u
			}
		}
		shard.State()
		add("concurrent_harnesses", 1)
		add("concurrent_schedules", nExec)
		if allInter {
			add("concurrent_harnesses_all_interleavings", 1)
		} else {
			add(fmt.Sprintf("concurrent_harnesses_complete_to_preemption_bound_%d", completedBound), 1)
			caps = append(caps, fmt.Sprintf("concurrent harness %q: all interleavings exceed %d executions; complete up to preemption bound %d", h.String(), maxExec, completedBound))
		}
		perHarness["A "+h.String()] = nExec
		if hi == 3 || hi == len(ch)-1 {
			shard.Sample(map[string]interface{}{"part": "concurrent", "harness": h, "schedules_explored": nExec, "all_interleavings": allInter, "completed_preemption_bound": completedBound, "max_steps": res.MaxSteps})
		}
	}
	add("determinism_replays", determinismChecked)
	if os.Getenv("C18_VERBOSE") != "" {
		for k, v := range perHarness {
			fmt.Printf("EXEC %d %s\n", v, k)
		}
	}
	b, err := shard.Export(caps, extra)
	if err != nil {
		t.Fatal(err)
	}
	if out := os.Getenv("C18_OUT"); out != "" {
		if err := os.WriteFile(out, b, 0o644); err != nil {
			t.Fatal(err)
		}
		return
	}
	// single-process mode: merge our own shard and finish
	tmp, _ := os.CreateTemp("", "c18shard")
	tmp.Write(b)
	tmp.Close()
	defer os.Remove(tmp.Name())
	mergeShards(t, r, []string{tmp.Name()})
}

func mergeShards(t *testing.T, r *engine.Run, files []string) {
	r.Rule = "part B: every upload harness = write chunking {[],[1],[3],[1,2],[1,1,1]} x server script {0..3 (thorough 4) reads of one byte or rest-until-EOF, then answer 201/204/200/403/500 | connection error | stall until cancelled} x canceller {absent, present}, each explored over ALL interleavings of its scheduling points (caller: Create, each Write, Close; server: entry, each read, terminal; canceller: cancel); part A: all ordered pairs of 8 WebDAV client operations and of 5 CalDAV / 5 CardDAV operations on disjoint subtrees over one shared client and handler, 12 two-operation pairs and 6 three-thread harnesses, each by iterative preemption bounding 0,1,2,... and then all interleavings when they fit the execution cap (the completed bound is reported per harness); part C (complement, sampling): the same harness bodies free-running under the race detector; non-trivial = executions with at least one scheduling choice; distinct by (harness, schedule)"
	r.Explanation = "stateless depth-first exploration of thread interleavings of the real client/handler code under a controlled scheduler; quiescence (every other goroutine durably blocked, e.g. inside io.Pipe) is detected by testing/synctest, so goroutines the library spawns itself are scheduled too; no state-hash pruning; every schedule is an implementation execution; the first schedules of every harness are replayed and must reproduce the same trace and verdict"
	r.Assumptions = []string{"interleavings inside one macro-step (between two quiescent points) are not enumerated: covered by the free-running race pass (sampling)", "the fake server follows the documented http.Client contract: it closes the request body before returning and returns ctx.Err() once the context is cancelled", "upload sizes up to 3 bytes: io.Pipe is unbuffered, so every Write is a rendezvous"}
	r.Exhaustive = true
	var t0 int64
	if fmt.Sscan(os.Getenv("C18_T0"), &t0); t0 > 0 {
		r.SetStart(time.Unix(t0, 0))
	}
	for _, f := range files {
		b, err := os.ReadFile(f)
		if err != nil {
			fmt.Fprintf(os.Stderr, "C18: shard result %s missing: %v\n", f, err)
			os.Exit(2)
		}
		if err := r.Import(b); err != nil {
			fmt.Fprintf(os.Stderr, "C18: %v\n", err)
			os.Exit(2)
		}
	}
	if b, err := os.ReadFile(os.Getenv("C18_RACE_RESULT")); err == nil {
		var rr map[string]interface{}
		if jsonUnmarshal(b, &rr) == nil {
			r.Extra["race_pass"] = rr
			if hung, _ := rr["did_not_terminate"].(bool); hung {
				s := r.Shard()
				s.Violate(engine.Violation{Sig: "C18/free-running-pass-did-not-terminate", Clause: "termination", Index: 1<<60 + 1, Kind: "C18-race", Case: rr, Expected: "every operation of the free-running pass returns", Observed: fmt.Sprintf("the pass was still running after %v s (it takes seconds to minutes)", rr["watchdog_seconds"])})
				r.Merge(s)
			}
			if n, _ := rr["races"].(float64); n > 0 {
				s := r.Shard()
				s.Violate(engine.Violation{Sig: "C18/data-race", Clause: "data-race", Index: 1 << 60, Kind: "C18-race", Case: rr, Expected: "no data race on library state", Observed: fmt.Sprint(rr["first_report"])})
				r.Merge(s)
			}
		}
	}
	// part D: sequential histories (degenerate schedules), single process.
	// Reference observations are taken in forward order here and in reverse order in a fresh process
	// of this same binary: first for the client operations, then (inside SeqHistories) for the servers.
	cfwd := clientSoloObservations(false)
	rev, revErr := reverseObservations()
	if revErr != nil {
		fmt.Fprintf(os.Stderr, "C18: reverse-order reference pass failed: %v\n", revErr)
		os.Exit(2)
	}
	{
		sh := r.Shard()
		keys := make([]string, 0, len(cfwd))
		for k := range cfwd {
			keys = append(keys, k)
		}
		sort.Strings(keys)
		for _, k := range keys {
			sh.Transition()
			sh.Transition()
			sh.Clause("process history: a brand-new client and handler perform an operation the same whatever the process did before")
			if rev[k] != cfwd[k] {
				parts := strings.SplitN(strings.TrimPrefix(k, "client:"), "/", 2)
				sh.Violate(engine.Violation{Sig: fmt.Sprintf("C18/process-state/client/%s/%s", parts[0], parts[1]), Clause: "process-state", Index: 1<<58 + int64(len(k)), Kind: "C18-client-seq",
					Case: map[string]interface{}{"kind": parts[0], "operation": parts[1]}, Expected: "forward order: " + cfwd[k], Observed: "reverse order in a fresh process: " + rev[k]})
			}
		}
		r.Extra["client_process_state_operations"] = len(keys)
		r.Merge(sh)
	}
	checks.SeqHistories(r, tier() != "thorough", func() (map[string]string, error) { return rev, nil })
	code := r.Finish()
	if f := os.Getenv("C18_EXIT_FILE"); f != "" {
		os.WriteFile(f, []byte(fmt.Sprint(code)), 0o644)
	}
	if code != 0 {
		t.Fail()
	}
}

func replay(t *testing.T, file string) {
	b, err := os.ReadFile(file)
	if err != nil {
		t.Fatal(err)
	}
	var v struct {
		Case c18Case `json:"case"`
	}
	if err := jsonUnmarshal(b, &v); err != nil {
		t.Fatal(err)
	}
	var out string
	var top struct {
		Kind string `json:"kind"`
		Case struct {
			Kind      string `json:"kind"`
			Operation string `json:"operation"`
		} `json:"case"`
	}
	if jsonUnmarshal(b, &top) == nil && top.Kind == "C18-client-seq" {
		fwd := clientSoloObservations(false)
		rev, err := reverseObservations()
		if err != nil {
			t.Fatal(err)
		}
		k := "client:" + top.Case.Kind + "/" + top.Case.Operation
		fmt.Printf("forward order: %s\nreverse order in a fresh process: %s\n", fwd[k], rev[k])
		if fwd[k] == rev[k] {
			fmt.Println("RESULT: property holds on this case now")
			return
		}
		fmt.Printf("VIOLATION property=C18 replay=%s\n", file)
		t.Fail()
		return
	}
	if v.Case.Part == "" {
		var sc struct {
			Case struct {
				Handler       string `json:"handler"`
				First, Second harness.Req
			} `json:"case"`
		}
		if err := jsonUnmarshal(b, &sc); err != nil {
			t.Fatal(err)
		}
		ok, d := checks.ReplaySeq(sc.Case.Handler, sc.Case.First, sc.Case.Second)
		fmt.Println(d)
		if ok {
			fmt.Println("RESULT: property holds on this case now")
			return
		}
		fmt.Printf("VIOLATION property=C18 replay=%s\n", file)
		t.Fail()
		return
	}
	if v.Case.Part == "upload" {
		s, o := runUpload(t, *v.Case.Upload, v.Case.Schedule)
		out = judgeUpload(*v.Case.Upload, s, o)
		if s != nil {
			fmt.Println("trace:", sched.TraceString(s.Trace))
		}
	} else {
		stuckHook = func(h concHarness, prefix []int) {
			fmt.Printf("now: the execution did not become quiescent within 30 s (a lock held across a scheduling point)\nVIOLATION property=C18 replay=%s\n", file)
			os.Exit(1)
		}
		ref := soloReference(*v.Case.Conc)
		s, o := runConc(t, *v.Case.Conc, v.Case.Schedule)
		out = judgeConc(s, o, ref)
		if s != nil {
			fmt.Println("trace:", sched.TraceString(s.Trace))
		}
	}
	if out == "" {
		fmt.Println("RESULT: property holds on this schedule now")
		return
	}
	fmt.Printf("now: %s\nVIOLATION property=C18 replay=%s\n", out, file)
	t.Fail()
}
